//go:build verif

// Package c07 checks property C07: a Timeout's outcome is exclusive and consistent, and never early.
package c07

import (
	"encoding/json"
	"errors"
	"fmt"
	"os"
	"strconv"
	"sync"
	"sync/atomic"
	"testing"
	"time"

	"github.com/failsafe-go/failsafe-go"
	"github.com/failsafe-go/failsafe-go/bulkhead"
	"github.com/failsafe-go/failsafe-go/fallback"
	"github.com/failsafe-go/failsafe-go/hedgepolicy"
	"github.com/failsafe-go/failsafe-go/ratelimiter"
	"github.com/failsafe-go/failsafe-go/retrypolicy"
	"github.com/failsafe-go/failsafe-go/timeout"
	"pgregory.net/rapid"

	"verif/harness"
)

const prop = "C07"

var errIn = errors.New("inner")

const fbVal = 55

// trial is one execution through a Timeout. The oracle is true whichever of timer and function wins.
type trial struct {
	Placement string  `json:"placement"` // alone retry(timeout) timeout(retry) fallback(timeout) timeout(fallback) timeout(hedge) timeout(bulkhead) timeout(limiter) hedge(timeout) bulkhead(timeout)
	LimitUs   int     `json:"limit_us"`
	DurKind   string  `json:"dur_kind"` // zero half band double block
	Factor    float64 `json:"factor"`   // band: duration = factor * limit
	Spin      bool    `json:"spin"`
	Val       int     `json:"val"`
	Err       bool    `json:"err"`
	FailFirst int     `json:"fail_first"` // retry placements: the first n invocations return errIn
	Waiting   bool    `json:"waiting"`    // bulkhead / limiter placements: the permit is not available, the policy waits
	// SharedBuilder: the Timeout is one of several built from the same builder with different listeners
	SharedBuilder bool `json:"shared_builder,omitempty"`
	Async         bool `json:"async"`
}

func (tr trial) limit() time.Duration { return time.Duration(tr.LimitUs) * time.Microsecond }

func (tr trial) dur() time.Duration {
	l := tr.limit()
	switch tr.DurKind {
	case "zero":
		return 0
	case "half":
		return l / 2
	case "band":
		return time.Duration(float64(l) * tr.Factor)
	case "double":
		return 2 * l
	}
	return -1
}

type attemptObs struct {
	exec       failsafe.Execution[int]
	start, end time.Time
}

type outcome struct {
	Arm         string // inner | timeout
	Racing      bool
	Attempts    int
	TimeoutArms int
}

func runTrial(tr trial) (violation string, out outcome) {
	limit := tr.limit()
	var listener atomic.Int32
	// SharedBuilder: the Timeout under test is the middle one of three built from one builder, each with its own listener;
	// what the builder is told before or after must not reach it
	var sibling atomic.Int32
	tb := timeout.Builder[int](limit)
	if tr.SharedBuilder {
		tb.OnTimeoutExceeded(func(failsafe.ExecutionDoneEvent[int]) { sibling.Add(1) })
		_ = tb.Build()
	}
	tb.OnTimeoutExceeded(func(e failsafe.ExecutionDoneEvent[int]) {
		listener.Add(1)
	})
	to := tb.Build()
	if tr.SharedBuilder {
		tb.OnTimeoutExceeded(func(failsafe.ExecutionDoneEvent[int]) { sibling.Add(1) })
		_ = tb.Build()
	}
	defer func() {
		if violation == "" && sibling.Load() != 0 {
			violation = fmt.Sprintf("%s: the listener of another Timeout built from the same builder was called %d times (own listener: %d)", tr.Placement, sibling.Load(), listener.Load())
		}
	}()

	var mu sync.Mutex
	var obs []*attemptObs
	invocations := 0
	fn := func(e failsafe.Execution[int]) (int, error) {
		mu.Lock()
		invocations++
		n := invocations
		o := &attemptObs{exec: e, start: time.Now()}
		obs = append(obs, o)
		mu.Unlock()
		d := tr.dur()
		switch {
		case d < 0:
			select {
			case <-e.Canceled():
			case <-harness.After(50 * time.Second):
			}
		case d == 0:
		case tr.Spin:
			end := time.Now().Add(d)
			for time.Now().Before(end) {
			}
		default:
			time.Sleep(d)
		}
		mu.Lock()
		o.end = time.Now()
		mu.Unlock()
		if n <= tr.FailFirst {
			return 0, errIn
		}
		if tr.Err {
			return tr.Val, errIn
		}
		return tr.Val, nil
	}

	// per-attempt results as the enclosing retry policy saw them (retry(timeout) only)
	var attemptErrs []error
	var attemptErrAt []time.Time
	var lateStart time.Time // hedge(timeout) / bulkhead(timeout): an instant known to precede the start of the last Timeout
	var policies []failsafe.Policy[int]
	var bh bulkhead.Bulkhead[int]
	switch tr.Placement {
	case "alone":
		policies = []failsafe.Policy[int]{to}
	case "retry(timeout)":
		rp := retrypolicy.Builder[int]().WithMaxRetries(2).HandleErrors(timeout.ErrExceeded, errIn).ReturnLastFailure().
			OnFailure(func(e failsafe.ExecutionEvent[int]) {
				mu.Lock()
				attemptErrs = append(attemptErrs, e.LastError())
				attemptErrAt = append(attemptErrAt, time.Now())
				mu.Unlock()
			}).Build()
		policies = []failsafe.Policy[int]{rp, to}
	case "timeout(retry)":
		rp := retrypolicy.Builder[int]().WithMaxRetries(3).HandleErrors(errIn).ReturnLastFailure().Build()
		policies = []failsafe.Policy[int]{to, rp}
	case "fallback(timeout)":
		fb := fallback.BuilderWithResult[int](fbVal).HandleErrors(timeout.ErrExceeded).Build()
		policies = []failsafe.Policy[int]{fb, to}
	case "timeout(fallback)":
		fb := fallback.BuilderWithResult[int](fbVal).HandleErrors(errIn).Build()
		policies = []failsafe.Policy[int]{to, fb}
	case "timeout(hedge)":
		hp := hedgepolicy.BuilderWithDelay[int](time.Hour).Build()
		policies = []failsafe.Policy[int]{to, hp}
	case "timeout(bulkhead)":
		wait := time.Duration(0)
		if tr.Waiting {
			wait = time.Hour
		}
		bh = bulkhead.Builder[int](1).WithMaxWaitTime(wait).Build()
		if tr.Waiting {
			bh.TryAcquirePermit() // held by the harness: the execution waits for a permit until the timeout cancels it
		}
		policies = []failsafe.Policy[int]{to, bh}
	case "timeout(limiter)":
		rl := ratelimiter.SmoothBuilderWithMaxRate[int](time.Hour).WithMaxWaitTime(2 * time.Hour).Build()
		if tr.Waiting {
			rl.TryAcquirePermit() // the next permit is an hour away: the execution waits until the timeout cancels it
		}
		policies = []failsafe.Policy[int]{to, rl}
	case "hedge(timeout)":
		// the hedge outside: each attempt gets its own Timeout application, so the limit applies afresh to the hedge, which
		// starts later than the execution. No result is accepted before both attempts have timed out.
		hp := hedgepolicy.BuilderWithDelay[int](limit / 3).WithMaxHedges(1).CancelOnResult(-12345).OnHedge(func(failsafe.ExecutionEvent[int]) {
			mu.Lock()
			lateStart = time.Now() // the hedge's Timeout is applied after this listener returned
			mu.Unlock()
		}).Build()
		policies = []failsafe.Policy[int]{hp, to}
	case "bulkhead(timeout)":
		// the bulkhead outside, its only permit held by the harness for a while: the time spent waiting for the permit is
		// not the Timeout's
		bh = bulkhead.Builder[int](1).WithMaxWaitTime(time.Hour).Build()
		bh.TryAcquirePermit()
		policies = []failsafe.Policy[int]{bh, to}
		go func() {
			time.Sleep(limit / 3)
			mu.Lock()
			lateStart = time.Now() // the permit is given back after this instant: the Timeout starts later still
			mu.Unlock()
			bh.ReleasePermit()
		}()
	default:
		return "unknown placement " + tr.Placement, out
	}

	ex := failsafe.NewExecutor[int](policies...)
	t0 := time.Now()
	var v int
	var err error
	returned := make(chan struct{})
	go func() {
		defer close(returned)
		if tr.Async {
			v, err = ex.GetWithExecutionAsync(fn).Get()
		} else {
			v, err = ex.GetWithExecution(fn)
		}
	}()
	select {
	case <-returned:
	case <-harness.After(35 * time.Second):
		// the only things that last longer than the limit here are a function blocked until cancellation and 1-hour
		// permit waits: the timeout's cancellation did not reach them
		return fmt.Sprintf("the call had not returned 35s after a time limit of %v: cancellation did not reach what the Timeout encloses", limit), out
	}
	elapsed := time.Since(t0)
	tReturn := time.Now()
	if bh != nil && tr.Waiting && tr.Placement == "timeout(bulkhead)" {
		bh.ReleasePermit()
	}
	if tr.Placement == "hedge(timeout)" || tr.Placement == "bulkhead(timeout)" {
		// the function blocks until cancelled, so everything ends in ErrExceeded; the (last) Timeout was applied after
		// lateStart, so ErrExceeded cannot be returned before lateStart + limit
		out.Racing = true
		if !errors.Is(err, timeout.ErrExceeded) {
			return fmt.Sprintf("%s with a function that only returns on cancellation returned (%d,%v)", tr.Placement, v, err), out
		}
		mu.Lock()
		ls := lateStart
		out.Attempts = invocations
		mu.Unlock()
		if ls.IsZero() {
			return tr.Placement + ": the late start (hedge / permit hand-over) never happened", out
		}
		if d := tReturn.Sub(ls); d < limit {
			return fmt.Sprintf("%s: ErrExceeded was returned %v after the late attempt's Timeout could have started, before the limit %v (the limit must apply afresh)", tr.Placement, d, limit), out
		}
		want := int32(1)
		if tr.Placement == "hedge(timeout)" {
			want = 2
		}
		deadline := harness.Wait(30 * time.Second)
		for listener.Load() < want && !deadline.Expired() {
			time.Sleep(100 * time.Microsecond)
		}
		time.Sleep(2*limit + 30*time.Millisecond)
		if got := listener.Load(); got != want {
			return fmt.Sprintf("%s: OnTimeoutExceeded called %d times, expected %d", tr.Placement, got, want), out
		}
		out.Arm, out.TimeoutArms = "timeout", int(want)
		return "", out
	}
	mu.Lock()
	out.Attempts = invocations
	mu.Unlock()

	d := tr.dur()
	out.Racing = tr.DurKind == "band" || tr.DurKind == "block"
	blocking := d < 0
	waitingInside := tr.Waiting && (tr.Placement == "timeout(bulkhead)" || tr.Placement == "timeout(limiter)")

	// ---- which arms did the timeout applications take? ----
	expectedListener := 0
	timeoutArm := false
	switch tr.Placement {
	case "retry(timeout)":
		mu.Lock()
		errsSeen := append([]error(nil), attemptErrs...)
		at := append([]time.Time(nil), attemptErrAt...)
		snapshot := append([]*attemptObs(nil), obs...)
		mu.Unlock()
		for i, e := range errsSeen {
			if errors.Is(e, timeout.ErrExceeded) {
				expectedListener++
				// the limit applies afresh to each attempt: its timer started after the previous attempt's function returned
				ref := t0
				if i > 0 && i-1 < len(snapshot) && !snapshot[i-1].end.IsZero() {
					ref = snapshot[i-1].end
				}
				if at[i].Sub(ref) < limit {
					return fmt.Sprintf("attempt %d ended in ErrExceeded %v after the previous attempt finished, before the limit %v", i+1, at[i].Sub(ref), limit), out
				}
			} else if e != errIn {
				return fmt.Sprintf("attempt %d: the retry policy saw %v, neither the inner error nor ErrExceeded", i+1, e), out
			}
		}
		// the final result: last attempt's
		if errors.Is(err, timeout.ErrExceeded) {
			timeoutArm = true
			if len(errsSeen) == 0 || !errors.Is(errsSeen[len(errsSeen)-1], timeout.ErrExceeded) {
				return "returned ErrExceeded but the retry policy's last failure was not ErrExceeded", out
			}
		} else {
			wantErr := error(nil)
			if tr.Err {
				wantErr = errIn
			}
			if !(v == tr.Val && err == wantErr) && !(err == errIn && v == 0) {
				return fmt.Sprintf("returned (%d,%v): neither ErrExceeded nor an outcome of the function", v, err), out
			}
		}
		if blocking && !timeoutArm {
			return "a function that only returns on cancellation did not end in ErrExceeded", out
		}
		out.TimeoutArms = expectedListener
	default:
		outer := err
		if tr.Placement == "fallback(timeout)" {
			// the fallback replaces exactly ErrExceeded
			if v == fbVal && err == nil {
				timeoutArm = true
			} else if errors.Is(err, timeout.ErrExceeded) {
				return "fallback(timeout): ErrExceeded reached the caller although the fallback handles it", out
			}
		} else if errors.Is(outer, timeout.ErrExceeded) {
			timeoutArm = true
			if v != 0 {
				return fmt.Sprintf("ErrExceeded came with the value %d", v), out
			}
		}
		if timeoutArm {
			expectedListener = 1
			out.TimeoutArms = 1
		} else {
			// the inner result must be returned unchanged: compute what the inside produces without the timeout
			var wantV int
			var wantE error
			switch {
			case waitingInside && tr.Placement == "timeout(bulkhead)":
				return fmt.Sprintf("bulkhead wait of 1h ended with (%d,%v) instead of the timeout", v, err), out
			case waitingInside:
				return fmt.Sprintf("rate limiter wait of 1h ended with (%d,%v) instead of the timeout", v, err), out
			case tr.Placement == "timeout(retry)":
				// fails FailFirst times (retries up to 3), then the scripted outcome
				if tr.FailFirst > 3 {
					wantV, wantE = 0, errIn
				} else if tr.Err {
					wantV, wantE = tr.Val, errIn
				} else {
					wantV, wantE = tr.Val, nil
				}
			case tr.Placement == "timeout(fallback)":
				if tr.Err {
					wantV, wantE = fbVal, nil
				} else {
					wantV, wantE = tr.Val, nil
				}
			default:
				wantV, wantE = tr.Val, nil
				if tr.Err {
					wantE = errIn
				}
			}
			if v != wantV || err != wantE {
				return fmt.Sprintf("inner arm: returned (%d,%v), the inside produced (%d,%v)", v, err, wantV, wantE), out
			}
			if blocking {
				return "a function that only returns on cancellation did not end in ErrExceeded", out
			}
		}
		if timeoutArm && elapsed < limit {
			return fmt.Sprintf("ErrExceeded after %v, before the limit %v", elapsed, limit), out
		}
	}
	if timeoutArm {
		out.Arm = "timeout"
	} else {
		out.Arm = "inner"
	}

	// ---- the listener: exactly once per timeout arm, never otherwise (waiting can only find more) ----
	deadline := harness.Wait(30 * time.Second)
	for int(listener.Load()) < expectedListener {
		if deadline.Expired() {
			return fmt.Sprintf("OnTimeoutExceeded called %d times, expected %d (waited 30s)", listener.Load(), expectedListener), out
		}
		time.Sleep(100 * time.Microsecond)
	}
	// ---- cancellation: the last attempt's execution is cancelled iff the (last) application timed out ----
	mu.Lock()
	var last *attemptObs
	if len(obs) > 0 {
		last = obs[len(obs)-1]
	}
	mu.Unlock()
	if last != nil {
		if timeoutArm {
			for !last.exec.IsCanceled() || last.exec.Context().Err() == nil {
				if deadline.Expired() {
					return "timeout arm: the execution seen by the function was never cancelled", out
				}
				time.Sleep(100 * time.Microsecond)
			}
			select {
			case <-last.exec.Canceled():
			default:
				return "timeout arm: IsCanceled is true but the Canceled channel is not closed", out
			}
		}
	}
	grace := 2*limit + 30*time.Millisecond
	time.Sleep(grace)
	if got := int(listener.Load()); got != expectedListener {
		return fmt.Sprintf("OnTimeoutExceeded called %d times, expected %d", got, expectedListener), out
	}
	if last != nil && !timeoutArm && tr.Placement != "retry(timeout)" {
		if last.exec.IsCanceled() {
			return "inner arm: the execution was cancelled although the inner result was returned", out
		}
	}
	if tr.Placement == "retry(timeout)" && !timeoutArm && last != nil && last.exec.IsCanceled() {
		return "inner arm (last attempt): the execution was cancelled although its result was returned", out
	}
	return "", out
}

func genTrial(t *rapid.T) trial {
	tr := trial{
		Placement: rapid.SampledFrom([]string{"alone", "alone", "retry(timeout)", "timeout(retry)", "fallback(timeout)", "timeout(fallback)", "timeout(hedge)", "timeout(bulkhead)", "timeout(limiter)", "hedge(timeout)", "bulkhead(timeout)"}).Draw(t, "placement"),
		LimitUs:   rapid.IntRange(1000, 20000).Draw(t, "limitUs"),
		DurKind:   rapid.SampledFrom([]string{"zero", "half", "band", "band", "band", "double", "block"}).Draw(t, "durKind"),
		Spin:      rapid.IntRange(0, 3).Draw(t, "spin") == 0,
		Val:       rapid.IntRange(0, 3).Draw(t, "v"),
		Err:       rapid.Bool().Draw(t, "err"),
		Async:     rapid.Bool().Draw(t, "async"),
	}
	if rapid.Bool().Draw(t, "shortLimit") {
		tr.LimitUs = rapid.IntRange(1000, 4000).Draw(t, "limitUsShort")
	}
	if tr.DurKind == "band" {
		tr.Factor = rapid.Float64Range(0.8, 1.2).Draw(t, "factor")
	}
	switch tr.Placement {
	case "retry(timeout)":
		tr.FailFirst = rapid.IntRange(0, 3).Draw(t, "failFirst")
	case "timeout(retry)":
		tr.FailFirst = rapid.IntRange(0, 5).Draw(t, "failFirst")
		if tr.DurKind == "band" {
			tr.Factor /= float64(min(tr.FailFirst, 3) + 1) // the attempts together last about the limit
		}
	case "timeout(bulkhead)", "timeout(limiter)":
		tr.Waiting = rapid.Bool().Draw(t, "waiting")
	case "hedge(timeout)", "bulkhead(timeout)":
		tr.DurKind = "block"
	}
	tr.SharedBuilder = rapid.IntRange(0, 2).Draw(t, "sharedBuilder") == 0
	if rapid.IntRange(0, 11).Draw(t, "spentLimit") == 0 {
		// a limit computed from a budget that is already spent (time.Until(deadline)): zero or negative, and exceeded at once
		tr.LimitUs = rapid.SampledFrom([]int{0, -1, -1000}).Draw(t, "limitSpent")
		if tr.DurKind != "block" {
			tr.DurKind = rapid.SampledFrom([]string{"zero", "block"}).Draw(t, "durKindSpent")
		}
	}
	return tr
}

func TestTimeoutTriple(t *testing.T) {
	const test = "TestTimeoutTriple"
	st := harness.NewStats(test)
	defer st.Flush()
	batch := 96
	rapid.Check(t, func(t *rapid.T) {
		trials := make([]trial, batch)
		for i := range trials {
			trials[i] = genTrial(t)
		}
		viol := make([]string, batch)
		outs := make([]outcome, batch)
		var wg sync.WaitGroup
		for i := range trials {
			wg.Add(1)
			go func(i int) {
				defer wg.Done()
				viol[i], outs[i] = runTrial(trials[i])
			}(i)
		}
		wg.Wait()
		for i, v := range viol {
			if v != "" {
				harness.Violation(t, prop, test, sigOf(v), trials[i], "%+v: %s", trials[i], v)
			}
		}
		for i, tr := range trials {
			o := outs[i]
			nt := o.Racing || o.Attempts >= 2
			key := fmt.Sprintf("%s/%s/%d/%.3f/%v/%v/%d/%v/%s", tr.Placement, tr.DurKind, tr.LimitUs/500, tr.Factor, tr.Spin, tr.Err, tr.FailFirst, tr.Waiting, o.Arm)
			st.Case(key, nt, "arm="+o.Arm, "placement="+tr.Placement, "dur="+tr.DurKind)
			if nt {
				st.Sample(key, func() any { return map[string]any{"trial": tr, "arm": o.Arm, "attempts": o.Attempts} })
			}
		}
	})
}

func sigOf(v string) string {
	switch {
	case contains(v, "before the limit"):
		return "early-timeout"
	case contains(v, "OnTimeoutExceeded called"):
		return "listener-count"
	case contains(v, "cancelled"):
		return "cancellation-inconsistent"
	case contains(v, "had not returned"):
		return "cancellation-not-delivered"
	case contains(v, "only returns on cancellation"):
		return "blocking-not-timed-out"
	}
	return "outcome-inconsistent"
}

func contains(s, sub string) bool {
	for i := 0; i+len(sub) <= len(s); i++ {
		if s[i:i+len(sub)] == sub {
			return true
		}
	}
	return false
}

// TestRegress re-runs saved trials (or the one given by VERIF_REPLAY) many times: the schedule is not reproducible, the
// scenario is.
func TestRegress(t *testing.T) {
	st := harness.NewStats("TestRegress")
	defer st.Flush()
	var files []string
	if p := os.Getenv("VERIF_REPLAY"); p != "" {
		files = []string{p}
	} else {
		dir := os.Getenv("VERIF_REGRESS_DIR")
		if dir == "" {
			dir = "../../regress/c07"
		}
		ents, _ := os.ReadDir(dir)
		for _, e := range ents {
			files = append(files, dir+"/"+e.Name())
		}
	}
	reps := 200
	if r, err := strconv.Atoi(os.Getenv("VERIF_REPLAY_REPS")); err == nil && r > 1 {
		reps = r
	}
	for _, f := range files {
		b, err := os.ReadFile(f)
		if err != nil {
			continue
		}
		var tr trial
		_ = json.Unmarshal(b, &tr)
		if tr.Placement == "" {
			var vr struct {
				Scenario trial `json:"scenario"`
			}
			_ = json.Unmarshal(b, &vr)
			tr = vr.Scenario
		}
		if tr.Placement == "" {
			continue
		}
		var wg sync.WaitGroup
		viol := make([]string, reps)
		for i := 0; i < reps; i++ {
			wg.Add(1)
			go func(i int) {
				defer wg.Done()
				viol[i], _ = runTrial(tr)
			}(i)
			if i%64 == 63 {
				wg.Wait()
			}
		}
		wg.Wait()
		for _, v := range viol {
			if v != "" {
				harness.Violation(t, prop, "TestRegress", sigOf(v), tr, "%+v: %s", tr, v)
			}
		}
		st.Case(f, true, "regress")
		st.Sample(f, func() any { return tr })
	}
}
