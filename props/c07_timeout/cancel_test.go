//go:build verif

package c07

import (
	"context"
	"encoding/json"
	"errors"
	"fmt"
	"sync"
	"sync/atomic"
	"testing"
	"time"

	"github.com/failsafe-go/failsafe-go"
	"github.com/failsafe-go/failsafe-go/retrypolicy"
	"github.com/failsafe-go/failsafe-go/timeout"

	"pgregory.net/rapid"

	"verif/harness"
)

// TestTimeoutThenCallerCancel: "ErrExceeded is never produced before the time limit has elapsed ... the limit applies afresh
// to each attempt when a retry policy encloses the Timeout". Retry(Timeout(fn)): the first K attempts block and are ended by
// the Timeout; the next attempt cancels the caller's context as soon as it starts and returns. If that attempt was over
// before its own limit could have elapsed (measured from an instant that precedes its Timeout's start), the Timeout cannot
// have fired for it: the listener count must still be K and the execution must not end in ErrExceeded.
func TestTimeoutThenCallerCancel(t *testing.T) {
	const test = "TestTimeoutThenCallerCancel"
	st := harness.NewStats(test)
	defer st.Flush()
	rapid.Check(t, func(t *rapid.T) {
		type scen struct {
			LimitMs int  `json:"limit_ms"`
			K       int  `json:"k"` // attempts ended by the Timeout before the caller cancels
			Async   bool `json:"async"`
			Delay   bool `json:"retry_delay"` // a short retry delay between attempts
		}
		sc := scen{LimitMs: rapid.SampledFrom([]int{20, 40}).Draw(t, "limitMs"), K: rapid.IntRange(1, 2).Draw(t, "k"), Async: rapid.Bool().Draw(t, "async"), Delay: rapid.Bool().Draw(t, "delay")}
		limit := time.Duration(sc.LimitMs) * time.Millisecond
		var listener atomic.Int32
		to := timeout.Builder[int](limit).OnTimeoutExceeded(func(failsafe.ExecutionDoneEvent[int]) { listener.Add(1) }).Build()
		rb := retrypolicy.Builder[int]().WithMaxRetries(sc.K + 2)
		if sc.Delay {
			rb.WithDelay(200 * time.Microsecond)
		}
		ctx, cancel := context.WithCancel(context.Background())
		defer cancel()
		var mu sync.Mutex
		var prevExit, lastExit time.Time
		n := 0
		fn := func(exec failsafe.Execution[int]) (int, error) {
			mu.Lock()
			n++
			i := n
			mu.Unlock()
			if i <= sc.K {
				select {
				case <-exec.Canceled():
				case <-harness.After(30 * time.Second):
				}
				mu.Lock()
				prevExit = time.Now()
				mu.Unlock()
				return 0, errIn
			}
			cancel()
			select {
			case <-exec.Canceled():
			case <-harness.After(30 * time.Second):
			}
			mu.Lock()
			lastExit = time.Now()
			mu.Unlock()
			return 0, errIn
		}
		ex := failsafe.NewExecutor[int](rb.Build(), to).WithContext(ctx)
		var err error
		if sc.Async {
			_, err = ex.GetWithExecutionAsync(fn).Get()
		} else {
			_, err = ex.GetWithExecution(fn)
		}
		mu.Lock()
		d := lastExit.Sub(prevExit)
		attempts := n
		mu.Unlock()
		decided := attempts == sc.K+1 && !lastExit.IsZero() && d < limit
		if decided {
			if errors.Is(err, timeout.ErrExceeded) {
				harness.Violation(t, prop, test, "exceeded-before-limit", sc, "%+v: the execution ended in ErrExceeded although its last attempt was over %v after the previous attempt had ended, before the limit %v could elapse for it (the caller had cancelled)", sc, d, limit)
			}
			if got := int(listener.Load()); got != sc.K {
				harness.Violation(t, prop, test, "listener-count", sc, "%+v: OnTimeoutExceeded called %d times, %d attempts were ended by the Timeout", sc, got, sc.K)
			}
		}
		b, _ := json.Marshal(sc)
		st.Case(string(b), decided, fmt.Sprintf("decided=%v", decided))
		st.Sample(string(b), func() any { return sc })
	})
}
