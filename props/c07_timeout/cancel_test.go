//go:build verif

package c07

import (
	"context"
	"encoding/json"
	"errors"
	"fmt"
	"sync"
	"sync/atomic"
	"testing"
	"time"

	"github.com/failsafe-go/failsafe-go"
	"github.com/failsafe-go/failsafe-go/fallback"
	"github.com/failsafe-go/failsafe-go/retrypolicy"
	"github.com/failsafe-go/failsafe-go/timeout"

	"pgregory.net/rapid"

	"verif/harness"
)

// TestTimeoutThenCallerCancel: "ErrExceeded is never produced before the time limit has elapsed ... the limit applies afresh
// to each attempt when a retry policy encloses the Timeout". Retry(Timeout(fn)): the first K attempts block and are ended by
// the Timeout; the next attempt cancels the caller's context as soon as it starts and returns. If that attempt was over
// before its own limit could have elapsed (measured from an instant that precedes its Timeout's start), the Timeout cannot
// have fired for it: the listener count must still be K and the execution must not end in ErrExceeded.
func TestTimeoutThenCallerCancel(t *testing.T) {
	const test = "TestTimeoutThenCallerCancel"
	st := harness.NewStats(test)
	defer st.Flush()
	rapid.Check(t, func(t *rapid.T) {
		type scen struct {
			LimitMs int  `json:"limit_ms"`
			K       int  `json:"k"` // attempts ended by the Timeout before the caller cancels
			Async   bool `json:"async"`
			Delay   bool `json:"retry_delay"` // a short retry delay between attempts
		}
		sc := scen{LimitMs: rapid.SampledFrom([]int{20, 40}).Draw(t, "limitMs"), K: rapid.IntRange(1, 2).Draw(t, "k"), Async: rapid.Bool().Draw(t, "async"), Delay: rapid.Bool().Draw(t, "delay")}
		limit := time.Duration(sc.LimitMs) * time.Millisecond
		var listener atomic.Int32
		to := timeout.Builder[int](limit).OnTimeoutExceeded(func(failsafe.ExecutionDoneEvent[int]) { listener.Add(1) }).Build()
		rb := retrypolicy.Builder[int]().WithMaxRetries(sc.K + 2)
		if sc.Delay {
			rb.WithDelay(200 * time.Microsecond)
		}
		ctx, cancel := context.WithCancel(context.Background())
		defer cancel()
		var mu sync.Mutex
		var prevExit, lastExit time.Time
		n := 0
		fn := func(exec failsafe.Execution[int]) (int, error) {
			mu.Lock()
			n++
			i := n
			mu.Unlock()
			if i <= sc.K {
				select {
				case <-exec.Canceled():
				case <-harness.After(30 * time.Second):
				}
				mu.Lock()
				prevExit = time.Now()
				mu.Unlock()
				return 0, errIn
			}
			cancel()
			select {
			case <-exec.Canceled():
			case <-harness.After(30 * time.Second):
			}
			mu.Lock()
			lastExit = time.Now()
			mu.Unlock()
			return 0, errIn
		}
		ex := failsafe.NewExecutor[int](rb.Build(), to).WithContext(ctx)
		var err error
		if sc.Async {
			_, err = ex.GetWithExecutionAsync(fn).Get()
		} else {
			_, err = ex.GetWithExecution(fn)
		}
		mu.Lock()
		d := lastExit.Sub(prevExit)
		attempts := n
		mu.Unlock()
		decided := attempts == sc.K+1 && !lastExit.IsZero() && d < limit
		if decided {
			if errors.Is(err, timeout.ErrExceeded) {
				harness.Violation(t, prop, test, "exceeded-before-limit", sc, "%+v: the execution ended in ErrExceeded although its last attempt was over %v after the previous attempt had ended, before the limit %v could elapse for it (the caller had cancelled)", sc, d, limit)
			}
			if got := int(listener.Load()); got != sc.K {
				harness.Violation(t, prop, test, "listener-count", sc, "%+v: OnTimeoutExceeded called %d times, %d attempts were ended by the Timeout", sc, got, sc.K)
			}
		}
		b, _ := json.Marshal(sc)
		st.Case(string(b), decided, fmt.Sprintf("decided=%v", decided))
		st.Sample(string(b), func() any { return sc })
	})
}

// TestTimeoutWhenAlreadyCancelled: the exclusive-outcome rule also holds when the execution has been cancelled by its
// caller before the limit elapses and the function does not cooperate (it keeps running past the limit, or returns before
// it): either the inner result comes back and the listener stays silent, or ErrExceeded comes back and the listener was
// called exactly once; and never ErrExceeded before the limit.
func TestTimeoutWhenAlreadyCancelled(t *testing.T) {
	const test = "TestTimeoutWhenAlreadyCancelled"
	st := harness.NewStats(test)
	defer st.Flush()
	rapid.Check(t, func(t *rapid.T) {
		type scen struct {
			LimitUs  int    `json:"limit_us"`
			CancelAt string `json:"cancel_at"` // before | quarter | half
			Dur      string `json:"dur"`       // half | double (of the limit; the function ignores the cancellation)
			Async    bool   `json:"async"`
			Outer    string `json:"outer"` // none | fallback (handles nothing)
		}
		sc := scen{LimitUs: rapid.SampledFrom([]int{2000, 5000}).Draw(t, "limitUs"), CancelAt: rapid.SampledFrom([]string{"before", "quarter", "half"}).Draw(t, "cancelAt"),
			Dur: rapid.SampledFrom([]string{"half", "double", "double"}).Draw(t, "dur"), Async: rapid.Bool().Draw(t, "async"), Outer: rapid.SampledFrom([]string{"none", "fallback"}).Draw(t, "outer")}
		limit := time.Duration(sc.LimitUs) * time.Microsecond
		var listener atomic.Int32
		to := timeout.Builder[int](limit).OnTimeoutExceeded(func(failsafe.ExecutionDoneEvent[int]) { listener.Add(1) }).Build()
		pols := []failsafe.Policy[int]{to}
		if sc.Outer == "fallback" {
			pols = []failsafe.Policy[int]{fallback.BuilderWithResult[int](-1).HandleErrors(errors.New("never")).Build(), to}
		}
		ctx, cancel := context.WithCancel(context.Background())
		defer cancel()
		switch sc.CancelAt {
		case "before":
			cancel()
		case "quarter":
			time.AfterFunc(limit/4, cancel)
		default:
			time.AfterFunc(limit/2, cancel)
		}
		d := limit / 2
		if sc.Dur == "double" {
			d = 2 * limit
		}
		fn := func(failsafe.Execution[int]) (int, error) {
			time.Sleep(d) // does not look at the cancellation
			return 7, errIn
		}
		ex := failsafe.NewExecutor[int](pols...).WithContext(ctx)
		t0 := time.Now()
		var v int
		var err error
		if sc.Async {
			v, err = ex.GetWithExecutionAsync(fn).Get()
		} else {
			v, err = ex.GetWithExecution(fn)
		}
		elapsed := time.Since(t0)
		arm := "inner"
		switch {
		case errors.Is(err, timeout.ErrExceeded):
			arm = "timeout"
			if elapsed < limit {
				harness.Violation(t, prop, test, "exceeded-before-limit", sc, "%+v: ErrExceeded after %v, before the limit %v", sc, elapsed, limit)
			}
			w := harness.Wait(20 * time.Second)
			for listener.Load() < 1 && !w.Expired() {
				time.Sleep(100 * time.Microsecond)
			}
			if got := listener.Load(); got != 1 {
				harness.Violation(t, prop, test, "listener-count", sc, "%+v: ErrExceeded was returned but OnTimeoutExceeded was called %d times", sc, got)
			}
		case v == 7 && err == errIn:
			time.Sleep(2*limit + time.Millisecond) // a timer that is still armed would fire by now
			if got := listener.Load(); got != 0 {
				harness.Violation(t, prop, test, "listener-count", sc, "%+v: the inner result was returned but OnTimeoutExceeded was called %d times", sc, got)
			}
		default:
			harness.Violation(t, prop, test, "neither-arm", sc, "%+v: returned (%d,%v): neither the inner result nor ErrExceeded", sc, v, err)
		}
		b, _ := json.Marshal(sc)
		st.Case(string(b), true, "arm="+arm, "cancel-at="+sc.CancelAt)
		st.Sample(string(b), func() any { return sc })
	})
}
