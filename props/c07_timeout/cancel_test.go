//go:build verif

package c07

import (
	"context"
	"encoding/json"
	"errors"
	"fmt"
	"sync"
	"sync/atomic"
	"testing"
	"time"

	"github.com/failsafe-go/failsafe-go"
	"github.com/failsafe-go/failsafe-go/fallback"
	"github.com/failsafe-go/failsafe-go/hedgepolicy"
	"github.com/failsafe-go/failsafe-go/retrypolicy"
	"github.com/failsafe-go/failsafe-go/timeout"

	"pgregory.net/rapid"

	"verif/harness"
)

// TestTimeoutThenCallerCancel: "ErrExceeded is never produced before the time limit has elapsed ... the limit applies afresh
// to each attempt when a retry policy encloses the Timeout". Retry(Timeout(fn)): the first K attempts block and are ended by
// the Timeout; the next attempt cancels the caller's context as soon as it starts and returns. If that attempt was over
// before its own limit could have elapsed (measured from an instant that precedes its Timeout's start), the Timeout cannot
// have fired for it: the listener count must still be K and the execution must not end in ErrExceeded.
func TestTimeoutThenCallerCancel(t *testing.T) {
	const test = "TestTimeoutThenCallerCancel"
	st := harness.NewStats(test)
	defer st.Flush()
	rapid.Check(t, func(t *rapid.T) {
		type scen struct {
			LimitMs int  `json:"limit_ms"`
			K       int  `json:"k"` // attempts ended by the Timeout before the caller cancels
			Async   bool `json:"async"`
			Delay   bool `json:"retry_delay"` // a short retry delay between attempts
		}
		sc := scen{LimitMs: rapid.SampledFrom([]int{20, 40}).Draw(t, "limitMs"), K: rapid.IntRange(1, 2).Draw(t, "k"), Async: rapid.Bool().Draw(t, "async"), Delay: rapid.Bool().Draw(t, "delay")}
		limit := time.Duration(sc.LimitMs) * time.Millisecond
		var listener atomic.Int32
		to := timeout.Builder[int](limit).OnTimeoutExceeded(func(failsafe.ExecutionDoneEvent[int]) { listener.Add(1) }).Build()
		rb := retrypolicy.Builder[int]().WithMaxRetries(sc.K + 2)
		if sc.Delay {
			rb.WithDelay(200 * time.Microsecond)
		}
		ctx, cancel := context.WithCancel(context.Background())
		defer cancel()
		var mu sync.Mutex
		var prevExit, lastExit time.Time
		n := 0
		fn := func(exec failsafe.Execution[int]) (int, error) {
			mu.Lock()
			n++
			i := n
			mu.Unlock()
			if i <= sc.K {
				select {
				case <-exec.Canceled():
				case <-harness.After(30 * time.Second):
				}
				mu.Lock()
				prevExit = time.Now()
				mu.Unlock()
				return 0, errIn
			}
			cancel()
			select {
			case <-exec.Canceled():
			case <-harness.After(30 * time.Second):
			}
			mu.Lock()
			lastExit = time.Now()
			mu.Unlock()
			return 0, errIn
		}
		ex := failsafe.NewExecutor[int](rb.Build(), to).WithContext(ctx)
		var err error
		if sc.Async {
			_, err = ex.GetWithExecutionAsync(fn).Get()
		} else {
			_, err = ex.GetWithExecution(fn)
		}
		mu.Lock()
		d := lastExit.Sub(prevExit)
		attempts := n
		mu.Unlock()
		decided := attempts == sc.K+1 && !lastExit.IsZero() && d < limit
		if decided {
			if errors.Is(err, timeout.ErrExceeded) {
				harness.Violation(t, prop, test, "exceeded-before-limit", sc, "%+v: the execution ended in ErrExceeded although its last attempt was over %v after the previous attempt had ended, before the limit %v could elapse for it (the caller had cancelled)", sc, d, limit)
			}
			if got := int(listener.Load()); got != sc.K {
				harness.Violation(t, prop, test, "listener-count", sc, "%+v: OnTimeoutExceeded called %d times, %d attempts were ended by the Timeout", sc, got, sc.K)
			}
		}
		b, _ := json.Marshal(sc)
		st.Case(string(b), decided, fmt.Sprintf("decided=%v", decided))
		st.Sample(string(b), func() any { return sc })
	})
}

// TestTimeoutWhenAlreadyCancelled: the exclusive-outcome rule also holds when the execution has been cancelled by its
// caller before the limit elapses and the function does not cooperate (it keeps running past the limit, or returns before
// it): either the inner result comes back and the listener stays silent, or ErrExceeded comes back and the listener was
// called exactly once; and never ErrExceeded before the limit.
func TestTimeoutWhenAlreadyCancelled(t *testing.T) {
	const test = "TestTimeoutWhenAlreadyCancelled"
	st := harness.NewStats(test)
	defer st.Flush()
	rapid.Check(t, func(t *rapid.T) {
		type scen struct {
			LimitUs  int    `json:"limit_us"`
			CancelAt string `json:"cancel_at"` // before | quarter | half | deadline-quarter (the context carries a deadline at a quarter of the limit)
			Inner    string `json:"inner"`     // none | retry (a retry policy, handling nothing, inside the Timeout)
			Dur      string `json:"dur"`       // half | double (of the limit; the function ignores the cancellation)
			Async    bool   `json:"async"`
			Outer    string `json:"outer"` // none | fallback (handles nothing)
		}
		sc := scen{LimitUs: rapid.SampledFrom([]int{2000, 5000}).Draw(t, "limitUs"), CancelAt: rapid.SampledFrom([]string{"before", "quarter", "half", "deadline-quarter"}).Draw(t, "cancelAt"),
			Inner: rapid.SampledFrom([]string{"none", "retry"}).Draw(t, "inner"),
			Dur:   rapid.SampledFrom([]string{"half", "double", "double"}).Draw(t, "dur"), Async: rapid.Bool().Draw(t, "async"), Outer: rapid.SampledFrom([]string{"none", "fallback"}).Draw(t, "outer")}
		limit := time.Duration(sc.LimitUs) * time.Microsecond
		var listener atomic.Int32
		to := timeout.Builder[int](limit).OnTimeoutExceeded(func(failsafe.ExecutionDoneEvent[int]) { listener.Add(1) }).Build()
		pols := []failsafe.Policy[int]{to}
		if sc.Outer == "fallback" {
			pols = []failsafe.Policy[int]{fallback.BuilderWithResult[int](-1).HandleErrors(errors.New("never")).Build(), to}
		}
		if sc.Inner == "retry" {
			pols = append(pols, retrypolicy.Builder[int]().HandleErrors(errors.New("never")).Build())
		}
		ctx, cancel := context.WithCancel(context.Background())
		defer cancel()
		switch sc.CancelAt {
		case "before":
			cancel()
		case "quarter":
			time.AfterFunc(limit/4, cancel)
		case "deadline-quarter":
			var c2 context.CancelFunc
			ctx, c2 = context.WithTimeout(ctx, limit/4)
			defer c2()
		default:
			time.AfterFunc(limit/2, cancel)
		}
		d := limit / 2
		if sc.Dur == "double" {
			d = 2 * limit
		}
		fn := func(failsafe.Execution[int]) (int, error) {
			time.Sleep(d) // does not look at the cancellation
			return 7, errIn
		}
		ex := failsafe.NewExecutor[int](pols...).WithContext(ctx)
		t0 := time.Now()
		var v int
		var err error
		returned := make(chan struct{})
		go func() {
			defer close(returned)
			if sc.Async {
				v, err = ex.GetWithExecutionAsync(fn).Get()
			} else {
				v, err = ex.GetWithExecution(fn)
			}
		}()
		select {
		case <-returned:
		case <-harness.After(30 * time.Second):
			harness.Violation(t, prop, test, "never-returns", sc, "%+v: the call had not returned 30s after a limit of %v; the function returns by itself after %v", sc, limit, d)
		}
		elapsed := time.Since(t0)
		arm := "inner"
		switch {
		case errors.Is(err, timeout.ErrExceeded):
			arm = "timeout"
			if elapsed < limit {
				harness.Violation(t, prop, test, "exceeded-before-limit", sc, "%+v: ErrExceeded after %v, before the limit %v", sc, elapsed, limit)
			}
			w := harness.Wait(20 * time.Second)
			for listener.Load() < 1 && !w.Expired() {
				time.Sleep(100 * time.Microsecond)
			}
			if got := listener.Load(); got != 1 {
				harness.Violation(t, prop, test, "listener-count", sc, "%+v: ErrExceeded was returned but OnTimeoutExceeded was called %d times", sc, got)
			}
		case (v == 7 && err == errIn) || (sc.Inner == "retry" && (errors.Is(err, context.Canceled) || errors.Is(err, context.DeadlineExceeded))):
			// (a retry policy inside the Timeout answers a cancelled execution with the context's error: that is the inner
			// result then)
			time.Sleep(2*limit + time.Millisecond) // a timer that is still armed would fire by now
			if got := listener.Load(); got != 0 {
				harness.Violation(t, prop, test, "listener-count", sc, "%+v: the inner result was returned but OnTimeoutExceeded was called %d times", sc, got)
			}
		default:
			harness.Violation(t, prop, test, "neither-arm", sc, "%+v: returned (%d,%v): neither the inner result nor ErrExceeded", sc, v, err)
		}
		b, _ := json.Marshal(sc)
		st.Case(string(b), true, "arm="+arm, "cancel-at="+sc.CancelAt)
		st.Sample(string(b), func() any { return sc })
	})
}

// TestOuterTimeoutStaysSilent: the first arm of the exclusive outcome — "the inner result is returned unchanged, the timeout
// listener is never called and the execution is not cancelled by the Timeout" — also when the inner result happens to be a
// timeout error: an inner Timeout that fired, or a function that returns an error wrapping ErrExceeded. The outer Timeout
// (one hour) did not elapse: its listener stays silent and the inner result passes through.
func TestOuterTimeoutStaysSilent(t *testing.T) {
	const test = "TestOuterTimeoutStaysSilent"
	st := harness.NewStats(test)
	defer st.Flush()
	rapid.Check(t, func(t *rapid.T) {
		type scen struct {
			Inner   string `json:"inner"`   // timeout (an inner Timeout fires) | fn-wrapped (the function returns an error wrapping ErrExceeded) | fn-bare (it returns ErrExceeded itself)
			Between string `json:"between"` // none | retry | fallback (a policy between the two, which handles nothing)
			LimitUs int    `json:"limit_us"`
			Async   bool   `json:"async"`
		}
		sc := scen{Inner: rapid.SampledFrom([]string{"timeout", "fn-wrapped", "fn-bare"}).Draw(t, "inner"), Between: rapid.SampledFrom([]string{"none", "retry", "fallback"}).Draw(t, "between"),
			LimitUs: rapid.SampledFrom([]int{500, 2000}).Draw(t, "limitUs"), Async: rapid.Bool().Draw(t, "async")}
		var outerL, innerL atomic.Int32
		outer := timeout.Builder[int](time.Hour).OnTimeoutExceeded(func(failsafe.ExecutionDoneEvent[int]) { outerL.Add(1) }).Build()
		pols := []failsafe.Policy[int]{outer}
		never := errors.New("never")
		switch sc.Between {
		case "retry":
			pols = append(pols, retrypolicy.Builder[int]().HandleErrors(never).Build())
		case "fallback":
			pols = append(pols, fallback.BuilderWithResult[int](-1).HandleErrors(never).Build())
		}
		var fn func(failsafe.Execution[int]) (int, error)
		switch sc.Inner {
		case "timeout":
			pols = append(pols, timeout.Builder[int](time.Duration(sc.LimitUs)*time.Microsecond).OnTimeoutExceeded(func(failsafe.ExecutionDoneEvent[int]) { innerL.Add(1) }).Build())
			fn = func(e failsafe.Execution[int]) (int, error) {
				select {
				case <-e.Canceled():
				case <-harness.After(30 * time.Second):
				}
				return 0, errIn
			}
		case "fn-wrapped":
			fn = func(failsafe.Execution[int]) (int, error) {
				return 3, fmt.Errorf("downstream: %w", timeout.ErrExceeded)
			}
		default:
			fn = func(failsafe.Execution[int]) (int, error) { return 3, timeout.ErrExceeded }
		}
		ex := failsafe.NewExecutor[int](pols...)
		var err error
		if sc.Async {
			_, err = ex.GetWithExecutionAsync(fn).Get()
		} else {
			_, err = ex.GetWithExecution(fn)
		}
		if !errors.Is(err, timeout.ErrExceeded) {
			harness.Violation(t, prop, test, "inner-result-changed", sc, "%+v: returned %v; the inner result was a timeout error and must pass through unchanged", sc, err)
		}
		time.Sleep(300 * time.Microsecond)
		if got := outerL.Load(); got != 0 {
			harness.Violation(t, prop, test, "listener-count", sc, "%+v: the outer Timeout (1h) did not elapse, but its OnTimeoutExceeded listener was called %d times", sc, got)
		}
		if sc.Inner == "timeout" {
			w := harness.Wait(20 * time.Second)
			for innerL.Load() < 1 && !w.Expired() {
				time.Sleep(100 * time.Microsecond)
			}
			if got := innerL.Load(); got != 1 {
				harness.Violation(t, prop, test, "listener-count", sc, "%+v: the inner Timeout fired once, its listener was called %d times", sc, got)
			}
		}
		b, _ := json.Marshal(sc)
		st.Case(string(b), true, "inner="+sc.Inner)
		st.Sample(string(b), func() any { return sc })
	})
}

// TestHedgedRetryTimeout: Hedge(Retry(Timeout(fn))): the limit applies afresh to each attempt on every branch, and a
// Timeout cancels what it encloses, not the retry policy around it. On both branches the first try blocks and is ended by
// the Timeout; the hedged branch's second try succeeds (only a success ends the hedging). The hedged branch must therefore
// have made a second try, and the execution must succeed.
func TestHedgedRetryTimeout(t *testing.T) {
	const test = "TestHedgedRetryTimeout"
	st := harness.NewStats(test)
	defer st.Flush()
	rapid.Check(t, func(t *rapid.T) {
		type scen struct {
			LimitUs int  `json:"limit_us"`
			Async   bool `json:"async"`
			Between bool `json:"fallback_between"` // a fallback (handling nothing) between retry and timeout
		}
		sc := scen{LimitUs: rapid.SampledFrom([]int{1000, 3000}).Draw(t, "limitUs"), Async: rapid.Bool().Draw(t, "async"), Between: rapid.Bool().Draw(t, "between")}
		limit := time.Duration(sc.LimitUs) * time.Microsecond
		hp := hedgepolicy.BuilderWithDelay[int](100 * time.Microsecond).WithMaxHedges(1).CancelIf(func(_ int, err error) bool { return err == nil }).Build()
		// (the two branches share the retry policy's budget for this execution: it is generous, and the case is only judged
		// if it was not used up, which a machine stall on the hedged branch could otherwise cause)
		const budget = 300
		rp := retrypolicy.Builder[int]().WithMaxRetries(budget).Build()
		pols := []failsafe.Policy[int]{hp, rp}
		if sc.Between {
			pols = append(pols, fallback.BuilderWithResult[int](-1).HandleErrors(errors.New("never")).Build())
		}
		pols = append(pols, timeout.With[int](limit))
		var mu sync.Mutex
		tries := map[bool]int{}    // by branch (IsHedge)
		usedWhenHedgeTimedOut := 0 // attempts started (by both branches) when the hedged branch's first try was ended
		fn := func(e failsafe.Execution[int]) (int, error) {
			mu.Lock()
			tries[e.IsHedge()]++
			n := tries[e.IsHedge()]
			mu.Unlock()
			if e.IsHedge() && n >= 2 {
				return 9, nil
			}
			select {
			case <-e.Canceled():
			case <-harness.After(30 * time.Second):
			}
			if e.IsHedge() && n == 1 {
				mu.Lock()
				usedWhenHedgeTimedOut = tries[true] + tries[false]
				mu.Unlock()
			}
			return 0, errIn
		}
		ex := failsafe.NewExecutor[int](pols...)
		var v int
		var err error
		if sc.Async {
			v, err = ex.GetWithExecutionAsync(fn).Get()
		} else {
			v, err = ex.GetWithExecution(fn)
		}
		mu.Lock()
		hedgeTries, primaryTries := tries[true], tries[false]
		used := usedWhenHedgeTimedOut
		mu.Unlock()
		// (if the hedge never started because the machine stalled past the first limit, the primary alone retries until its
		// budget ends: nothing to judge)
		judged := hedgeTries >= 1 && used > 0 && used <= budget-2 // retries remained when the hedged branch's first try timed out
		if judged {
			if hedgeTries < 2 {
				harness.Violation(t, prop, test, "no-retry-after-timeout", sc, "%+v: the hedged branch's first try was ended by the Timeout and retries remained, yet it made %d tries (primary %d); returned (%d,%v)", sc, hedgeTries, primaryTries, v, err)
			}
			if v != 9 || err != nil {
				harness.Violation(t, prop, test, "no-retry-after-timeout", sc, "%+v: returned (%d,%v); the hedged branch's second try succeeds", sc, v, err)
			}
		}
		b, _ := json.Marshal(sc)
		st.Case(string(b), judged, fmt.Sprintf("judged=%v", judged))
		st.Sample(string(b), func() any { return sc })
	})
}
