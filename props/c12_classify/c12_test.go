//go:build verif

// Package c12 checks property C12: failure classification follows the documented handle-condition rules, for retry
// policies, circuit breakers and fallbacks alike, and abort / cancel conditions match in the same way.
package c12

import (
	"encoding/json"
	"fmt"
	"os"
	"path/filepath"
	"testing"
	"time"

	"github.com/failsafe-go/failsafe-go"
	"github.com/failsafe-go/failsafe-go/circuitbreaker"
	"github.com/failsafe-go/failsafe-go/fallback"
	"github.com/failsafe-go/failsafe-go/hedgepolicy"
	"github.com/failsafe-go/failsafe-go/retrypolicy"
	"pgregory.net/rapid"

	"verif/harness"
	c "verif/harness/compose"
)

const prop = "C12"

type tcase struct {
	Conds []c.Cond `json:"conds"`
	V     int      `json:"v"`
	E     string   `json:"e"`
}

func (tc tcase) String() string { return fmt.Sprintf("conds=%v outcome=(%d,%s)", tc.Conds, tc.V, tc.E) }

func errs(names []string) []error {
	out := make([]error, len(names))
	for i, n := range names {
		out[i] = c.ErrByName[n]
	}
	return out
}

// ---- the three carriers of handle conditions -------------------------------------------------------------------------

const sentinel = 99 // fallback result; no condition matches it

func viaFallback(tc tcase) (failure bool, detail string) {
	b := fallback.BuilderWithResult[int](sentinel)
	for _, cd := range tc.Conds {
		switch cd.K {
		case "errs":
			es := errs(cd.Errs)
			b.HandleErrors(es...)
			c.Scribble(es)
		case "types":
			if cd.Type == "" {
				b.HandleErrorTypes() // a registration call with an empty argument list
			} else {
				b.HandleErrorTypes(c.TypeTarget(cd.Type))
			}
		case "result":
			b.HandleResult(cd.Val)
		case "if":
			b.HandleIf(c.Preds[cd.Pred])
		}
	}
	e := c.ErrByName[tc.E]
	v, err := failsafe.Get(func() (int, error) { return tc.V, e }, b.Build())
	switch {
	case v == sentinel && err == nil:
		return true, ""
	case v == tc.V && err == e:
		return false, ""
	}
	return false, fmt.Sprintf("fallback carrier returned (%d,%v), neither the fallback result nor the outcome", v, err)
}

func viaRetry(tc tcase) (failure bool, detail string) {
	b := retrypolicy.Builder[int]().WithMaxRetries(1).ReturnLastFailure()
	for _, cd := range tc.Conds {
		switch cd.K {
		case "errs":
			es := errs(cd.Errs)
			b.HandleErrors(es...)
			c.Scribble(es)
		case "types":
			if cd.Type == "" {
				b.HandleErrorTypes() // a registration call with an empty argument list
			} else {
				b.HandleErrorTypes(c.TypeTarget(cd.Type))
			}
		case "result":
			b.HandleResult(cd.Val)
		case "if":
			b.HandleIf(c.Preds[cd.Pred])
		}
	}
	e := c.ErrByName[tc.E]
	calls := 0
	v, err := failsafe.Get(func() (int, error) {
		calls++
		if calls == 1 {
			return tc.V, e
		}
		return c.Terminal, nil
	}, b.Build())
	switch {
	case calls == 2 && v == c.Terminal && err == nil:
		return true, ""
	case calls == 1 && v == tc.V && err == e:
		return false, ""
	}
	return false, fmt.Sprintf("retry carrier: %d invocations, returned (%d,%v)", calls, v, err)
}

func breakerWith(tc tcase) circuitbreaker.CircuitBreaker[int] {
	b := circuitbreaker.Builder[int]().WithFailureThreshold(1).WithDelay(time.Hour)
	for _, cd := range tc.Conds {
		switch cd.K {
		case "errs":
			es := errs(cd.Errs)
			b.HandleErrors(es...)
			c.Scribble(es)
		case "types":
			if cd.Type == "" {
				b.HandleErrorTypes() // a registration call with an empty argument list
			} else {
				b.HandleErrorTypes(c.TypeTarget(cd.Type))
			}
		case "result":
			b.HandleResult(cd.Val)
		case "if":
			b.HandleIf(c.Preds[cd.Pred])
		}
	}
	return b.Build()
}

func viaBreakerExec(tc tcase) (failure bool, detail string) {
	cb := breakerWith(tc)
	e := c.ErrByName[tc.E]
	v, err := failsafe.Get(func() (int, error) { return tc.V, e }, cb)
	if v != tc.V || err != e {
		return false, fmt.Sprintf("breaker carrier changed the outcome to (%d,%v)", v, err)
	}
	m := cb.Metrics()
	switch {
	case cb.IsOpen() && m.Failures() == 1 && m.Successes() == 0:
		return true, ""
	case cb.IsClosed() && m.Failures() == 0 && m.Successes() == 1:
		return false, ""
	}
	return false, fmt.Sprintf("breaker carrier: state %v failures=%d successes=%d after one execution", cb.State(), m.Failures(), m.Successes())
}

// viaBreakerRecord uses RecordResult (outcomes without error) or RecordError (which pairs the error with the zero result).
func viaBreakerRecord(tc tcase) (failure bool, v int, applicable bool) {
	cb := breakerWith(tc)
	if tc.E == "" {
		cb.RecordResult(tc.V)
		return cb.IsOpen(), tc.V, true
	}
	cb.RecordError(c.ErrByName[tc.E])
	return cb.IsOpen(), 0, true
}

// ---- abort and cancel conditions ---------------------------------------------------------------------------------------

func viaAbort(tc tcase) (abort bool, detail string) {
	// every non-terminal outcome is a failure for this policy, so only the abort conditions decide
	b := retrypolicy.Builder[int]().WithMaxRetries(1).ReturnLastFailure().HandleIf(c.Preds["true-unless-T"])
	for _, cd := range tc.Conds {
		switch cd.K {
		case "errs":
			es := errs(cd.Errs)
			b.AbortOnErrors(es...)
			c.Scribble(es)
		case "types":
			b.AbortOnErrorTypes(c.TypeTarget(cd.Type))
		case "result":
			b.AbortOnResult(cd.Val)
		case "if":
			b.AbortIf(c.Preds[cd.Pred])
		}
	}
	e := c.ErrByName[tc.E]
	calls := 0
	v, err := failsafe.Get(func() (int, error) {
		calls++
		if calls == 1 {
			return tc.V, e
		}
		return c.Terminal, nil
	}, b.Build())
	switch {
	case calls == 1 && v == tc.V && err == e:
		return true, ""
	case calls == 2 && v == c.Terminal && err == nil:
		return false, ""
	}
	return false, fmt.Sprintf("abort carrier: %d invocations, returned (%d,%v)", calls, v, err)
}

func viaHedgeCancel(tc tcase) (cancel bool, detail string) {
	// Attempt 0 returns the outcome at once. The hedge delay function blocks until attempt 0 has returned, so the hedge
	// (which answers (Terminal, nil), an outcome no condition matches) can only be accepted as the *last* result. If the
	// call returns (Terminal, nil), attempt 0 was certainly not accepted by the cancel conditions. If it returns attempt
	// 0's outcome, that outcome was accepted - or, with vanishing probability, attempt 0's goroutine was overtaken between
	// returning and being counted; the caller repeats the trial to rule that out.
	a0done := make(chan struct{})
	b := hedgepolicy.BuilderWithDelayFunc[int](func(failsafe.ExecutionAttempt[int]) time.Duration {
		<-a0done
		return 0
	}).WithMaxHedges(1)
	for _, cd := range tc.Conds {
		switch cd.K {
		case "errs":
			es := errs(cd.Errs)
			b.CancelOnErrors(es...)
			c.Scribble(es)
		case "types":
			b.CancelOnErrorTypes(c.TypeTarget(cd.Type))
		case "result":
			b.CancelOnResult(cd.Val)
		case "if":
			b.CancelIf(c.Preds[cd.Pred])
		}
	}
	e := c.ErrByName[tc.E]
	v, err := failsafe.GetWithExecution(func(exec failsafe.Execution[int]) (int, error) {
		if !exec.IsHedge() {
			defer close(a0done)
			return tc.V, e
		}
		return c.Terminal, nil
	}, b.Build())
	switch {
	case v == tc.V && err == e:
		return true, ""
	case v == c.Terminal && err == nil:
		return false, ""
	}
	return false, fmt.Sprintf("hedge carrier returned (%d,%v), which no attempt produced", v, err)
}

// ---- the check ---------------------------------------------------------------------------------------------------------

func checkCase(t harness.TB, test string, tc tcase, st *harness.Stats) {
	e := c.ErrByName[tc.E]
	want := c.IsFailure(tc.Conds, tc.V, e)
	fail := func(sig, f string, a ...any) {
		harness.Violation(t, prop, test, sig, tc, "%s: %s", tc, fmt.Sprintf(f, a...))
	}
	for name, carrier := range map[string]func(tcase) (bool, string){"fallback": viaFallback, "retry": viaRetry, "breaker-exec": viaBreakerExec} {
		got, detail := carrier(tc)
		if detail != "" {
			fail("carrier-"+name, "%s", detail)
		}
		if got != want {
			fail("classification-"+name, "%s treats the outcome as failure=%v, the documented rule says %v", name, got, want)
		}
	}
	if got, v, ok := viaBreakerRecord(tc); ok {
		if w := c.IsFailure(tc.Conds, v, e); got != w {
			fail("classification-breaker-record", "RecordResult/RecordError classifies (%d,%s) as failure=%v, the documented rule says %v", v, tc.E, got, w)
		}
	}
	// abort / cancel: any match; an empty cancel list means "cancel on any result"
	match, ambiguous := c.AnyMatch(tc.Conds, tc.V, e)
	if !ambiguous {
		got, detail := viaAbort(tc)
		if detail != "" {
			fail("carrier-abort", "%s", detail)
		}
		if got != match {
			fail("abort-match", "retry abort conditions match=%v, the rule says %v", got, match)
		}
		wantCancel := match || len(tc.Conds) == 0
		got, detail = viaHedgeCancel(tc)
		// Both directions can be disturbed by scheduling (attempt 0 overtaken between returning and being counted; or a
		// matching first result losing the hand-off to the hedge's final result, see DESIGN.md L8): a classification
		// error is deterministic, so only a disagreement that persists over repeated trials is reported.
		for retry := 0; retry < 5 && got != wantCancel && detail == ""; retry++ {
			st.Count("hedge_trial_repeated", 1)
			got, detail = viaHedgeCancel(tc)
		}
		if detail != "" {
			fail("carrier-hedge", "%s", detail)
		}
		if got != wantCancel {
			fail("cancel-match", "hedge cancel conditions accept the first result=%v, the rule says %v (%s)", got, wantCancel, detail)
		}
	} else {
		st.Count("abort_ambiguous_L5", 1)
	}
}

func nontrivial(tc tcase) bool {
	e := c.ErrByName[tc.E]
	kinds := map[string]bool{}
	agree, disagree := false, false
	for _, cd := range tc.Conds {
		kinds[cd.K] = true
		if cd.Match(tc.V, e) {
			agree = true
		} else {
			disagree = true
		}
	}
	nested := tc.E == "wwEA" || tc.E == "jUwEB" || tc.E == "wjTP1" || tc.E == "jTP1" || tc.E == "wtemp" || tc.E == "wTV1"
	return (len(kinds) >= 2 && agree && disagree) || (nested && len(tc.Conds) > 0)
}

func record(st *harness.Stats, tc tcase) {
	b, _ := json.Marshal(tc)
	classes := []string{fmt.Sprintf("registrations=%d", len(tc.Conds))}
	if tc.E != "" {
		classes = append(classes, "outcome-with-error")
	}
	st.Case(string(b), nontrivial(tc), classes...)
	if nontrivial(tc) {
		st.Sample(string(b), func() any { return tc })
	}
}

func alphabet() []c.Cond {
	var a []c.Cond
	for _, e := range []string{"EA", "EB", "EC", "TV1", "TP1", "temp"} {
		a = append(a, c.Cond{K: "errs", Errs: []string{e}})
	}
	for _, tn := range c.TypeNames {
		a = append(a, c.Cond{K: "types", Type: tn})
	}
	for v := 0; v <= 3; v++ {
		a = append(a, c.Cond{K: "result", Val: v})
	}
	for _, p := range c.PredNames {
		a = append(a, c.Cond{K: "if", Pred: p})
	}
	return a
}

// TestExhaustivePrefix enumerates every registration list of length 0..2 over the condition alphabet against every outcome
// of the universe (a shard takes every k-th list).
func TestExhaustivePrefix(t *testing.T) {
	st := harness.NewStats("TestExhaustivePrefix")
	defer st.Flush()
	a := alphabet()
	lists := [][]c.Cond{{}}
	for _, x := range a {
		lists = append(lists, []c.Cond{x})
	}
	for _, x := range a {
		for _, y := range a {
			lists = append(lists, []c.Cond{x, y})
		}
	}
	shard, of := 0, 1
	fmt.Sscanf(os.Getenv("VERIF_SHARD"), "%d", &shard)
	fmt.Sscanf(os.Getenv("VERIF_SHARDS"), "%d", &of)
	if of < 1 {
		of = 1
	}
	for i, l := range lists {
		if i%of != shard%of {
			continue
		}
		for v := 0; v <= 3; v++ {
			for _, e := range c.AllErrs {
				tc := tcase{Conds: l, V: v, E: e}
				checkCase(t, "TestExhaustivePrefix", tc, st)
				record(st, tc)
			}
		}
	}
	st.Count("lists_total", len(lists))
	// registration calls with an empty argument list configure no condition at all: "no conditions are configured and it
	// carries an error" still decides (only as the sole registrations: next to real conditions the statement is silent)
	if shard%of == 0 {
		for _, l := range [][]c.Cond{{{K: "errs"}}, {{K: "errs"}, {K: "errs"}}} {
			for v := 0; v <= 3; v++ {
				for _, e := range c.AllErrs {
					tc := tcase{Conds: l, V: v, E: e}
					want := e != ""
					for name, f := range map[string]func(tcase) (bool, string){"fallback": viaFallback, "retry": viaRetry, "breaker-exec": viaBreakerExec} {
						got, detail := f(tc)
						if detail != "" || got != want {
							harness.Violation(t, prop, "TestExhaustivePrefix", "classification-empty-registration", tc, "HandleErrors() with no arguments, outcome (%d,%s): %s treats it as failure=%v %s; with no condition configured an outcome is a failure exactly when it carries an error", v, e, name, got, detail)
						}
					}
					st.Case(fmt.Sprintf("empty-registration/%d/%d/%s", len(l), v, e), e != "", "empty-registration")
				}
			}
		}
	}
	// ... and next to a real error-handling condition such a call adds no condition and takes none away: the verdict is that
	// of the real condition alone ("it carries an error and no error-handling condition was configured" does not apply,
	// one was). Next to result conditions only, the statement is silent and nothing is asserted.
	for i, x := range a {
		if i%of != shard%of || x.K == "result" {
			continue
		}
		for _, l := range [][]c.Cond{{x, {K: "errs"}}, {x, {K: "types"}}, {{K: "errs"}, x}, {{K: "types"}, x}, {x, {K: "errs"}, {K: "types"}}} {
			for v := 0; v <= 3; v++ {
				for _, e := range c.AllErrs {
					tc := tcase{Conds: l, V: v, E: e}
					want := c.IsFailure([]c.Cond{x}, v, c.ErrByName[e])
					for name, f := range map[string]func(tcase) (bool, string){"fallback": viaFallback, "retry": viaRetry, "breaker-exec": viaBreakerExec} {
						got, detail := f(tc)
						if detail != "" || got != want {
							harness.Violation(t, prop, "TestExhaustivePrefix", "classification-empty-registration", tc, "a registration call without arguments next to %+v, outcome (%d,%s): %s treats it as failure=%v %s; the condition alone makes it failure=%v and the empty call configures nothing", x, v, e, name, got, detail, want)
						}
					}
					st.Case(fmt.Sprintf("empty-registration-next-to/%d/%d/%d/%s", i, len(l), v, e), true, "empty-registration")
				}
			}
		}
	}
}

func genCase(t *rapid.T) tcase {
	return tcase{Conds: c.GenConds(t, "h", true, 5), V: rapid.IntRange(0, 3).Draw(t, "v"), E: rapid.SampledFrom(c.AllErrs).Draw(t, "e")}
}

func TestClassifyRandom(t *testing.T) {
	st := harness.NewStats("TestClassifyRandom")
	defer st.Flush()
	rapid.Check(t, func(t *rapid.T) {
		tc := genCase(t)
		checkCase(t, "TestClassifyRandom", tc, st)
		record(st, tc)
	})
}

func FuzzClassify(f *testing.F) {
	st := harness.NewStats("FuzzClassify")
	f.Fuzz(rapid.MakeFuzz(func(t *rapid.T) {
		tc := genCase(t)
		checkCase(t, "FuzzClassify", tc, st)
	}))
}

func TestRegress(t *testing.T) {
	st := harness.NewStats("TestRegress")
	defer st.Flush()
	dir := os.Getenv("VERIF_REGRESS_DIR")
	if dir == "" {
		dir = "../../regress/c12"
	}
	files, _ := filepath.Glob(filepath.Join(dir, "*.json"))
	if p := os.Getenv("VERIF_REPLAY"); p != "" {
		files = []string{p}
	}
	for _, f := range files {
		b, _ := os.ReadFile(f)
		var head struct {
			Test     string   `json:"test"`
			Scenario deepCase `json:"scenario"`
		}
		if json.Unmarshal(b, &head) == nil && head.Test == "TestClassifyDeepEqual" {
			runDeepCase(t, "TestRegress", head.Scenario, st)
			continue
		}
		var tc tcase
		_ = json.Unmarshal(b, &tc)
		if len(tc.Conds) == 0 && tc.E == "" {
			var vr struct {
				Scenario tcase `json:"scenario"`
			}
			_ = json.Unmarshal(b, &vr)
			tc = vr.Scenario
		}
		checkCase(t, "TestRegress", tc, st)
		record(st, tc)
	}
}
