//go:build verif

package c12

import (
	"encoding/json"
	"errors"
	"fmt"
	"os"
	"testing"
	"time"

	"github.com/failsafe-go/failsafe-go"
	"github.com/failsafe-go/failsafe-go/circuitbreaker"
	"github.com/failsafe-go/failsafe-go/fallback"
	"github.com/failsafe-go/failsafe-go/hedgepolicy"
	"github.com/failsafe-go/failsafe-go/retrypolicy"

	"pgregory.net/rapid"

	"verif/harness"
)

// Error values of types that cannot be compared with == (a slice of field errors, a map of per-shard errors): errors.Is
// guards its own identity comparison and then asks the error's Is method, so such values are legal targets and legal
// outcomes. "HandleErrors by errors.Is" must hold for them as for sentinels -- in particular when the outcome is an
// unwrapped value of the same dynamic type as the target.

type fieldErrs []string

func (f fieldErrs) Error() string { return fmt.Sprint([]string(f)) }
func (f fieldErrs) Is(target error) bool {
	t, ok := target.(fieldErrs)
	if !ok || len(t) != len(f) {
		return false
	}
	for i := range f {
		if f[i] != t[i] {
			return false
		}
	}
	return true
}

type shardErrs map[int]string

func (s shardErrs) Error() string { return fmt.Sprint(map[int]string(s)) }
func (s shardErrs) Is(target error) bool {
	t, ok := target.(shardErrs)
	if !ok || len(t) != len(s) {
		return false
	}
	for k, v := range s {
		if t[k] != v {
			return false
		}
	}
	return true
}

var errPlainU = errors.New("a plain sentinel")

func uncomparableErr(kind string) error {
	switch kind {
	case "fieldsA":
		return fieldErrs{"name", "age"}
	case "fieldsA2":
		return fieldErrs{"name", "age"} // equal contents, another value
	case "fieldsB":
		return fieldErrs{"email"}
	case "shardsA":
		return shardErrs{1: "down", 2: "slow"}
	case "shardsB":
		return shardErrs{3: "down"}
	case "wrapped-fieldsA":
		return fmt.Errorf("validation: %w", fieldErrs{"name", "age"})
	case "joined-shardsA":
		return errors.Join(errPlainU, shardErrs{1: "down", 2: "slow"})
	case "plain":
		return errPlainU
	}
	return nil
}

var uncomparableKinds = []string{"fieldsA", "fieldsA2", "fieldsB", "shardsA", "shardsB", "wrapped-fieldsA", "joined-shardsA", "plain", "nil"}
var uncomparableTargets = []string{"fieldsA", "fieldsB", "shardsA", "shardsB", "plain"}

func TestClassifyUncomparableErrors(t *testing.T) {
	const test = "TestClassifyUncomparableErrors"
	st := harness.NewStats(test)
	defer st.Flush()
	rapid.Check(t, func(t *rapid.T) {
		type scen struct {
			Targets []string `json:"targets"`
			Outcome string   `json:"outcome"`
			Carrier string   `json:"carrier"`
		}
		sc := scen{Outcome: rapid.SampledFrom(uncomparableKinds).Draw(t, "outcome"),
			Carrier: rapid.SampledFrom([]string{"fallback", "retry", "abort", "breaker", "breaker-record", "hedge-cancel"}).Draw(t, "carrier")}
		if only := os.Getenv("VERIF_UNCOMPARABLE_CARRIER"); only != "" {
			sc.Carrier = only // run on behalf of another property's check (C10: fallback)
		}
		for i, n := 0, rapid.IntRange(1, 3).Draw(t, "targets"); i < n; i++ {
			sc.Targets = append(sc.Targets, rapid.SampledFrom(uncomparableTargets).Draw(t, "target"))
		}
		var targets []error
		for _, k := range sc.Targets {
			targets = append(targets, uncomparableErr(k))
		}
		outErr := uncomparableErr(sc.Outcome)
		// the rule, with the standard library's errors.Is
		want := false
		for _, tg := range targets {
			if outErr != nil && errors.Is(outErr, tg) {
				want = true
			}
		}
		calls := 0
		fn := func() (int, error) { calls++; return 1, outErr }
		got := false
		panicked := any(nil)
		func() {
			defer func() { panicked = recover() }()
			switch sc.Carrier {
			case "fallback":
				v, _ := failsafe.Get(fn, fallback.BuilderWithResult[int](sentinel).HandleErrors(targets...).Build())
				got = v == sentinel
			case "retry":
				failsafe.Get(fn, retrypolicy.Builder[int]().WithMaxRetries(1).ReturnLastFailure().HandleErrors(targets...).Build())
				got = calls == 2
			case "abort":
				// every outcome is a failure; matching ones abort
				failsafe.Get(fn, retrypolicy.Builder[int]().WithMaxRetries(1).ReturnLastFailure().HandleIf(func(int, error) bool { return true }).AbortOnErrors(targets...).Build())
				got = calls == 1
			case "breaker":
				cb := circuitbreaker.Builder[int]().WithFailureThreshold(1).WithDelay(time.Hour).HandleErrors(targets...).Build()
				failsafe.Get(fn, cb)
				got = cb.IsOpen()
			case "breaker-record":
				cb := circuitbreaker.Builder[int]().WithFailureThreshold(1).WithDelay(time.Hour).HandleErrors(targets...).Build()
				cb.RecordError(outErr)
				got = cb.IsOpen()
			case "hedge-cancel":
				// a matching result is delivered at once; a non-matching one only after the hedge (started right away) finished too
				hp := hedgepolicy.BuilderWithDelay[int](0).WithMaxHedges(1).CancelOnErrors(targets...).Build()
				ch := make(chan struct{})
				release := make(chan struct{})
				go func() {
					defer close(ch)
					failsafe.GetWithExecution(func(e failsafe.Execution[int]) (int, error) {
						if e.IsHedge() {
							select {
							case <-e.Canceled():
							case <-release:
							}
							return 0, errors.New("loser")
						}
						return 1, outErr
					}, hp)
				}()
				select {
				case <-ch:
					got = true // the first attempt's result ended the execution although the hedge does not return by itself
				case <-harness.After(20 * time.Millisecond):
					if want {
						// it should have: a second, patient look before saying so
						select {
						case <-ch:
							got = true
						case <-harness.After(5 * time.Second):
						}
					}
				}
				close(release)
				<-ch
			}
		}()
		if panicked != nil {
			harness.Violation(t, "C12", test, "classification-panics", sc, "%+v: classifying the outcome panicked: %v", sc, panicked)
		}
		if sc.Carrier == "hedge-cancel" {
			// (the hedge does not return by itself, so an execution that ended was ended by the first attempt's result; one that
			// should have ended gets a second, patient look)
			if want && !got {
				harness.Violation(t, "C12", test, "classification-uncomparable", sc, "%+v: the outcome matches a CancelOnErrors target by errors.Is, yet the hedged execution went on waiting", sc)
			}
			if !want && got {
				harness.Violation(t, "C12", test, "classification-uncomparable", sc, "%+v: no CancelOnErrors target matches the outcome by errors.Is, yet it ended the hedged execution", sc)
			}
		} else if got != want {
			harness.Violation(t, "C12", test, "classification-uncomparable", sc, "%+v: the carrier treated the outcome as matching=%v, errors.Is over the targets says %v", sc, got, want)
		}
		b, _ := json.Marshal(sc)
		st.Case(string(b), sc.Outcome != "plain" && sc.Outcome != "nil", "carrier="+sc.Carrier, fmt.Sprintf("matches=%v", want))
		st.Sample(string(b), func() any { return sc })
	})
}
