//go:build verif

package c12

import (
	"encoding/json"
	"fmt"
	"testing"
	"time"

	"github.com/failsafe-go/failsafe-go"
	"github.com/failsafe-go/failsafe-go/circuitbreaker"
	"github.com/failsafe-go/failsafe-go/fallback"
	"github.com/failsafe-go/failsafe-go/retrypolicy"

	"pgregory.net/rapid"

	"verif/harness"
	c "verif/harness/compose"
)

// TestClassifyHistory: one policy instance per carrier is built once and then classifies a whole sequence of outcomes
// (other tests build a fresh policy per outcome). The verdict on each outcome is the documented rule applied to that
// outcome alone: what the instance has seen before — an error of the same outer type that wrapped something else, say —
// must not matter.
func TestClassifyHistory(t *testing.T) {
	const test = "TestClassifyHistory"
	st := harness.NewStats(test)
	defer st.Flush()
	rapid.Check(t, func(t *rapid.T) {
		type outcome struct {
			V int    `json:"v"`
			E string `json:"e"`
		}
		type scen struct {
			Conds    []c.Cond  `json:"conds"`
			Outcomes []outcome `json:"outcomes"`
		}
		sc := scen{Conds: c.GenConds(t, "h", true, 4)}
		for i, n := 0, rapid.IntRange(2, 8).Draw(t, "n"); i < n; i++ {
			sc.Outcomes = append(sc.Outcomes, outcome{V: rapid.IntRange(0, 3).Draw(t, "v"), E: rapid.SampledFrom(c.AllErrs).Draw(t, "e")})
		}
		fb := fallback.BuilderWithResult[int](sentinel)
		rb := retrypolicy.Builder[int]().WithMaxRetries(1).ReturnLastFailure()
		ab := retrypolicy.Builder[int]().WithMaxRetries(1).ReturnLastFailure().HandleIf(c.Preds["true-unless-T"])
		cbb := circuitbreaker.Builder[int]().WithFailureThreshold(1).WithDelay(time.Hour)
		for _, cd := range sc.Conds {
			switch cd.K {
			case "errs":
				fb.HandleErrors(errs(cd.Errs)...)
				rb.HandleErrors(errs(cd.Errs)...)
				ab.AbortOnErrors(errs(cd.Errs)...)
				cbb.HandleErrors(errs(cd.Errs)...)
			case "types":
				fb.HandleErrorTypes(c.TypeTarget(cd.Type))
				rb.HandleErrorTypes(c.TypeTarget(cd.Type))
				ab.AbortOnErrorTypes(c.TypeTarget(cd.Type))
				cbb.HandleErrorTypes(c.TypeTarget(cd.Type))
			case "result":
				fb.HandleResult(cd.Val)
				rb.HandleResult(cd.Val)
				ab.AbortOnResult(cd.Val)
				cbb.HandleResult(cd.Val)
			case "if":
				fb.HandleIf(c.Preds[cd.Pred])
				rb.HandleIf(c.Preds[cd.Pred])
				ab.AbortIf(c.Preds[cd.Pred])
				cbb.HandleIf(c.Preds[cd.Pred])
			}
		}
		fbp, rp, ap, cb := fb.Build(), rb.Build(), ab.Build(), cbb.Build()
		mixed := map[string]bool{}
		for i, o := range sc.Outcomes {
			e := c.ErrByName[o.E]
			want := c.IsFailure(sc.Conds, o.V, e)
			bad := func(carrier string, got bool) {
				harness.Violation(t, prop, test, "classification-history-"+carrier, sc, "conds=%v outcomes=%v: outcome %d (%d,%s) through the %s instance that classified the earlier outcomes: failure=%v, the documented rule says %v", sc.Conds, sc.Outcomes, i, o.V, o.E, carrier, got, want)
			}
			v, err := failsafe.Get(func() (int, error) { return o.V, e }, fbp)
			if got := v == sentinel && err == nil; got != want {
				bad("fallback", got)
			}
			calls := 0
			failsafe.Get(func() (int, error) {
				calls++
				if calls == 1 {
					return o.V, e
				}
				return c.Terminal, nil
			}, rp)
			if got := calls == 2; got != want {
				bad("retry", got)
			}
			cb.Close()
			failsafe.Get(func() (int, error) { return o.V, e }, cb)
			if got := cb.IsOpen(); got != want {
				bad("breaker", got)
			}
			if wantAbort, amb := c.AnyMatch(sc.Conds, o.V, e); !amb && !(o.V == c.Terminal && e == nil) {
				calls = 0
				failsafe.Get(func() (int, error) {
					calls++
					if calls == 1 {
						return o.V, e
					}
					return c.Terminal, nil
				}, ap)
				if got := calls == 1; got != wantAbort {
					harness.Violation(t, prop, test, "classification-history-abort", sc, "conds=%v outcomes=%v: outcome %d (%d,%s) through the abort instance: abort=%v, the documented rule says %v", sc.Conds, sc.Outcomes, i, o.V, o.E, got, wantAbort)
				}
			}
			mixed[fmt.Sprint(want)] = true
		}
		b, _ := json.Marshal(sc)
		st.Case(string(b), len(mixed) == 2 && len(sc.Conds) > 0, fmt.Sprintf("verdicts-mixed=%v", len(mixed) == 2))
		st.Sample(string(b), func() any { return sc })
	})
}
