//go:build verif

package c12

import (
	"encoding/json"
	"fmt"
	"os"
	"reflect"
	"sync/atomic"
	"testing"
	"time"

	"github.com/failsafe-go/failsafe-go"
	"github.com/failsafe-go/failsafe-go/circuitbreaker"
	"github.com/failsafe-go/failsafe-go/fallback"
	"github.com/failsafe-go/failsafe-go/hedgepolicy"
	"github.com/failsafe-go/failsafe-go/retrypolicy"

	"pgregory.net/rapid"

	"verif/harness"
	c "verif/harness/compose"
)

// "HandleResult by deep equality for outcomes without an error": result types for which deep equality and identity differ.
// Policies over R = any; the handled value and the outcome are built separately (distinct pointers, slices and maps with
// equal contents), or are one and the same instance.

type deepT struct{ N int }
type deepS struct {
	P *int
	L string
}

var deepNames = []string{"int7", "int64-7", "str", "ptrT1", "ptrT2", "slice12", "slice13", "map", "structP1", "structP2", "nilPtr", "nil", "structT1", "array"}

func deepValue(i int) any {
	one, two := 1, 2
	switch deepNames[i] {
	case "int7":
		return 7
	case "int64-7":
		return int64(7)
	case "str":
		return "a"
	case "ptrT1":
		return &deepT{1}
	case "ptrT2":
		return &deepT{2}
	case "slice12":
		return []int{1, 2}
	case "slice13":
		return []int{1, 3}
	case "map":
		return map[string]int{"a": 1}
	case "structP1":
		return deepS{P: &one, L: "x"}
	case "structP2":
		return deepS{P: &two, L: "x"}
	case "nilPtr":
		return (*deepT)(nil)
	case "nil":
		return nil
	case "structT1":
		return deepT{1}
	default:
		return [2]int{1, 2}
	}
}

type deepCase struct {
	Targets []int `json:"targets"` // values registered with HandleResult / AbortOnResult (by index into deepNames)
	Outcome int   `json:"outcome"`
	Same    bool  `json:"same"`     // the outcome is the very instance registered as Targets[0]
	WithErr bool  `json:"with_err"` // the outcome also carries an error
}

func (dc deepCase) String() string {
	var ts []string
	for _, i := range dc.Targets {
		ts = append(ts, deepNames[i])
	}
	return fmt.Sprintf("targets=%v outcome=%s same-instance=%v with-error=%v", ts, deepNames[dc.Outcome], dc.Same, dc.WithErr)
}

func TestClassifyDeepEqual(t *testing.T) {
	const test = "TestClassifyDeepEqual"
	st := harness.NewStats(test)
	defer st.Flush()
	rapid.Check(t, func(t *rapid.T) {
		dc := deepCase{Outcome: rapid.IntRange(0, len(deepNames)-1).Draw(t, "outcome"), WithErr: rapid.IntRange(0, 4).Draw(t, "withErr") == 0}
		for i, n := 0, rapid.IntRange(1, 3).Draw(t, "targets"); i < n; i++ {
			dc.Targets = append(dc.Targets, rapid.IntRange(0, len(deepNames)-1).Draw(t, "target"))
		}
		if rapid.Bool().Draw(t, "aim") {
			dc.Targets[0] = dc.Outcome // equal contents, separately built
		}
		dc.Same = dc.Targets[0] == dc.Outcome && rapid.IntRange(0, 3).Draw(t, "same") == 0
		runDeepCase(t, test, dc, st)
	})
}

func runDeepCase(t harness.TB, test string, dc deepCase, st *harness.Stats) {
	targets := make([]any, len(dc.Targets))
	for i, ti := range dc.Targets {
		targets[i] = deepValue(ti)
	}
	out := deepValue(dc.Outcome)
	if dc.Same {
		out = targets[0]
	}
	var e error
	if dc.WithErr {
		e = c.EA
	}
	// the documented rule
	match := false
	for _, tg := range targets {
		if e == nil && reflect.DeepEqual(out, tg) {
			match = true
		}
	}
	wantFailure := match || e != nil // only result conditions are configured: an error outcome is a failure
	wantAbort := match
	fail := func(sig, f string, a ...any) {
		harness.Violation(t, prop, test, sig, dc, "%s: %s", dc, fmt.Sprintf(f, a...))
	}
	same := func(v any, err error, wv any, we error) bool { return reflect.DeepEqual(v, wv) && err == we }

	// hedge: cancel conditions. The first attempt answers at once with the outcome. Where the rule says it matches, the
	// hedge delay is 1 h: the outcome must be delivered without waiting for it (no timing involved: an unrecognised match
	// would wait the hour). Where it does not match, the delay is 300 us and the hedge must run before the call ends.
	if e == nil {
		delay := 300 * time.Microsecond
		if match {
			delay = time.Hour
		}
		hb := hedgepolicy.BuilderWithDelay[any](delay).WithMaxHedges(1)
		for _, tg := range targets {
			hb.CancelOnResult(tg)
		}
		var started atomic.Int32
		type res struct {
			v   any
			err error
		}
		done := make(chan res, 1)
		go func() {
			v, err := failsafe.Get(func() (any, error) {
				if started.Add(1) == 1 {
					return out, nil
				}
				return "TERMINAL", nil
			}, hb.Build())
			done <- res{v, err}
		}()
		select {
		case r := <-done:
			n := started.Load()
			if match && (n != 1 || !same(r.v, r.err, out, nil)) {
				fail("cancel-deep-hedge", "hedge carrier: %d attempts started, returned (%v,%v); the outcome equals a CancelOnResult value, so it is delivered without a hedge", n, r.v, r.err)
			}
			if !match && n != 2 {
				fail("cancel-deep-hedge", "hedge carrier: %d attempts started, returned (%v,%v); the outcome equals no CancelOnResult value, so the hedge runs", n, r.v, r.err)
			}
		case <-harness.After(10 * time.Second):
			fail("cancel-deep-hedge", "hedge carrier: nothing delivered 10 s after the first attempt answered (hedge delay %v); the documented rule says match=%v", delay, match)
		}
	}
	if os.Getenv("VERIF_DEEP_CARRIER") == "hedge" {
		return // run on behalf of C09: the other carriers are C12's
	}

	// fallback
	fb := fallback.BuilderWithResult[any]("SENTINEL")
	for _, tg := range targets {
		fb.HandleResult(tg)
	}
	v, err := failsafe.Get(func() (any, error) { return out, e }, fb.Build())
	switch {
	case same(v, err, "SENTINEL", nil):
		if !wantFailure {
			fail("classification-deep-fallback", "the fallback was applied, the documented rule says the outcome is not a failure")
		}
	case same(v, err, out, e):
		if wantFailure {
			fail("classification-deep-fallback", "the fallback was not applied, the documented rule says the outcome is a failure")
		}
	default:
		fail("classification-deep-fallback", "fallback carrier returned (%v,%v)", v, err)
	}

	// retry: handle conditions
	rb := retrypolicy.Builder[any]().WithMaxRetries(1).ReturnLastFailure()
	for _, tg := range targets {
		rb.HandleResult(tg)
	}
	calls := 0
	v, err = failsafe.Get(func() (any, error) {
		calls++
		if calls == 1 {
			return out, e
		}
		return "TERMINAL", nil
	}, rb.Build())
	if got := calls == 2; got != wantFailure || (got && !same(v, err, "TERMINAL", nil)) || (!got && !same(v, err, out, e)) {
		fail("classification-deep-retry", "retry carrier: %d invocations, returned (%v,%v); the documented rule says failure=%v", calls, v, err, wantFailure)
	}

	// retry: abort conditions (every outcome but the terminal one is a failure for this policy)
	ab := retrypolicy.Builder[any]().WithMaxRetries(1).ReturnLastFailure().HandleIf(func(r any, err error) bool { return r != "TERMINAL" })
	for _, tg := range targets {
		ab.AbortOnResult(tg)
	}
	calls = 0
	v, err = failsafe.Get(func() (any, error) {
		calls++
		if calls == 1 {
			return out, e
		}
		return "TERMINAL", nil
	}, ab.Build())
	// (whether a result condition aborts on an outcome that also carries an error is left open: DESIGN.md L5)
	if got := calls == 1; e == nil && got != wantAbort {
		fail("classification-deep-abort", "abort carrier: %d invocations, returned (%v,%v); the documented rule says abort=%v", calls, v, err, wantAbort)
	}

	// breaker: through an execution and through RecordResult
	mk := func() circuitbreaker.CircuitBreaker[any] {
		b := circuitbreaker.Builder[any]().WithFailureThreshold(1).WithDelay(time.Hour)
		for _, tg := range targets {
			b.HandleResult(tg)
		}
		return b.Build()
	}
	cb := mk()
	failsafe.Get(func() (any, error) { return out, e }, cb)
	if cb.IsOpen() != wantFailure {
		fail("classification-deep-breaker-exec", "breaker open=%v after one execution; the documented rule says failure=%v", cb.IsOpen(), wantFailure)
	}
	if e == nil {
		cb = mk()
		cb.RecordResult(out)
		if cb.IsOpen() != wantFailure {
			fail("classification-deep-breaker-record", "breaker open=%v after RecordResult; the documented rule says failure=%v", cb.IsOpen(), wantFailure)
		}
	}
	b, _ := json.Marshal(dc)
	kind := reflect.ValueOf(out).Kind().String()
	nt := match && !dc.Same && (kind == "ptr" || kind == "slice" || kind == "map" || kind == "struct")
	st.Case(string(b), nt, "outcome-kind="+kind, fmt.Sprintf("match=%v", match), fmt.Sprintf("same-instance=%v", dc.Same))
	if nt {
		st.Sample(string(b), func() any { return dc.String() })
	}
}
