//go:build verif

package c17

import (
	"encoding/json"
	"errors"
	"fmt"
	"sync"
	"testing"
	"time"

	"github.com/failsafe-go/failsafe-go"
	"github.com/failsafe-go/failsafe-go/bulkhead"
	"github.com/failsafe-go/failsafe-go/cachepolicy"
	"github.com/failsafe-go/failsafe-go/circuitbreaker"
	"github.com/failsafe-go/failsafe-go/fallback"
	"github.com/failsafe-go/failsafe-go/hedgepolicy"
	"github.com/failsafe-go/failsafe-go/ratelimiter"
	"github.com/failsafe-go/failsafe-go/timeout"

	"pgregory.net/rapid"

	"verif/harness"
	"verif/harness/compose"
)

type memCache struct {
	mu sync.Mutex
	m  map[string]int
}

func (c *memCache) Get(k string) (int, bool) {
	c.mu.Lock()
	defer c.mu.Unlock()
	v, ok := c.m[k]
	return v, ok
}
func (c *memCache) Set(k string, v int) { c.mu.Lock(); defer c.mu.Unlock(); c.m[k] = v }

// TestHedgedListenerFlags: "IsFirstAttempt/IsRetry/IsHedge agree with those numbers" at every point where user code can
// observe an execution -- here: in the listeners of a policy that sits inside a hedge policy, optionally behind a further
// execution copy (a Timeout that never fires). The hedge accepts nothing, so all maxHedges+1 attempts run, and each of
// them makes the inner policy report exactly once (a full bulkhead, a refusing rate limiter, a cache miss, a failure
// recorded by a breaker / handled by a fallback). Of the maxHedges+1 events exactly one
// comes from the first attempt (IsHedge false), all others say IsHedge; Hedges never exceeds the hedges started, and
// Attempts == 1 + Retries + Hedges holds for some consistent reading (the counters are separate atomics).
func TestHedgedListenerFlags(t *testing.T) {
	const test = "TestHedgedListenerFlags"
	st := harness.NewStats(test)
	defer st.Flush()
	rapid.Check(t, func(t *rapid.T) {
		type scen struct {
			Inner     string `json:"inner"`
			MaxHedges int    `json:"max_hedges"`
			DelayUs   int    `json:"delay_us"`
			Copy      bool   `json:"timeout_between"`
			Async     bool   `json:"async"`
		}
		sc := scen{Inner: rapid.SampledFrom([]string{"bulkhead-full", "limiter-refusal", "cache-miss", "breaker-failure", "fallback-failure"}).Draw(t, "inner"),
			MaxHedges: rapid.IntRange(1, 3).Draw(t, "maxHedges"), DelayUs: rapid.SampledFrom([]int{0, 50, 300}).Draw(t, "delayUs"),
			Copy: rapid.Bool().Draw(t, "copy"), Async: rapid.Bool().Draw(t, "async")}
		var mu sync.Mutex
		type seen struct {
			where               string
			hedge, first, retry bool
			flagsOK             bool
			a, r, h             int
		}
		var evs []seen
		obs := func(where string) func(failsafe.ExecutionEvent[int]) {
			return func(e failsafe.ExecutionEvent[int]) {
				h1 := e.Hedges()
				a, r := e.Attempts(), e.Retries()
				first, retry := e.IsFirstAttempt(), e.IsRetry()
				a2 := e.Attempts() // (hedges start meanwhile: the flags are derived from the shared counter, read between a and a2)
				h2 := e.Hedges()
				s := seen{where: where, hedge: e.IsHedge(), first: first, retry: retry, a: a, r: r, h: h2}
				s.flagsOK = (first == (a == 1) || first == (a2 == 1)) && (retry == (a > 1) || retry == (a2 > 1))
				mu.Lock()
				if a < 1+r+h1 || a > 1+r+h2+1 {
					s.where += fmt.Sprintf(" [Attempts=%d Retries=%d Hedges in %d..%d]", a, r, h1, h2)
					s.a = -1
				}
				evs = append(evs, s)
				mu.Unlock()
			}
		}
		fnErr := compose.EA
		var inner failsafe.Policy[int]
		var release func()
		switch sc.Inner {
		case "bulkhead-full":
			bh := bulkhead.Builder[int](1).OnFull(obs("OnFull")).Build()
			bh.TryAcquirePermit()
			release = bh.ReleasePermit
			inner = bh
		case "limiter-refusal":
			rl := ratelimiter.SmoothBuilderWithMaxRate[int](time.Hour).OnRateLimitExceeded(obs("OnRateLimitExceeded")).Build()
			rl.TryAcquirePermit()
			inner = rl
		case "cache-miss":
			inner = cachepolicy.Builder[int](&memCache{m: map[string]int{}}).WithKey("k").OnCacheMiss(obs("OnCacheMiss")).Build()
		case "breaker-failure":
			inner = circuitbreaker.Builder[int]().WithFailureThreshold(100).OnFailure(obs("breaker.OnFailure")).Build()
		case "fallback-failure":
			inner = fallback.BuilderWithError[int](compose.EB).OnFailure(obs("fallback.OnFailure")).Build()
		}
		hp := hedgepolicy.BuilderWithDelay[int](time.Duration(sc.DelayUs) * time.Microsecond).WithMaxHedges(sc.MaxHedges).
			CancelIf(func(int, error) bool { return false }).Build()
		pols := []failsafe.Policy[int]{hp}
		if sc.Copy {
			pols = append(pols, timeout.With[int](time.Hour))
		}
		pols = append(pols, inner)
		ex := failsafe.NewExecutor[int](pols...)
		fn := func(failsafe.Execution[int]) (int, error) { return 0, fnErr }
		var err error
		doneCh := make(chan struct{})
		go func() {
			defer close(doneCh)
			if sc.Async {
				_, err = ex.GetWithExecutionAsync(fn).Get()
			} else {
				_, err = ex.GetWithExecution(fn)
			}
		}()
		select {
		case <-doneCh:
		case <-harness.After(30 * time.Second):
			harness.Violation(t, cfg.Prop, test, "hedged-flags-hang", sc, "%+v: the call had not returned after 30s", sc)
			return
		}
		if release != nil {
			release()
		}
		if err == nil || errors.Is(err, failsafe.ErrExecutionCanceled) {
			harness.Violation(t, cfg.Prop, test, "hedged-flags-result", sc, "%+v: returned %v although every attempt ends in a failure the hedge does not accept", sc, err)
		}
		mu.Lock()
		defer mu.Unlock()
		all := sc.MaxHedges + 1
		nonHedge := 0
		for _, s := range evs {
			if !s.hedge {
				nonHedge++
			}
			if s.a == -1 {
				harness.Violation(t, cfg.Prop, test, "hedged-listener-stats", sc, "%+v: %s: the counters do not add up", sc, s.where)
			}
			if s.h > sc.MaxHedges || !s.flagsOK || (s.hedge && s.h < 1) {
				harness.Violation(t, cfg.Prop, test, "hedged-listener-flags", sc, "%+v: %s sees IsHedge=%v IsFirstAttempt=%v IsRetry=%v with Attempts=%d Retries=%d Hedges=%d", sc, s.where, s.hedge, s.first, s.retry, s.a, s.r, s.h)
			}
		}
		if len(evs) != all || nonHedge != 1 {
			harness.Violation(t, cfg.Prop, test, "hedged-listener-flags", sc, "%+v: %d events, %d of them with IsHedge()=false; each of the %d attempts reports once and exactly one of them is the first attempt: %+v", sc, len(evs), nonHedge, all, evs)
		}
		b, _ := json.Marshal(sc)
		st.Case(string(b), true, "inner="+sc.Inner, fmt.Sprintf("copy=%v", sc.Copy))
		st.Sample(string(b), func() any { return sc })
	})
}
