//go:build verif

package c17

import (
	"encoding/json"
	"fmt"
	"sync"
	"testing"
	"time"

	"github.com/failsafe-go/failsafe-go"
	"github.com/failsafe-go/failsafe-go/hedgepolicy"
	"github.com/failsafe-go/failsafe-go/retrypolicy"

	"pgregory.net/rapid"

	"verif/harness"
	"verif/harness/compose"
)

// TestHedgeFlagAcrossRetries: Hedge(Retry(fn)). All maxHedges+1 branches of the hedged execution enter the function; all
// but one of them then stay there until they are cancelled, and the remaining one -- the first attempt or one of the hedges,
// as drawn -- fails k times, is retried by the retry policy inside its branch, and finally succeeds, which the hedge policy
// accepts. Every function entry after the first maxHedges+1, and every retry event, therefore belongs to that one branch:
// IsHedge must say the same thing each time (a hedge stays a hedge when it is retried, the first attempt never becomes one),
// IsFirstAttempt / IsRetry must agree with the counters, and Attempts == 1 + Retries + Hedges once all hedges have started.
func TestHedgeFlagAcrossRetries(t *testing.T) {
	const test = "TestHedgeFlagAcrossRetries"
	st := harness.NewStats(test)
	defer st.Flush()
	rapid.Check(t, func(t *rapid.T) {
		type scen struct {
			MaxHedges int  `json:"max_hedges"`
			Active    int  `json:"active"` // which of the first maxHedges+1 entries (by order of entry) is the branch that keeps going
			Fails     int  `json:"fails"`
			Async     bool `json:"async"`
		}
		sc := scen{MaxHedges: rapid.IntRange(1, 3).Draw(t, "maxHedges"), Fails: rapid.IntRange(1, 4).Draw(t, "fails"), Async: rapid.Bool().Draw(t, "async")}
		sc.Active = rapid.IntRange(0, sc.MaxHedges).Draw(t, "active")
		var mu sync.Mutex
		var problems []string
		note := func(f string, a ...any) { problems = append(problems, fmt.Sprintf(f, a...)) } // mu held
		entered := 0
		all := sc.MaxHedges + 1
		allIn := make(chan struct{})
		activeFlag, activeKnown := false, false
		firstAttempts := 0
		activeCalls := 0
		observe := func(where string, e failsafe.ExecutionAttempt[int]) { // mu held; e belongs to the active branch
			if e.IsHedge() != activeFlag {
				note("%s: IsHedge()=%v, but the branch that is being retried entered the function with IsHedge()=%v (Attempts=%d Retries=%d Hedges=%d)", where, e.IsHedge(), activeFlag, e.Attempts(), e.Retries(), e.Hedges())
			}
			a, r, h := e.Attempts(), e.Retries(), e.Hedges()
			if h != sc.MaxHedges || a != 1+r+h {
				note("%s: Attempts=%d Retries=%d Hedges=%d after all %d hedges were started", where, a, r, h, sc.MaxHedges)
			}
			if e.IsFirstAttempt() != (a == 1) || e.IsRetry() != (a > 1) {
				note("%s: IsFirstAttempt=%v IsRetry=%v with Attempts=%d Retries=%d", where, e.IsFirstAttempt(), e.IsRetry(), a, r)
			}
		}
		fn := func(exec failsafe.Execution[int]) (int, error) {
			mu.Lock()
			idx := entered
			entered++
			if idx < all {
				if !exec.IsHedge() {
					firstAttempts++
				}
				if idx == sc.Active {
					activeFlag, activeKnown = exec.IsHedge(), true
				}
				if entered == all {
					close(allIn)
				}
				mu.Unlock()
				if idx != sc.Active {
					<-exec.Canceled()
					return 0, compose.EB
				}
				select {
				case <-allIn:
				case <-exec.Canceled():
					return 0, compose.EB
				}
				mu.Lock()
				activeCalls++
				mu.Unlock()
				return 0, compose.EA
			}
			// a retry of the active branch
			observe(fmt.Sprintf("function entry %d", idx+1), exec)
			activeCalls++
			n := activeCalls
			mu.Unlock()
			if n > sc.Fails {
				return 7, nil
			}
			return 0, compose.EA
		}
		rp := retrypolicy.Builder[int]().WithMaxRetries(sc.Fails).HandleErrors(compose.EA).
			OnRetryScheduled(func(e failsafe.ExecutionScheduledEvent[int]) {
				mu.Lock()
				if activeKnown {
					observe("OnRetryScheduled", e)
				}
				mu.Unlock()
			}).
			OnRetry(func(e failsafe.ExecutionEvent[int]) {
				mu.Lock()
				if activeKnown {
					observe("OnRetry", e)
				}
				mu.Unlock()
			}).Build()
		hp := hedgepolicy.BuilderWithDelay[int](time.Duration(rapid.SampledFrom([]int{0, 50, 400}).Draw(t, "delayUs")) * time.Microsecond).
			WithMaxHedges(sc.MaxHedges).CancelIf(func(_ int, err error) bool { return err == nil }).Build()
		ex := failsafe.NewExecutor[int](hp, rp)
		var v int
		var err error
		doneCh := make(chan struct{})
		go func() {
			defer close(doneCh)
			if sc.Async {
				v, err = ex.GetWithExecutionAsync(fn).Get()
			} else {
				v, err = ex.GetWithExecution(fn)
			}
		}()
		select {
		case <-doneCh:
		case <-harness.After(30 * time.Second):
			harness.Violation(t, cfg.Prop, test, "hedged-branch-hangs", sc, "%+v: the call had not returned after 30s", sc)
			return
		}
		mu.Lock()
		defer mu.Unlock()
		if v != 7 || err != nil {
			harness.Violation(t, cfg.Prop, test, "hedged-branch-result", sc, "%+v: returned (%d,%v); the retried branch succeeds on its try %d", sc, v, err, sc.Fails+1)
		}
		if firstAttempts != 1 {
			note("%d of the first %d function entries report IsHedge()=false; exactly one of them is the first attempt", firstAttempts, all)
		}
		if len(problems) > 0 {
			harness.Violation(t, cfg.Prop, test, "hedge-flag", sc, "%+v: %s", sc, problems[0])
		}
		b, _ := json.Marshal(sc)
		st.Case(string(b), true, fmt.Sprintf("active-is-hedge=%v", activeFlag))
		st.Sample(string(b), func() any { return sc })
	})
}
