//go:build verif

package c17

import (
	"encoding/json"
	"fmt"
	"sync"
	"testing"
	"time"

	"github.com/failsafe-go/failsafe-go"
	"github.com/failsafe-go/failsafe-go/retrypolicy"
	"github.com/failsafe-go/failsafe-go/timeout"

	"pgregory.net/rapid"

	"verif/harness"
	"verif/harness/compose"
)

// "LastResult and LastError seen by ... a listener ... are those of the most recent completed attempt": an enclosing
// Timeout that fires while the retry policy is busy between two attempts (here: inside its delay function, which waits for
// exactly that) records its own result on the execution. The events the retry policy then delivers for the attempt that has
// just failed (OnRetryScheduled, and whatever else it reports about that attempt) still describe that attempt.
func TestScheduledEventUnderTimeout(t *testing.T) {
	const test = "TestScheduledEventUnderTimeout"
	st := harness.NewStats(test)
	defer st.Flush()
	rapid.Check(t, func(t *rapid.T) {
		type scen struct {
			Vals    []int `json:"vals"`     // attempt i fails with (Vals[i], EA)
			HitAt   int   `json:"hit_at"`   // the delay computed after this attempt (1-based) waits for the Timeout to fire
			Async   bool  `json:"async"`
			LimitUs int   `json:"limit_us"` // the Timeout's limit
		}
		sc := scen{Async: rapid.Bool().Draw(t, "async"), LimitUs: rapid.SampledFrom([]int{200, 1000, 3000}).Draw(t, "limitUs")}
		for i, n := 0, rapid.IntRange(1, 4).Draw(t, "attempts"); i < n; i++ {
			sc.Vals = append(sc.Vals, rapid.IntRange(1, 9).Draw(t, "v"))
		}
		sc.HitAt = rapid.IntRange(1, len(sc.Vals)).Draw(t, "hitAt")
		var mu sync.Mutex
		var problems []string
		calls := 0
		delays := 0
		hung := false
		fn := func(exec failsafe.Execution[int]) (int, error) {
			mu.Lock()
			defer mu.Unlock()
			calls++
			if calls <= len(sc.Vals) {
				return sc.Vals[calls-1], compose.EA
			}
			return 0, nil
		}
		check := func(name string, e failsafe.ExecutionAttempt[int]) {
			mu.Lock()
			defer mu.Unlock()
			k := calls // the attempt that has just completed
			if k < 1 || k > len(sc.Vals) {
				return
			}
			if lv, le := e.LastResult(), e.LastError(); lv != sc.Vals[k-1] || le != compose.EA {
				problems = append(problems, fmt.Sprintf("%s after attempt %d reports last=(%d,%v); that attempt returned (%d,%v)", name, k, lv, le, sc.Vals[k-1], compose.EA))
			}
		}
		rp := retrypolicy.Builder[int]().WithMaxRetries(len(sc.Vals)).
			WithDelayFunc(func(e failsafe.ExecutionAttempt[int]) time.Duration {
				mu.Lock()
				delays++
				hit := delays == sc.HitAt
				mu.Unlock()
				if hit {
					select {
					case <-e.Context().Done(): // the Timeout has fired
					case <-harness.After(30 * time.Second):
						mu.Lock()
						hung = true
						mu.Unlock()
					}
				}
				return 0
			}).
			OnRetryScheduled(func(e failsafe.ExecutionScheduledEvent[int]) { check("OnRetryScheduled", e.ExecutionAttempt) }).
			OnFailure(func(e failsafe.ExecutionEvent[int]) { check("OnFailure", e.ExecutionAttempt) }).
			Build()
		ex := failsafe.NewExecutor[int](timeout.With[int](time.Duration(sc.LimitUs)*time.Microsecond), rp)
		var err error
		if sc.Async {
			_, err = ex.GetWithExecutionAsync(fn).Get()
		} else {
			_, err = ex.GetWithExecution(fn)
		}
		mu.Lock()
		defer mu.Unlock()
		b, _ := json.Marshal(sc)
		if hung {
			harness.Inconclusive(t, "%s: the Timeout had not fired 30 s after its limit of %d us", b, sc.LimitUs)
		}
		if len(problems) > 0 {
			harness.Violation(t, "C17", test, "event-last-result", sc, "%s: %s", b, problems[0])
		}
		// the timeout fired while attempt HitAt's delay was being computed, unless the stall-prone machine let it fire earlier
		st.Case(string(b), delays >= sc.HitAt && err == timeout.ErrExceeded, fmt.Sprintf("fired-in-delay=%v", delays >= sc.HitAt))
		if delays >= sc.HitAt {
			st.Sample(string(b), func() any { return sc })
		}
	})
}
