//go:build verif

// Package c17 checks property C17: execution statistics count attempts, executions, retries and hedges exactly.
package c17

import (
	"strings"
	"testing"

	"pgregory.net/rapid"

	"verif/harness"
	"verif/harness/compose"
)

// C17 claims what user code can read from the execution at every observation point: Attempts/Executions/Retries/Hedges,
// IsFirstAttempt/IsRetry/IsHedge, LastResult/LastError, and the monotonicity of the time accessors.
var cfg = compose.PropCfg{
	Prop: "C17", Test: "TestStats",
	Opts: func(t *rapid.T) compose.GenOpts {
		o := compose.DefaultOpts()
		// rejections before the function is reached are the interesting part: weight the rejecting policies and retries
		o.Kinds = []string{"retry", "retry", "retry", "breaker", "breaker", "bulkhead", "limiter", "limiter", "fallback", "cache", "timeout", "hedge"}
		if harness.Thorough() {
			o.MaxStack, o.MaxPool, o.MaxSteps, o.MaxScript = 6, 6, 8, 8
		}
		return o
	},
	Want: func(cat string) bool { return strings.HasPrefix(cat, "stats/") },
	Nontrivial: func(sc compose.Scenario, sr *compose.ScenarioResult) bool {
		rejected := sr.Actions["breaker-reject"]+sr.Actions["bulkhead-full"]+sr.Actions["limiter-reject"] > 0
		return sr.Actions["retry"] > 0 && rejected
	},
}

func TestStats(t *testing.T) {
	st := harness.NewStats("TestStats")
	defer st.Flush()
	rapid.Check(t, func(t *rapid.T) {
		sc := compose.GenScenario(t, cfg.Opts(t))
		// bias towards the entry points that hand the Execution to the function
		for i := range sc.Steps {
			if sc.Steps[i].Op == "exec" && rapid.Bool().Draw(t, "withExec") {
				sc.Steps[i].Entry |= 1
			}
		}
		sr := compose.Check(t, cfg.Prop, cfg.Test, sc, false, cfg.Want)
		cfg.Record(st, sc, sr)
	})
}

func TestRegress(t *testing.T) {
	st := harness.NewStats("TestRegress")
	defer st.Flush()
	cfg.Regress(t, st, "../../regress/c17")
}
