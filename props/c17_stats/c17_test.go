//go:build verif

// Package c17 checks property C17: execution statistics count attempts, executions, retries and hedges exactly.
package c17

import (
	"strings"
	"testing"

	"pgregory.net/rapid"

	"verif/harness"
	"verif/harness/compose"
)

// C17 claims what user code can read from the execution at every observation point: Attempts/Executions/Retries/Hedges,
// IsFirstAttempt/IsRetry/IsHedge, LastResult/LastError, and the monotonicity of the time accessors.
var cfg = compose.PropCfg{
	Prop: "C17", Test: "TestStats",
	Opts: func(t *rapid.T) compose.GenOpts {
		o := compose.DefaultOpts()
		// rejections before the function is reached are the interesting part: weight the rejecting policies and retries
		o.Kinds = []string{"retry", "retry", "retry", "breaker", "breaker", "bulkhead", "limiter", "limiter", "fallback", "cache", "timeout", "hedge"}
		if harness.Thorough() {
			o.MaxStack, o.MaxPool, o.MaxSteps, o.MaxScript = 6, 6, 8, 8
		}
		return o
	},
	Want: func(cat string) bool { return strings.HasPrefix(cat, "stats/") },
	Nontrivial: func(sc compose.Scenario, sr *compose.ScenarioResult) bool {
		rejected := sr.Actions["breaker-reject"]+sr.Actions["bulkhead-full"]+sr.Actions["limiter-reject"] > 0
		return sr.Actions["retry"] > 0 && rejected
	},
}

func TestStats(t *testing.T) {
	st := harness.NewStats("TestStats")
	defer st.Flush()
	rapid.Check(t, func(t *rapid.T) {
		sc := compose.GenScenario(t, cfg.Opts(t))
		// half of the scenarios get a retry policy outermost that retries rejections too, and start with the rejecting
		// policies already saturated (open breaker, bulkhead permits taken, limiter permits used): attempts that are
		// rejected before reaching the function, followed by further attempts, are this property's interesting part
		if rapid.Bool().Draw(t, "rejectionProfile") && len(sc.Stack) > 0 {
			sc.Pool = append(sc.Pool, compose.Inst{Kind: "retry", MaxRetries: rapid.IntRange(1, 3).Draw(t, "outerRetries")})
			sc.Stack = append([]int{len(sc.Pool) - 1}, sc.Stack...)
			var pre []compose.Step
			for i, in := range sc.Pool {
				switch in.Kind {
				case "bulkhead":
					for k := 0; k < in.Max; k++ {
						pre = append(pre, compose.Step{Op: "bh-take", Target: i})
					}
				case "breaker":
					pre = append(pre, compose.Step{Op: "cb-op", Target: i, CbOp: "open"})
				case "limiter":
					pre = append(pre, compose.Step{Op: "rl-take", Target: i, N: 1})
				}
			}
			sc.Steps = append(pre, sc.Steps...)
		}
		// bias towards the entry points that hand the Execution to the function
		for i := range sc.Steps {
			if sc.Steps[i].Op == "exec" && rapid.Bool().Draw(t, "withExec") {
				sc.Steps[i].Entry |= 1
			}
		}
		sr := compose.Check(t, cfg.Prop, cfg.Test, sc, false, cfg.Want)
		cfg.Record(st, sc, sr)
	})
}

func TestRegress(t *testing.T) {
	st := harness.NewStats("TestRegress")
	defer st.Flush()
	cfg.Regress(t, st, "../../regress/c17")
}
