//go:build verif

// Package c17 checks property C17: execution statistics count attempts, executions, retries and hedges exactly.
package c17

import (
	"encoding/json"
	"fmt"
	"strings"
	"sync"
	"testing"
	"time"

	"github.com/failsafe-go/failsafe-go"
	"github.com/failsafe-go/failsafe-go/hedgepolicy"
	"github.com/failsafe-go/failsafe-go/retrypolicy"
	"github.com/failsafe-go/failsafe-go/timeout"

	"pgregory.net/rapid"

	"verif/harness"
	"verif/harness/compose"
)

// C17 claims what user code can read from the execution at every observation point: Attempts/Executions/Retries/Hedges,
// IsFirstAttempt/IsRetry/IsHedge, LastResult/LastError, and the monotonicity of the time accessors.
var cfg = compose.PropCfg{
	Prop: "C17", Test: "TestStats",
	Opts: func(t *rapid.T) compose.GenOpts {
		o := compose.DefaultOpts()
		// rejections before the function is reached are the interesting part: weight the rejecting policies and retries
		o.Kinds = []string{"retry", "retry", "retry", "breaker", "breaker", "bulkhead", "limiter", "limiter", "fallback", "cache", "timeout", "hedge"}
		if harness.Thorough() {
			o.MaxStack, o.MaxPool, o.MaxSteps, o.MaxScript = 6, 6, 8, 8
		}
		return o
	},
	Want: func(cat string) bool { return strings.HasPrefix(cat, "stats/") },
	Nontrivial: func(sc compose.Scenario, sr *compose.ScenarioResult) bool {
		rejected := sr.Actions["breaker-reject"]+sr.Actions["bulkhead-full"]+sr.Actions["limiter-reject"] > 0
		return sr.Actions["retry"] > 0 && rejected
	},
}

func TestStats(t *testing.T) {
	st := harness.NewStats("TestStats")
	defer st.Flush()
	rapid.Check(t, func(t *rapid.T) {
		sc := compose.GenScenario(t, cfg.Opts(t))
		// half of the scenarios get a retry policy outermost that retries rejections too, and start with the rejecting
		// policies already saturated (open breaker, bulkhead permits taken, limiter permits used): attempts that are
		// rejected before reaching the function, followed by further attempts, are this property's interesting part
		if rapid.Bool().Draw(t, "rejectionProfile") && len(sc.Stack) > 0 {
			sc.Pool = append(sc.Pool, compose.Inst{Kind: "retry", MaxRetries: rapid.IntRange(1, 3).Draw(t, "outerRetries")})
			sc.Stack = append([]int{len(sc.Pool) - 1}, sc.Stack...)
			var pre []compose.Step
			for i, in := range sc.Pool {
				switch in.Kind {
				case "bulkhead":
					for k := 0; k < in.Max; k++ {
						pre = append(pre, compose.Step{Op: "bh-take", Target: i})
					}
				case "breaker":
					pre = append(pre, compose.Step{Op: "cb-op", Target: i, CbOp: "open"})
				case "limiter":
					pre = append(pre, compose.Step{Op: "rl-take", Target: i, N: 1})
				}
			}
			sc.Steps = append(pre, sc.Steps...)
		}
		// bias towards the entry points that hand the Execution to the function
		for i := range sc.Steps {
			if sc.Steps[i].Op == "exec" && rapid.Bool().Draw(t, "withExec") {
				sc.Steps[i].Entry |= 1
			}
		}
		sr := compose.Check(t, cfg.Prop, cfg.Test, sc, false, cfg.Want)
		cfg.Record(st, sc, sr)
	})
}

func TestRegress(t *testing.T) {
	st := harness.NewStats("TestRegress")
	defer st.Flush()
	cfg.Regress(t, st, "../../regress/c17")
}

// TestAttemptViewStable: what an attempt sees as the last result and error is that of the most recent *completed* attempt,
// so it cannot change while the attempt is running - in particular not when a Timeout cancels the attempt. Attempts either
// fail fast or wait for their cancellation; each compares what it saw on entry with what it sees just before returning.
// The invariant holds on every schedule (if a fast attempt happens to be timed out too, entry and exit views still agree).
func TestAttemptViewStable(t *testing.T) {
	const test = "TestAttemptViewStable"
	st := harness.NewStats(test)
	defer st.Flush()
	rapid.Check(t, func(t *rapid.T) {
		type att struct {
			Block bool `json:"block"`
			V     int  `json:"v"`
			Fail  bool `json:"fail"`
		}
		type scen struct {
			Shape    string `json:"shape"` // retry(timeout) | retry(fallback(timeout)) | retry(timeout(hedge))
			Attempts []att  `json:"attempts"`
			Async    bool   `json:"async"`
		}
		sc := scen{Shape: rapid.SampledFrom([]string{"retry(timeout)", "retry(timeout)", "retry(timeout(hedge))"}).Draw(t, "shape"), Async: rapid.Bool().Draw(t, "async")}
		for i, n := 0, rapid.IntRange(2, 5).Draw(t, "attempts"); i < n; i++ {
			sc.Attempts = append(sc.Attempts, att{Block: rapid.Bool().Draw(t, "block"), V: rapid.IntRange(1, 9).Draw(t, "v"), Fail: true})
		}
		type view struct {
			lv int
			le error
		}
		var mu sync.Mutex
		var problems []string
		n := 0
		blocked := 0
		fn := func(exec failsafe.Execution[int]) (int, error) {
			mu.Lock()
			i := n
			n++
			mu.Unlock()
			in := view{exec.LastResult(), exec.LastError()}
			a := att{V: 1}
			if i < len(sc.Attempts) {
				a = sc.Attempts[i]
			} else {
				a.Fail = false
			}
			if a.Block {
				select {
				case <-exec.Canceled():
				case <-harness.After(30 * time.Second):
				}
				mu.Lock()
				blocked++
				mu.Unlock()
			}
			out := view{exec.LastResult(), exec.LastError()}
			// LastError reports the context's error when there is no recorded error and the context is done: only a
			// recorded error must be stable
			if out.lv != in.lv || (in.le != nil && out.le != in.le) {
				mu.Lock()
				problems = append(problems, fmt.Sprintf("attempt %d saw last=(%d,%v) on entry and (%d,%v) before returning", i+1, in.lv, in.le, out.lv, out.le))
				mu.Unlock()
			}
			if a.Fail {
				return a.V, compose.EA
			}
			return a.V, nil
		}
		rp := retrypolicy.Builder[int]().WithMaxRetries(len(sc.Attempts)).Build()
		to := timeout.With[int](2 * time.Millisecond)
		pols := []failsafe.Policy[int]{rp, to}
		if sc.Shape == "retry(timeout(hedge))" {
			pols = append(pols, hedgepolicy.WithDelay[int](time.Hour))
		}
		ex := failsafe.NewExecutor[int](pols...)
		if sc.Async {
			ex.GetWithExecutionAsync(fn).Get()
		} else {
			ex.GetWithExecution(fn)
		}
		mu.Lock()
		defer mu.Unlock()
		if len(problems) > 0 {
			harness.Violation(t, cfg.Prop, test, "attempt-view-changed", sc, "%+v: %s", sc, problems[0])
		}
		b, _ := json.Marshal(sc)
		nt := blocked > 0 && n >= 2
		st.Case(string(b), nt, "shape="+sc.Shape)
		if nt {
			st.Sample(string(b), func() any { return sc })
		}
	})
}
