//go:build verif

// Package c03 checks property C03: the circuit breaker follows its documented three-state machine.
package c03

import (
	"encoding/json"
	"errors"
	"fmt"
	"math"
	"os"
	"path/filepath"
	"strings"
	"testing"
	"time"

	"github.com/failsafe-go/failsafe-go"
	"github.com/failsafe-go/failsafe-go/circuitbreaker"
	"pgregory.net/rapid"

	"verif/harness"
	"verif/harness/cbmodel"
)

const prop = "C03"

var (
	errA = errors.New("EA")
	errB = errors.New("EB")
)

type scenarioCfg struct {
	CB        cbmodel.Config `json:"cb"`
	Conds     int            `json:"conds"`      // 0 none, 1 HandleResult(7)+HandleIf(v>=100), 2 HandleErrors(EA)
	DelayFunc bool           `json:"delay_func"` // v>=100 -> delay v-100, else "no opinion"
	T0        int64          `json:"t0"`
}

type op struct {
	Op         string `json:"op"` // success failure result error acquire open halfopen close exec advance
	V          int    `json:"v,omitempty"`
	E          string `json:"e,omitempty"`
	D          int64  `json:"d,omitempty"`
	AdvKind    string `json:"adv,omitempty"`
	PreAcquire bool   `json:"pre_acquire,omitempty"`
}

func errOf(name string) error {
	switch name {
	case "EA":
		return errA
	case "EB":
		return errB
	case "wEA":
		return fmt.Errorf("wrapped: %w", errA)
	}
	return nil
}

func classify(conds int, v int, err error) (failure bool) {
	switch conds {
	case 0:
		return err != nil
	case 1:
		return (err == nil && v == 7) || v >= 100
	default:
		return errors.Is(err, errA)
	}
}

type realEvent struct {
	old, new circuitbreaker.State
	specific string
	n, f, s  uint
	fr, sr   uint
}

type world struct {
	sc       scenarioCfg
	now      int64
	cb       circuitbreaker.CircuitBreaker[int]
	m        *cbmodel.Model
	events   []realEvent // generic OnStateChanged calls
	specific []realEvent // OnOpen/OnHalfOpen/OnClose calls
	// bookkeeping for evidence
	boundaryHits int
	fresh        bool // the time window was just slid by a record at the current instant
}

func build(sc scenarioCfg) *world {
	w := &world{sc: sc, now: sc.T0}
	c := sc.CB
	b := circuitbreaker.Builder[int]()
	switch c.Kind {
	case 0:
		b.WithFailureThreshold(c.FT)
	case 1:
		b.WithFailureThresholdRatio(c.FT, c.FCap)
	case 2:
		b.WithFailureThresholdPeriod(c.FT, time.Duration(c.Period))
	case 3:
		b.WithFailureRateThreshold(c.FRate, c.FExec, time.Duration(c.Period))
	}
	if c.ST != 0 {
		if c.ST == c.SCap {
			b.WithSuccessThreshold(c.ST)
		} else {
			b.WithSuccessThresholdRatio(c.ST, c.SCap)
		}
	}
	b.WithDelay(time.Duration(c.Delay))
	if sc.DelayFunc {
		b.WithDelayFunc(func(e failsafe.ExecutionAttempt[int]) time.Duration {
			if e.LastResult() >= 100 {
				return time.Duration(e.LastResult() - 100)
			}
			return -1
		})
	}
	switch sc.Conds {
	case 1:
		b.HandleResult(7).HandleIf(func(r int, err error) bool { return r >= 100 })
	case 2:
		b.HandleErrors(errA)
	}
	capture := func(name string, into *[]realEvent) func(circuitbreaker.StateChangedEvent) {
		return func(e circuitbreaker.StateChangedEvent) {
			mt := e.Metrics()
			*into = append(*into, realEvent{old: e.OldState, new: e.NewState, specific: name, n: mt.Executions(), f: mt.Failures(), s: mt.Successes(), fr: mt.FailureRate(), sr: mt.SuccessRate()})
		}
	}
	b.OnOpen(capture("open", &w.specific)).OnHalfOpen(capture("half-open", &w.specific)).OnClose(capture("closed", &w.specific))
	b.OnStateChanged(capture("generic", &w.events))
	circuitbreaker.VerifWithClock[int](b, func() int64 { return w.now })
	w.cb = b.Build()
	// the model's view of the configuration: plain count thresholds have capacity == threshold
	mc := c
	if mc.Kind == 0 {
		mc.FCap = mc.FT
	}
	if mc.Kind == 2 {
		mc.FCap, mc.FExec = mc.FT, mc.FT
	}
	if mc.Kind == 3 {
		mc.FT, mc.FCap = 1, 1
	}
	w.m = cbmodel.New(mc)
	return w
}

func toModelState(s circuitbreaker.State) cbmodel.State {
	switch s {
	case circuitbreaker.ClosedState:
		return cbmodel.Closed
	case circuitbreaker.OpenState:
		return cbmodel.Open
	default:
		return cbmodel.HalfOpen
	}
}

type failFn func(sig, format string, args ...any)

// record feeds one classified result to the real breaker (through do) and to the model, resolving grey-zone decisions.
func (w *world) record(ok bool, delay int64, do func()) {
	before := w.m.State()
	do()
	if w.m.Record(ok, w.now, delay) == cbmodel.GreyZone {
		opened := before == cbmodel.Closed && w.cb.State() == circuitbreaker.OpenState
		w.m.Resolve(opened, w.now, delay)
	}
	w.fresh = true
}

func (w *world) step(o op, fail failFn) {
	c := w.sc.CB
	preAcquire := func() {
		if o.PreAcquire {
			want, checked := w.m.TryAcquire(w.now)
			got := w.cb.TryAcquirePermit()
			if checked && got != want {
				fail("admission", "t=%d TryAcquirePermit=%v, model %v (model state %v)", w.now, got, want, w.m.State())
			}
			if !checked {
				w.m.ObservedAcquire(got)
			}
		}
	}
	switch o.Op {
	case "success":
		preAcquire()
		w.record(true, c.Delay, w.cb.RecordSuccess)
	case "failure":
		preAcquire()
		w.record(false, c.Delay, w.cb.RecordFailure)
	case "result":
		preAcquire()
		w.record(!classify(w.sc.Conds, o.V, nil), c.Delay, func() { w.cb.RecordResult(o.V) })
	case "error":
		preAcquire()
		e := errOf(o.E)
		w.record(!classify(w.sc.Conds, 0, e), c.Delay, func() { w.cb.RecordError(e) })
	case "acquire":
		want, checked := w.m.TryAcquire(w.now)
		got := w.cb.TryAcquirePermit()
		if checked && got != want {
			fail("admission", "t=%d TryAcquirePermit=%v, model %v (model state %v)", w.now, got, want, w.m.State())
		}
		if !checked {
			w.m.ObservedAcquire(got)
		}
	case "open":
		w.cb.Open()
		w.m.Manual(cbmodel.Open, w.now)
	case "halfopen":
		w.cb.HalfOpen()
		w.m.Manual(cbmodel.HalfOpen, w.now)
	case "close":
		w.cb.Close()
		w.m.Manual(cbmodel.Closed, w.now)
	case "advance":
		if o.D > 0 {
			w.now += o.D
			w.fresh = false
		}
		if w.m.State() == cbmodel.Open && w.m.Remaining(w.now) == 0 && w.m.OpenStart()+w.m.OpenDelay() == w.now {
			w.boundaryHits++
		}
		if c.Period != 0 && w.now%(c.Period/10) == 0 {
			w.boundaryHits++
		}
	case "exec":
		e := errOf(o.E)
		want, checked := w.m.TryAcquire(w.now)
		calls := 0
		r, err := failsafe.Get(func() (int, error) { calls++; return o.V, e }, w.cb)
		admitted := calls == 1
		if checked && admitted != want {
			fail("admission", "t=%d execution admitted=%v, model %v (model state %v)", w.now, admitted, want, w.m.State())
		}
		if !checked {
			w.m.ObservedAcquire(admitted)
		}
		if !admitted {
			if calls != 0 || !errors.Is(err, circuitbreaker.ErrOpen) {
				fail("rejected-execution", "t=%d rejected execution: calls=%d err=%v, want ErrOpen", w.now, calls, err)
			}
		} else {
			if r != o.V || err != e {
				fail("execution-result", "t=%d admitted execution returned (%d,%v), function returned (%d,%v)", w.now, r, err, o.V, e)
			}
			failed := classify(w.sc.Conds, o.V, e)
			delay := c.Delay
			if w.sc.DelayFunc && failed && o.V >= 100 {
				delay = int64(o.V - 100)
			}
			before := w.m.State()
			if w.m.Record(!failed, w.now, delay) == cbmodel.GreyZone {
				w.m.Resolve(before == cbmodel.Closed && w.cb.State() == circuitbreaker.OpenState, w.now, delay)
			}
			w.fresh = true
		}
	}
	w.compare(o, fail)
}

func (w *world) compare(o op, fail failFn) {
	m := w.m
	got := toModelState(w.cb.State())
	if got != m.State() {
		fail("state", "t=%d after %s: state=%v, model %v", w.now, o.Op, got, m.State())
	}
	if w.cb.IsOpen() != (got == cbmodel.Open) || w.cb.IsClosed() != (got == cbmodel.Closed) || w.cb.IsHalfOpen() != (got == cbmodel.HalfOpen) {
		fail("state-accessors", "t=%d Is* accessors disagree with State()=%v", w.now, got)
	}
	if rd := int64(w.cb.RemainingDelay()); rd != m.Remaining(w.now) {
		fail("remaining-delay", "t=%d RemainingDelay=%d, model %d", w.now, rd, m.Remaining(w.now))
	}
	if len(w.events) != len(m.Events) {
		fail("events", "t=%d after %s: %d state-change events, model %d (%v vs %v)", w.now, o.Op, len(w.events), len(m.Events), w.events, m.Events)
	}
	if len(w.specific) != len(w.events) {
		fail("events-specific", "%d specific listener calls for %d generic ones", len(w.specific), len(w.events))
	}
	prev := cbmodel.Closed
	for i, e := range w.events {
		me := m.Events[i]
		if toModelState(e.old) != me.Old || toModelState(e.new) != me.New {
			fail("events", "event %d is %v->%v, model %v->%v", i, e.old, e.new, me.Old, me.New)
		}
		if toModelState(e.old) != prev {
			fail("events-path", "event %d starts at %v but the previous state was %v", i, e.old, prev)
		}
		prev = toModelState(e.new)
		if i >= len(w.specific) {
			fail("events-specific", "event %d %v->%v: no specific listener call", i, e.old, e.new)
		}
		if sp := w.specific[i]; sp.specific != e.new.String() || sp.old != e.old || sp.new != e.new || sp.n != e.n || sp.f != e.f {
			fail("events-specific", "event %d %v->%v (n=%d f=%d): specific listener call was %q %v->%v (n=%d f=%d)", i, e.old, e.new, e.n, e.f, sp.specific, sp.old, sp.new, sp.n, sp.f)
		}
		if i == len(w.events)-1 && !me.Tainted {
			if e.n < me.Lo.N || e.n > me.Hi.N || e.f < me.Lo.F || e.f > me.Hi.F || e.s != e.n-e.f {
				fail("event-metrics", "event %d %v->%v metrics n=%d f=%d s=%d, model n in [%d,%d] f in [%d,%d]", i, e.old, e.new, e.n, e.f, e.s, me.Lo.N, me.Hi.N, me.Lo.F, me.Hi.F)
			}
			if e.fr != cbmodel.Rate(e.f, e.n) || e.sr != cbmodel.Rate(e.s, e.n) {
				fail("event-metrics", "event %d rates fr=%d sr=%d inconsistent with n=%d f=%d", i, e.fr, e.sr, e.n, e.f)
			}
		}
	}
	// metrics of the current state
	lo, hi, exact := m.Metrics(w.now)
	_ = exact
	if m.Tainted && m.State() == cbmodel.Open {
		return
	}
	mt := w.cb.Metrics()
	n, f, s := mt.Executions(), mt.Failures(), mt.Successes()
	if n < lo.N || n > hi.N || f < lo.F || f > hi.F || s != n-f {
		fail("metrics", "t=%d state %v metrics n=%d f=%d s=%d, model n in [%d,%d] f in [%d,%d]", w.now, m.State(), n, f, s, lo.N, hi.N, lo.F, hi.F)
	}
	if mt.FailureRate() != cbmodel.Rate(f, n) || mt.SuccessRate() != cbmodel.Rate(s, n) {
		fail("metrics", "t=%d rates fr=%d sr=%d inconsistent with n=%d f=%d", w.now, mt.FailureRate(), mt.SuccessRate(), n, f)
	}
}

// ---------------------------------------------------------------------------------------------------------------------
// generators

func genCfg(t *rapid.T) scenarioCfg {
	var c cbmodel.Config
	c.Kind = rapid.IntRange(0, 3).Draw(t, "kind")
	period := func() int64 {
		if rapid.IntRange(0, 4).Draw(t, "bigPeriod") == 0 {
			return rapid.Int64Range(1, 1_000_000).Draw(t, "p10big") * 10
		}
		return rapid.Int64Range(1, 20).Draw(t, "p10") * 10
	}
	switch c.Kind {
	case 0:
		c.FT = uint(rapid.IntRange(1, 6).Draw(t, "ft"))
	case 1:
		c.FCap = uint(rapid.IntRange(1, 8).Draw(t, "fcap"))
		c.FT = uint(rapid.IntRange(1, int(c.FCap)).Draw(t, "ft"))
	case 2:
		c.FT = uint(rapid.IntRange(1, 5).Draw(t, "ft"))
		c.Period = period()
	case 3:
		c.FRate = uint(rapid.SampledFrom([]int{1, 25, 33, 34, 50, 51, 66, 67, 75, 99, 100, 13, 88}).Draw(t, "frate"))
		c.FExec = uint(rapid.IntRange(1, 8).Draw(t, "fexec"))
		c.Period = period()
	}
	switch rapid.IntRange(0, 2).Draw(t, "succ") {
	case 1:
		c.ST = uint(rapid.IntRange(1, 4).Draw(t, "st"))
		c.SCap = c.ST
	case 2:
		c.SCap = uint(rapid.IntRange(1, 6).Draw(t, "scap"))
		c.ST = uint(rapid.IntRange(1, int(c.SCap)).Draw(t, "st"))
	}
	switch bd := rapid.IntRange(0, 11).Draw(t, "bigDelay"); {
	case bd == 0:
		// "open until closed by hand": delays near the end of the int64 range must not wrap around
		c.Delay = rapid.SampledFrom([]int64{math.MaxInt64, math.MaxInt64 - 1, 1 << 62, math.MaxInt64 / 2}).Draw(t, "delayHuge")
	case bd <= 2:
		c.Delay = rapid.Int64Range(0, int64(time.Hour)).Draw(t, "delayBig")
	default:
		c.Delay = rapid.Int64Range(0, 30).Draw(t, "delay")
	}
	sc := scenarioCfg{CB: c, Conds: rapid.IntRange(0, 2).Draw(t, "conds"), DelayFunc: rapid.Bool().Draw(t, "delayFunc")}
	if rapid.Bool().Draw(t, "t0zero") {
		sc.T0 = 0
	} else {
		sc.T0 = rapid.Int64Range(0, 1_000_000).Draw(t, "t0")
	}
	return sc
}

func genOp(t *rapid.T, w *world) op {
	c := w.sc.CB
	kinds := []string{"success", "failure", "failure", "result", "error", "acquire", "exec", "exec", "advance", "advance", "advance", "manual"}
	k := rapid.SampledFrom(kinds).Draw(t, "op")
	o := op{Op: k}
	switch k {
	case "manual":
		o.Op = rapid.SampledFrom([]string{"open", "halfopen", "close"}).Draw(t, "manual")
	case "result":
		o.V = rapid.SampledFrom([]int{0, 7, 3, 100, 105}).Draw(t, "v")
	case "error":
		o.E = rapid.SampledFrom([]string{"", "EA", "EB", "wEA"}).Draw(t, "e")
	case "exec":
		o.V = rapid.SampledFrom([]int{0, 7, 3, 100, 105, 130}).Draw(t, "v")
		o.E = rapid.SampledFrom([]string{"", "", "EA", "EB", "wEA"}).Draw(t, "e")
		if o.E != "" && o.V == 7 {
			o.V = 3 // HandleResult on an outcome that carries an error is C12's subject, not this check's
		}
	case "advance":
		p := c.Period
		rem := w.m.Remaining(w.now)
		advs := []string{"rem", "rem-1", "rem+1", "1", "rand"}
		if rem > 1<<60 {
			advs = []string{"1", "rand"} // the virtual clock itself must stay far from the end of the range
		}
		if p != 0 {
			advs = append(advs, "slice", "slice-1", "toSlice", "toSlice-1", "0.9p-1", "0.9p", "0.9p+1", "period-1", "period", "period+1", "many")
		}
		o.AdvKind = rapid.SampledFrom(advs).Draw(t, "adv")
		b := p / 10
		switch o.AdvKind {
		case "rem":
			o.D = rem
		case "rem-1":
			o.D = rem - 1
		case "rem+1":
			o.D = rem + 1
		case "1":
			o.D = 1
		case "rand":
			o.D = rapid.Int64Range(0, 400).Draw(t, "d")
		case "slice":
			o.D = b
		case "slice-1":
			o.D = b - 1
		case "toSlice":
			o.D = b - w.now%b
		case "toSlice-1":
			o.D = b - w.now%b - 1
		case "0.9p-1":
			o.D = 9*b - 1
		case "0.9p":
			o.D = 9 * b
		case "0.9p+1":
			o.D = 9*b + 1
		case "period-1":
			o.D = p - 1
		case "period":
			o.D = p
		case "period+1":
			o.D = p + 1
		case "many":
			o.D = p * rapid.Int64Range(2, 30).Draw(t, "periods")
		}
		if o.D < 0 {
			o.D = 0
		}
	}
	if w.m.State() == cbmodel.HalfOpen && (o.Op == "success" || o.Op == "failure" || o.Op == "result" || o.Op == "error") {
		o.PreAcquire = rapid.IntRange(0, 4).Draw(t, "preAcquire") != 0
	}
	return o
}

func transitionString(evs []cbmodel.Event) string {
	var sb strings.Builder
	for _, e := range evs {
		sb.WriteString(fmt.Sprintf("%c%c", e.Old.String()[0], e.New.String()[0]))
	}
	return sb.String()
}

func property(test string, st *harness.Stats) func(*rapid.T) {
	return func(t *rapid.T) {
		sc := genCfg(t)
		w := build(sc)
		maxSteps := 60
		if harness.Thorough() {
			maxSteps = 120
		}
		steps := rapid.IntRange(1, maxSteps).Draw(t, "steps")
		var ops []op
		fail := func(sig, format string, args ...any) {
			harness.Violation(t, prop, test, sig, map[string]any{"cfg": sc, "ops": ops}, "%s conds=%d delayFunc=%v t0=%d: %s", sc.CB, sc.Conds, sc.DelayFunc, sc.T0, fmt.Sprintf(format, args...))
		}
		for i := 0; i < steps; i++ {
			o := genOp(t, w)
			ops = append(ops, o)
			w.step(o, fail)
		}
		m := w.m
		nt := len(m.Events) >= 2 && m.ThresholdTrans >= 1
		ts := transitionString(m.Events)
		key := fmt.Sprintf("%d/%v/%s/%v/%d", sc.CB.Kind, sc.CB.ST != 0, ts, w.boundaryHits > 0, sc.Conds)
		classes := []string{fmt.Sprintf("kind=%d", sc.CB.Kind)}
		if w.boundaryHits > 0 {
			classes = append(classes, "boundary-instant-hit")
		}
		if m.GreyDecisions > 0 {
			classes = append(classes, "grey-zone-decision")
		}
		if m.ThresholdTrans > 0 {
			classes = append(classes, "threshold-transition")
		}
		st.Case(key, nt, classes...)
		st.Count("grey_zone_decisions", m.GreyDecisions)
		st.Count("timed_decisions", m.ExactRuleTotal)
		st.Count("exact_rule_agreements", m.ExactRuleAgree)
		if nt {
			st.Sample(key, func() any {
				return map[string]any{"cfg": sc.CB.String(), "conds": sc.Conds, "transitions": ts, "ops": ops}
			})
		}
	}
}

func TestBreakerMachine(t *testing.T) {
	st := harness.NewStats("TestBreakerMachine")
	defer st.Flush()
	rapid.Check(t, property("TestBreakerMachine", st))
}

func FuzzBreakerMachine(f *testing.F) {
	st := harness.NewStats("FuzzBreakerMachine")
	f.Fuzz(rapid.MakeFuzz(property("FuzzBreakerMachine", st)))
}

// ---------------------------------------------------------------------------------------------------------------------
// regression tier

type regressCase struct {
	Name string      `json:"name"`
	Cfg  scenarioCfg `json:"cfg"`
	Ops  []op        `json:"ops"`
}

func TestRegress(t *testing.T) {
	dir := os.Getenv("VERIF_REGRESS_DIR")
	if dir == "" {
		dir = "../../regress/c03"
	}
	files, _ := filepath.Glob(filepath.Join(dir, "*.json"))
	if p := os.Getenv("VERIF_REPLAY"); p != "" {
		files = []string{p}
	}
	st := harness.NewStats("TestRegress")
	defer st.Flush()
	for _, f := range files {
		b, err := os.ReadFile(f)
		if err != nil {
			t.Fatal(err)
		}
		var rc regressCase
		_ = json.Unmarshal(b, &rc)
		if len(rc.Ops) == 0 {
			var vr struct {
				Scenario regressCase `json:"scenario"`
			}
			_ = json.Unmarshal(b, &vr)
			rc = vr.Scenario
		}
		if len(rc.Ops) == 0 {
			continue
		}
		w := build(rc.Cfg)
		for i, o := range rc.Ops {
			w.step(o, func(sig, format string, args ...any) {
				harness.Violation(t, prop, "TestRegress", sig, map[string]any{"cfg": rc.Cfg, "ops": rc.Ops[:i+1]}, "%s: %s", filepath.Base(f), fmt.Sprintf(format, args...))
			})
		}
		st.Case(filepath.Base(f), true, "regress")
		st.Sample(filepath.Base(f), func() any { return map[string]any{"file": filepath.Base(f), "ops": rc.Ops} })
	}
}
