//go:build verif

// Package c10 checks property C10: a fallback replaces exactly the failures it handles, once.
package c10

import (
	"testing"

	"pgregory.net/rapid"

	"verif/harness"
	"verif/harness/compose"
)

// The generator puts a fallback outermost around an inner composition that can produce every kind of outcome (plain
// values, handled and unhandled errors, ExceededError, ErrOpen, ErrFull, rate-limit and timeout errors), with the rich
// error universe; nested fallbacks arise from the pool. Claimed: the outcome, and everything observed at fallbacks.
var cfg = compose.PropCfg{
	Prop: "C10", Test: "TestFallback",
	Opts: func(t *rapid.T) compose.GenOpts {
		o := compose.DefaultOpts()
		o.Outermost = "fallback"
		o.MinStack = 1
		o.RichErrors = true
		o.Kinds = []string{"fallback", "retry", "retry", "breaker", "bulkhead", "limiter", "timeout", "hedge", "cache"}
		if harness.Thorough() {
			o.MaxStack, o.MaxPool, o.MaxSteps, o.MaxScript = 6, 6, 8, 8
		}
		return o
	},
	Want: func(cat string) bool {
		return cat == "outcome" || cat == "events/fallback" || cat == "stats/fallback" || cat == "events/executor" || cat == "liveness"
	},
	Nontrivial: func(sc compose.Scenario, sr *compose.ScenarioResult) bool {
		lib := sr.Actions["retry-exceeded"]+sr.Actions["breaker-reject"]+sr.Actions["bulkhead-full"]+sr.Actions["limiter-reject"]+sr.Actions["timeout-fired"] > 0
		valueCond := false
		for _, p := range sc.Stack {
			if in := sc.Pool[p]; in.Kind == "fallback" {
				for _, c := range in.Conds {
					if c.K == "result" || c.K == "if" {
						valueCond = true
					}
				}
			}
		}
		return sr.Actions["fallback"] > 0 && (lib || valueCond)
	},
}

func TestFallback(t *testing.T) {
	st := harness.NewStats("TestFallback")
	defer st.Flush()
	rapid.Check(t, cfg.Run(st))
}

func TestRegress(t *testing.T) {
	st := harness.NewStats("TestRegress")
	defer st.Flush()
	cfg.Regress(t, st, "../../regress/c10")
}
