//go:build verif

package c10

import (
	"context"
	"encoding/json"
	"fmt"
	"testing"
	"time"

	"github.com/failsafe-go/failsafe-go"
	"github.com/failsafe-go/failsafe-go/fallback"
	"github.com/failsafe-go/failsafe-go/retrypolicy"
	"github.com/failsafe-go/failsafe-go/timeout"

	"pgregory.net/rapid"

	"verif/harness"
	"verif/harness/compose"
)

// TestFallbackViewStable: "[the fallback] sees the failed result and error as the execution's last result" — also while a
// cancellation lands during the fallback function. The fallback function reads LastResult/LastError on entry, waits until
// its execution is cancelled (by an enclosing Timeout, by ExecutionResult.Cancel, or by the caller's context) and reads them
// again: both readings must be the failure it is handling. Cancellation sources that carry their own result (Timeout,
// ExecutionResult.Cancel) are the interesting ones, because the library records that result on the cancelled execution.
func TestFallbackViewStable(t *testing.T) {
	const test = "TestFallbackViewStable"
	st := harness.NewStats(test)
	defer st.Flush()
	rapid.Check(t, func(t *rapid.T) {
		type scen struct {
			Source string `json:"source"` // timeout | result-cancel | ctx-cancel | none
			Inner  string `json:"inner"`  // fn | retry(fn): what the fallback encloses
			V      int    `json:"v"`      // the failing attempt's result
			Async  bool   `json:"async"`
			FbKind string `json:"fb_kind"` // func | func-handle-result
		}
		sc := scen{Source: rapid.SampledFrom([]string{"timeout", "result-cancel", "ctx-cancel", "none"}).Draw(t, "source"),
			Inner: rapid.SampledFrom([]string{"fn", "retry(fn)"}).Draw(t, "inner"), V: rapid.IntRange(1, 9).Draw(t, "v"),
			Async: rapid.Bool().Draw(t, "async"), FbKind: rapid.SampledFrom([]string{"func", "func-handle-result"}).Draw(t, "fbKind")}
		if sc.Source == "result-cancel" {
			sc.Async = true
		}
		type view struct {
			lv int
			le error
		}
		var in, out view
		var sawCancel, entered bool
		fbEntered := make(chan struct{})
		fb := fallback.BuilderWithFunc(func(exec failsafe.Execution[int]) (int, error) {
			in = view{exec.LastResult(), exec.LastError()}
			entered = true
			close(fbEntered)
			if sc.Source != "none" {
				select {
				case <-exec.Canceled():
					sawCancel = true
				case <-harness.After(20 * time.Second):
				}
			}
			out = view{exec.LastResult(), exec.LastError()}
			return 42, nil
		})
		var wantErr error = compose.EA
		if sc.FbKind == "func-handle-result" {
			fb.HandleResult(sc.V)
			wantErr = nil
		}
		pols := []failsafe.Policy[int]{}
		if sc.Source == "timeout" {
			pols = append(pols, timeout.With[int](3*time.Millisecond))
		}
		pols = append(pols, fb.Build())
		wantView := view{sc.V, wantErr}
		if sc.Inner == "retry(fn)" {
			pols = append(pols, retrypolicy.Builder[int]().WithMaxRetries(1).ReturnLastFailure().Build())
		}
		fn := func(failsafe.Execution[int]) (int, error) { return sc.V, wantErr }
		ctx, cancel := context.WithCancel(context.Background())
		defer cancel()
		ex := failsafe.NewExecutor[int](pols...).WithContext(ctx)
		done := make(chan struct{})
		var er failsafe.ExecutionResult[int]
		if sc.Async {
			er = ex.GetWithExecutionAsync(fn)
			go func() { er.Get(); close(done) }()
		} else {
			go func() { ex.GetWithExecution(fn); close(done) }()
		}
		select {
		case <-fbEntered:
		case <-done:
		case <-harness.After(20 * time.Second):
			harness.Inconclusive(t, "%+v: neither the fallback nor the end of the execution after 20s", sc)
		}
		switch sc.Source {
		case "result-cancel":
			er.Cancel()
		case "ctx-cancel":
			cancel()
		}
		select {
		case <-done:
		case <-harness.After(30 * time.Second):
			harness.Violation(t, cfg.Prop, test, "fallback-view-hangs", sc, "%+v: the execution had not ended after 30s", sc)
		}
		if !entered {
			if sc.Source == "timeout" {
				// the machine stalled for longer than the limit before the fallback was reached: the execution was already
				// cancelled, so the fallback is rightly skipped; nothing to observe
				b, _ := json.Marshal(sc)
				st.Case(string(b), false, "source="+sc.Source, "saw-cancel=false")
				return
			}
			harness.Violation(t, cfg.Prop, test, "fallback-not-applied", sc, "%+v: the fallback function was not invoked for a failure it handles", sc)
		}
		// LastError reports the context's error when no error is recorded and the context is done: only a recorded error,
		// and the result, must be stable (same rule as C17's TestAttemptViewStable)
		if in != wantView {
			harness.Violation(t, cfg.Prop, test, "fallback-view-wrong", sc, "%+v: the fallback function saw last=(%d,%v) on entry, the failure it handles is (%d,%v)", sc, in.lv, in.le, wantView.lv, wantView.le)
		}
		if out.lv != in.lv || (in.le != nil && out.le != in.le) {
			harness.Violation(t, cfg.Prop, test, "fallback-view-changed", sc, "%+v: the fallback function saw last=(%d,%v) on entry and (%d,%v) after its execution was cancelled", sc, in.lv, in.le, out.lv, out.le)
		}
		b, _ := json.Marshal(sc)
		st.Case(string(b), sawCancel, "source="+sc.Source, fmt.Sprintf("saw-cancel=%v", sawCancel))
		st.Sample(string(b), func() any { return sc })
	})
}
