//go:build verif

package c06

import (
	"encoding/json"
	"fmt"
	"runtime"
	"sync"
	"sync/atomic"
	"testing"
	"time"

	"github.com/failsafe-go/failsafe-go"
	"github.com/failsafe-go/failsafe-go/bulkhead"

	"pgregory.net/rapid"

	"verif/harness"
)

// TestBulkheadStampede: admissions that hit the limit at the same instant. 4..8 persistent workers are released together
// by a spin barrier, round after round, and each tries to get in (standalone TryAcquirePermit, or an execution with a
// bulkhead that does not wait); whoever is admitted counts itself in, checks the count against the limit, counts itself out
// and gives the permit back. At no instant may more than maxConcurrency be in; afterwards exactly maxConcurrency permits
// are available.
func TestBulkheadStampede(t *testing.T) {
	const test = "TestBulkheadStampede"
	st := harness.NewStats(test)
	defer st.Flush()
	rapid.Check(t, func(t *rapid.T) {
		type scen struct {
			Max     int    `json:"max"`
			Workers int    `json:"workers"`
			Rounds  int    `json:"rounds"`
			Via     string `json:"via"` // standalone | exec | mixed
		}
		sc := scen{Max: rapid.IntRange(1, 3).Draw(t, "max"), Workers: rapid.IntRange(4, 8).Draw(t, "workers"), Rounds: rapid.IntRange(200, 1500).Draw(t, "rounds"),
			Via: rapid.SampledFrom([]string{"standalone", "exec", "mixed"}).Draw(t, "via")}
		bh := bulkhead.Builder[int](uint(sc.Max)).Build()
		ex := failsafe.NewExecutor[int](bh)
		var in, worst, admitted atomic.Int32
		enter := func() {
			n := in.Add(1)
			for {
				w := worst.Load()
				if n <= w || worst.CompareAndSwap(w, n) {
					break
				}
			}
			admitted.Add(1)
			in.Add(-1)
		}
		var gen, fin atomic.Int64
		var stop atomic.Bool
		var wg sync.WaitGroup
		for w := 0; w < sc.Workers; w++ {
			wg.Add(1)
			go func(w int) {
				defer wg.Done()
				seen := int64(0)
				for {
					for gen.Load() == seen {
						if stop.Load() {
							return
						}
						runtime.Gosched()
					}
					seen = gen.Load()
					if sc.Via == "standalone" || (sc.Via == "mixed" && w%2 == 0) {
						if bh.TryAcquirePermit() {
							enter()
							bh.ReleasePermit()
						}
					} else {
						ex.Get(func() (int, error) { enter(); return 0, nil })
					}
					fin.Add(1)
				}
			}(w)
		}
		for r := 0; r < sc.Rounds; r++ {
			fin.Store(0)
			gen.Add(1)
			deadline := harness.Wait(20 * time.Second)
			for fin.Load() < int64(sc.Workers) {
				if deadline.Expired() {
					stop.Store(true)
					harness.Inconclusive(t, "workers did not finish a round within 20s")
				}
				runtime.Gosched()
			}
		}
		stop.Store(true)
		wg.Wait()
		if w := int(worst.Load()); w > sc.Max {
			harness.Violation(t, prop, test, "limit-exceeded", sc, "%+v: %d callers were inside the bulkhead at once, the limit is %d", sc, w, sc.Max)
		}
		got := 0
		for got <= sc.Max && bh.TryAcquirePermit() {
			got++
		}
		if got != sc.Max {
			harness.Violation(t, prop, test, "permit-count", sc, "%+v: after the stampede %d permits could be acquired, the bulkhead has %d", sc, got, sc.Max)
		}
		b, _ := json.Marshal(sc)
		st.Case(string(b), int(admitted.Load()) < sc.Rounds*sc.Workers, fmt.Sprintf("via=%s", sc.Via))
		st.Sample(string(b), func() any { return sc })
	})
}
