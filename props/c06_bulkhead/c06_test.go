//go:build verif

// Package c06 checks property C06: a bulkhead never exceeds its concurrency limit and never loses permits.
package c06

import (
	"context"
	"encoding/json"
	"errors"
	"fmt"
	"os"
	"runtime"
	"strconv"
	"strings"
	"sync"
	"sync/atomic"
	"testing"
	"time"

	"github.com/failsafe-go/failsafe-go"
	"github.com/failsafe-go/failsafe-go/bulkhead"
	"github.com/failsafe-go/failsafe-go/fallback"
	"github.com/failsafe-go/failsafe-go/hedgepolicy"
	"github.com/failsafe-go/failsafe-go/retrypolicy"
	"github.com/failsafe-go/failsafe-go/timeout"
	"pgregory.net/rapid"

	"verif/harness"
)

const prop = "C06"

var errX = errors.New("attempt failed")

const (
	okVal = 7
	fbVal = 55
)

type execSpec struct {
	Wrapper  string `json:"wrapper"` // bare retry timeout-fires hedge fallback bh-outside-retry inner-full (a second, always full bulkhead inside: the admitted execution ends in the inner bulkhead's ErrFull) fn-errfull (the function itself returns an error that wraps ErrFull)
	Async    bool   `json:"async"`
	Role     string `json:"role"`      // holder: parks in the function on a gate | burst: returns at once | waiter: submitted while the bulkhead is full
	FailN    int    `json:"fail_n"`    // the first n invocations of this execution return errX
	CancelMe bool   `json:"cancel_me"` // an action cancels this execution's context (while it waits for a permit or holds one)
	// CustomCtx: the execution's context is a hand-written context.Context (own Done / Err, values delegated to a standard
	// cancellable parent that is never cancelled), cancelled by CancelMe like the others
	CustomCtx bool `json:"custom_ctx,omitempty"`
	// DeadlineUs: the execution's context carries a deadline this many microseconds after submission (it expires while the
	// execution waits for a permit, or holds one)
	DeadlineUs int `json:"deadline_us,omitempty"`
}

type scenario struct {
	Max        int        `json:"max"`
	MaxWait    string     `json:"max_wait"`   // 0 | 1ms | 50ms | 1h
	Standalone int        `json:"standalone"` // permits the harness takes through TryAcquirePermit before anything starts
	Execs      []execSpec `json:"execs"`
	Order      []int      `json:"order"` // permutation driving the order of the harness actions
	Timed      bool       `json:"timed"` // actions are spaced by a few hundred microseconds instead of issued back to back
	// Waiters: callers of the standalone blocking API that are cancelled while every permit is held (a final phase)
	Waiters       int `json:"waiters,omitempty"`
	WaitersSpinUs int `json:"waiters_spin_us,omitempty"`
}

// ownDoneCtx is a legal context.Context that is not one of the standard library's: it is done when cancel is called,
// whatever its parent does, and delegates values to the parent.
type ownDoneCtx struct {
	parent context.Context
	done   chan struct{}
	once   sync.Once
}

func (c *ownDoneCtx) Deadline() (time.Time, bool) { return time.Time{}, false }
func (c *ownDoneCtx) Done() <-chan struct{}       { return c.done }
func (c *ownDoneCtx) Value(k any) any             { return c.parent.Value(k) }
func (c *ownDoneCtx) cancel()                     { c.once.Do(func() { close(c.done) }) }
func (c *ownDoneCtx) Err() error {
	select {
	case <-c.done:
		return context.Canceled
	default:
		return nil
	}
}

func waitOf(s string) time.Duration {
	switch s {
	case "1ms":
		return time.Millisecond
	case "50ms":
		return 50 * time.Millisecond
	case "1h":
		return time.Hour
	}
	return 0
}

type execState struct {
	spec    execSpec
	gate    chan struct{}
	cancel  context.CancelFunc
	entries atomic.Int32
	done    chan struct{}
	val     int
	err     error
}

type runOut struct {
	violation, sig string
	inconclusive   string
	overlapMore    bool // more executions than permits overlapped
	waited         bool
	refused        bool
	cancelled      bool
}

func run(sc scenario) (out runOut) {
	fail := func(sig, f string, a ...any) runOut {
		out.violation, out.sig = fmt.Sprintf(f, a...), sig
		return out
	}
	var fullEvents atomic.Int32
	bh := bulkhead.Builder[int](uint(sc.Max)).WithMaxWaitTime(waitOf(sc.MaxWait)).OnFull(func(failsafe.ExecutionEvent[int]) { fullEvents.Add(1) }).Build()
	var held atomic.Int32 // standalone permits held by the harness
	var meter atomic.Int32
	var overLimit atomic.Int32
	var maxSeen atomic.Int32
	innerFull := bulkhead.Builder[int](1).Build()
	innerFull.TryAcquirePermit() // never released: whatever is routed through it is refused at once
	for i := 0; i < sc.Standalone; i++ {
		if !bh.TryAcquirePermit() {
			return fail("standalone-refused", "TryAcquirePermit %d of %d refused on an idle bulkhead of %d", i+1, sc.Standalone, sc.Max)
		}
		held.Add(1)
	}
	if int(held.Load()) == sc.Max && bh.TryAcquirePermit() {
		return fail("over-admission", "TryAcquirePermit succeeded with all %d permits taken", sc.Max)
	}

	states := make([]*execState, len(sc.Execs))
	mkFn := func(st *execState) func(failsafe.Execution[int]) (int, error) {
		return func(exec failsafe.Execution[int]) (int, error) {
			n := int(st.entries.Add(1))
			in := meter.Add(1)
			defer meter.Add(-1)
			if tot := in + held.Load(); tot > int32(sc.Max) {
				overLimit.Store(tot)
			}
			for {
				m := maxSeen.Load()
				if in <= m || maxSeen.CompareAndSwap(m, in) {
					break
				}
			}
			switch {
			case st.spec.Wrapper == "timeout-fires":
				select { // only returns on cancellation
				case <-exec.Canceled():
				case <-harness.After(40 * time.Second):
				}
			case st.spec.Role == "holder":
				select {
				case <-st.gate:
				case <-exec.Canceled():
					return 0, exec.Context().Err()
				}
			case st.spec.Wrapper == "hedge":
				// long enough for the hedge to start and contend for a second permit
				select {
				case <-time.After(1500 * time.Microsecond):
				case <-exec.Canceled():
				}
			}
			if st.spec.Wrapper == "fn-errfull" {
				return 0, fmt.Errorf("downstream: %w", bulkhead.ErrFull) // an outcome like any other for the bulkhead under test
			}
			if n <= st.spec.FailN {
				return 0, errX
			}
			return okVal, nil
		}
	}
	start := func(i int) {
		st := states[i]
		ctx, cancel := context.WithCancel(context.Background())
		st.cancel = cancel
		if st.spec.CustomCtx {
			oc := &ownDoneCtx{parent: ctx, done: make(chan struct{})}
			ctx, st.cancel = oc, oc.cancel
		}
		if st.spec.DeadlineUs > 0 {
			var c2 context.CancelFunc
			ctx, c2 = context.WithTimeout(ctx, time.Duration(st.spec.DeadlineUs)*time.Microsecond)
			_ = c2 // released through the parent's cancel at the end of the scenario
		}
		var pols []failsafe.Policy[int]
		rp := retrypolicy.Builder[int]().WithMaxRetries(2).HandleErrors(errX).ReturnLastFailure().Build()
		switch st.spec.Wrapper {
		case "retry":
			pols = []failsafe.Policy[int]{rp, bh}
		case "timeout-fires":
			pols = []failsafe.Policy[int]{timeout.With[int](3 * time.Millisecond), bh}
		case "hedge":
			pols = []failsafe.Policy[int]{hedgepolicy.BuilderWithDelay[int](500 * time.Microsecond).Build(), bh}
		case "fallback":
			pols = []failsafe.Policy[int]{fallback.WithResult[int](fbVal), bh}
		case "bh-outside-retry":
			pols = []failsafe.Policy[int]{bh, rp}
		case "inner-full":
			pols = []failsafe.Policy[int]{bh, innerFull}
		default:
			pols = []failsafe.Policy[int]{bh}
		}
		ex := failsafe.NewExecutor[int](pols...).WithContext(ctx)
		fn := mkFn(st)
		go func() {
			defer close(st.done)
			if st.spec.Async {
				st.val, st.err = ex.GetWithExecutionAsync(fn).Get()
			} else {
				st.val, st.err = ex.GetWithExecution(fn)
			}
		}()
	}
	for i, sp := range sc.Execs {
		states[i] = &execState{spec: sp, gate: make(chan struct{}), done: make(chan struct{})}
	}
	// phase A: holders and burst executions start together
	nHolders := 0
	for i, sp := range sc.Execs {
		if sp.Role != "waiter" {
			start(i)
			if sp.Role == "holder" {
				nHolders++
			}
		}
	}
	// let the holders that can get a permit reach their gate (bounded wait: with max wait 0 some are refused at once)
	deadline := time.Now().Add(20 * time.Millisecond)
	for time.Now().Before(deadline) {
		parked := 0
		for _, st := range states {
			if st.spec.Role == "holder" && st.entries.Load() > 0 {
				parked++
			}
		}
		if parked >= min(nHolders, sc.Max-sc.Standalone) {
			break
		}
		time.Sleep(50 * time.Microsecond)
	}
	// phase B: waiters are submitted against a (probably) full bulkhead
	for i, sp := range sc.Execs {
		if sp.Role == "waiter" {
			start(i)
		}
	}
	if len(sc.Execs) > sc.Max {
		out.overlapMore = true
	}
	// phase C: actions in the generated order: open a holder's gate, or cancel an execution, or move a standalone permit
	for _, a := range sc.Order {
		if sc.Timed {
			time.Sleep(time.Duration(100+37*a%400) * time.Microsecond)
		}
		switch {
		case a < len(states):
			st := states[a]
			if st.spec.CancelMe {
				st.cancel()
				out.cancelled = true
			} else if st.spec.Role == "holder" {
				close(st.gate)
			}
		default: // standalone traffic
			if held.Load() > 0 && a%2 == 0 {
				held.Add(-1) // before the release: a stale count may only over-estimate what is in use
				bh.ReleasePermit()
			} else if bh.TryAcquirePermit() {
				held.Add(1)
			}
		}
	}
	// phase D: let everything finish: the harness gives its own permits back, opens the remaining gates; waiters with an
	// hour of patience get their permits as the others leave
	for n := held.Load(); n > 0; n-- {
		held.Add(-1)
		bh.ReleasePermit()
	}
	for _, st := range states {
		if st.spec.Role == "holder" && !st.spec.CancelMe {
			select {
			case <-st.gate:
			default:
				close(st.gate)
			}
		}
	}
	watchdog := harness.After(30 * time.Second)
	for i, st := range states {
		select {
		case <-st.done:
		case <-watchdog:
			buf := make([]byte, 1<<20)
			dump := string(buf[:runtime.Stack(buf, true)])
			if strings.Contains(dump, "bulkhead.(*bulkhead[...]).ReleasePermit") || strings.Contains(dump, "bulkhead.(*bulkhead") && strings.Contains(dump, "ReleasePermit") {
				return fail("release-blocked", "execution %d (%+v) had not finished after 30s and a goroutine is blocked in ReleasePermit: a permit was given back twice", i, st.spec)
			}
			if st.spec.Role == "waiter" && sc.MaxWait == "1h" {
				// a waiter with an hour of patience only gets in when permits come back: a lost permit leaves it stranded
				return fail("waiter-stranded", "execution %d still waits for a permit 30s after every other execution finished: a permit was lost", i)
			}
			out.inconclusive = fmt.Sprintf("execution %d (%+v) had not finished after 30s", i, st.spec)
			return out
		}
	}
	for st := held.Load(); st > 0; st-- {
		held.Add(-1)
		bh.ReleasePermit()
	}
	// ---- judge ----
	if v := overLimit.Load(); v != 0 {
		return fail("limit-exceeded", "%d executions of the function (plus standalone permits) were in progress at once, limit %d", v, sc.Max)
	}
	for i, st := range states {
		e := st.err
		known := e == nil || e == errX || errors.Is(e, bulkhead.ErrFull) || errors.Is(e, context.Canceled) || errors.Is(e, timeout.ErrExceeded) ||
			(st.spec.DeadlineUs > 0 && errors.Is(e, context.DeadlineExceeded))
		if !known {
			return fail("unexpected-error", "execution %d (%+v) returned (%d,%v)", i, st.spec, st.val, e)
		}
		if errors.Is(e, bulkhead.ErrFull) {
			out.refused = true
			if st.spec.Wrapper == "inner-full" || st.spec.Wrapper == "fn-errfull" {
				continue // ErrFull is the inside's outcome here, not a refusal by the bulkhead under test
			}
			if (st.spec.Wrapper == "bare") && st.entries.Load() != 0 {
				return fail("refused-but-entered", "execution %d returned ErrFull although it entered the function", i)
			}
			if waitOf(sc.MaxWait) == time.Hour {
				return fail("refused-early", "execution %d returned ErrFull with a max wait of 1h", i)
			}
		}
		if st.spec.Wrapper == "bare" && errors.Is(e, context.Canceled) && st.spec.Role == "waiter" && st.entries.Load() != 0 && !st.spec.CancelMe {
			return fail("unexpected-error", "execution %d returned a context error but nobody cancelled it", i)
		}
		if st.spec.Role == "waiter" && st.entries.Load() > 0 {
			out.waited = true
		}
	}
	// exactly Max permits are available again (attempts a hedge abandoned may still be on their way out: a permit that is
	// only late comes back within the polling period, a lost one never does)
	got := 0
	probeUntil := harness.Wait(10 * time.Second)
	for {
		got = 0
		for got <= sc.Max && bh.TryAcquirePermit() {
			got++
		}
		for i := 0; i < got; i++ {
			bh.ReleasePermit()
		}
		if got == sc.Max || probeUntil.Expired() {
			break
		}
		time.Sleep(200 * time.Microsecond)
	}
	if got != sc.Max {
		return fail("permit-count", "after everything finished %d permits could be acquired, the bulkhead has %d", got, sc.Max)
	}
	// standalone waiters: with every permit held, callers of AcquirePermit / AcquirePermitWithMaxWait wait; each is
	// cancelled while it waits and must come back without a permit; afterwards exactly Max permits are available again
	if sc.Waiters > 0 {
		// (an attempt a hedge abandoned may still pass through the bulkhead for a moment: a permit it holds comes back)
		takeUntil := harness.Wait(10 * time.Second)
		for i := 0; i < sc.Max; {
			if bh.TryAcquirePermit() {
				i++
				continue
			}
			if takeUntil.Expired() {
				return fail("permit-count", "only %d of %d permits could be taken for the standalone waiter phase", i, sc.Max)
			}
			time.Sleep(200 * time.Microsecond)
		}
		type wres struct {
			i   int
			err error
		}
		resCh := make(chan wres, sc.Waiters)
		var cancels []context.CancelFunc
		for i := 0; i < sc.Waiters; i++ {
			ctx, cancel := context.WithCancel(context.Background())
			cancels = append(cancels, cancel)
			go func(i int) {
				if i%2 == 0 {
					resCh <- wres{i, bh.AcquirePermit(ctx)}
				} else {
					resCh <- wres{i, bh.AcquirePermitWithMaxWait(ctx, time.Hour)}
				}
			}(i)
		}
		time.Sleep(time.Duration(sc.WaitersSpinUs) * time.Microsecond)
		for _, c := range cancels {
			c()
		}
		for i := 0; i < sc.Waiters; i++ {
			select {
			case r := <-resCh:
				if r.err == nil {
					return fail("standalone-waiter-got-permit", "standalone waiter %d obtained a permit although all %d were held", r.i, sc.Max)
				}
				if !errors.Is(r.err, context.Canceled) {
					return fail("standalone-waiter-error", "standalone waiter %d, cancelled while waiting, returned %v", r.i, r.err)
				}
			case <-harness.After(20 * time.Second):
				for j := 0; j < sc.Max; j++ {
					bh.ReleasePermit() // let the stuck waiters go
				}
				return fail("standalone-waiter-stuck", "a standalone waiter had not returned 20s after its context was cancelled (all %d permits held)", sc.Max)
			}
		}
		for i := 0; i < sc.Max; i++ {
			bh.ReleasePermit()
		}
		againUntil := harness.Wait(10 * time.Second)
		for {
			got = 0
			for got <= sc.Max && bh.TryAcquirePermit() {
				got++
			}
			for i := 0; i < got; i++ {
				bh.ReleasePermit()
			}
			if got == sc.Max || againUntil.Expired() {
				break
			}
			time.Sleep(200 * time.Microsecond)
		}
		if got != sc.Max {
			return fail("permit-count", "after the cancelled standalone waiters %d permits could be acquired, the bulkhead has %d", got, sc.Max)
		}
	}
	return out
}

func genScenario(t *rapid.T) scenario {
	sc := scenario{Max: rapid.IntRange(1, 8).Draw(t, "max")}
	if rapid.Bool().Draw(t, "smallMax") {
		sc.Max = rapid.IntRange(0, 2).Draw(t, "maxSmall") // 0: a bulkhead that admits nothing
	}
	sc.MaxWait = rapid.SampledFrom([]string{"0", "1ms", "50ms", "1h", "1h"}).Draw(t, "maxWait")
	if sc.Max == 0 && sc.MaxWait == "1h" {
		sc.MaxWait = "1ms" // nobody would ever be let in: an hour of patience would only end by cancellation
	}
	sc.Standalone = rapid.IntRange(0, sc.Max).Draw(t, "standalone")
	if rapid.Bool().Draw(t, "noStandalone") {
		sc.Standalone = 0
	}
	maxG := 24
	if harness.Thorough() {
		maxG = 64
	}
	g := rapid.IntRange(2, maxG).Draw(t, "execs")
	for i := 0; i < g; i++ {
		sp := execSpec{
			Wrapper: rapid.SampledFrom([]string{"bare", "bare", "retry", "timeout-fires", "hedge", "fallback", "bh-outside-retry", "inner-full", "fn-errfull"}).Draw(t, "wrapper"),
			Async:   rapid.Bool().Draw(t, "async"),
			Role:    rapid.SampledFrom([]string{"holder", "burst", "waiter", "waiter"}).Draw(t, "role"),
			FailN:   rapid.SampledFrom([]int{0, 0, 1, 5}).Draw(t, "failN"),
		}
		sp.CancelMe = rapid.IntRange(0, 3).Draw(t, "cancelMe") == 0
		sp.CustomCtx = sp.CancelMe && rapid.IntRange(0, 2).Draw(t, "customCtx") == 0
		if rapid.IntRange(0, 5).Draw(t, "deadline") == 0 {
			sp.DeadlineUs = rapid.SampledFrom([]int{1, 100, 600, 2000}).Draw(t, "deadlineUs")
		}
		if sp.Wrapper == "timeout-fires" || sp.Wrapper == "hedge" || sp.Wrapper == "inner-full" {
			if sp.Role == "holder" {
				sp.Role = "burst" // these wrappers end by themselves
			}
		}
		sc.Execs = append(sc.Execs, sp)
	}
	extra := rapid.IntRange(0, 6).Draw(t, "standaloneActions")
	sc.Order = rapid.Permutation(seq(g+extra)).Draw(t, "order")
	sc.Timed = rapid.Bool().Draw(t, "timed")
	if rapid.Bool().Draw(t, "standaloneWaiters") {
		sc.Waiters = rapid.IntRange(1, 4).Draw(t, "waiters")
		sc.WaitersSpinUs = rapid.SampledFrom([]int{0, 20, 200}).Draw(t, "waitersSpinUs")
	}
	return sc
}

func seq(n int) []int {
	s := make([]int, n)
	for i := range s {
		s[i] = i
	}
	return s
}

func TestBulkhead(t *testing.T) {
	const test = "TestBulkhead"
	st := harness.NewStats(test)
	defer st.Flush()
	rapid.Check(t, func(t *rapid.T) {
		sc := genScenario(t)
		o := run(sc)
		if o.inconclusive != "" {
			harness.Inconclusive(t, "%s", o.inconclusive)
		}
		if o.violation != "" {
			harness.Violation(t, prop, test, o.sig, sc, "max=%d wait=%s standalone=%d execs=%d: %s", sc.Max, sc.MaxWait, sc.Standalone, len(sc.Execs), o.violation)
		}
		nt := o.overlapMore && (o.waited || o.refused || o.cancelled)
		wr := map[string]bool{}
		for _, e := range sc.Execs {
			wr[e.Wrapper] = true
		}
		classes := []string{"maxWait=" + sc.MaxWait, fmt.Sprintf("waited=%v", o.waited), fmt.Sprintf("refused=%v", o.refused), fmt.Sprintf("cancelled=%v", o.cancelled)}
		for w := range wr {
			classes = append(classes, "wrapper="+w)
		}
		b, _ := json.Marshal(sc)
		st.Case(string(b), nt, classes...)
		if nt {
			st.Sample(string(b), func() any { return sc })
		}
	})
}

func TestRegress(t *testing.T) {
	st := harness.NewStats("TestRegress")
	defer st.Flush()
	var files []string
	if p := os.Getenv("VERIF_REPLAY"); p != "" {
		files = []string{p}
	} else {
		dir := os.Getenv("VERIF_REGRESS_DIR")
		if dir == "" {
			dir = "../../regress/c06"
		}
		ents, _ := os.ReadDir(dir)
		for _, e := range ents {
			files = append(files, dir+"/"+e.Name())
		}
	}
	reps := 50
	if r, err := strconv.Atoi(os.Getenv("VERIF_REPLAY_REPS")); err == nil && r > 1 {
		reps = r
	}
	for _, f := range files {
		b, err := os.ReadFile(f)
		if err != nil {
			continue
		}
		var sc scenario
		_ = json.Unmarshal(b, &sc)
		if sc.Max == 0 {
			var vr struct {
				Scenario scenario `json:"scenario"`
			}
			_ = json.Unmarshal(b, &vr)
			sc = vr.Scenario
		}
		if sc.Max == 0 {
			continue
		}
		for i := 0; i < reps; i++ {
			if o := run(sc); o.violation != "" {
				harness.Violation(t, prop, "TestRegress", o.sig, sc, "%s", o.violation)
			}
		}
		st.Case(f, true, "regress")
		st.Sample(f, func() any { return sc })
	}
}
