//go:build verif

// Package c02 checks property C02: a retry policy makes a bounded number of attempts, stops at the first success or abort,
// returns the right final result, and its budget belongs to one execution.
package c02

import (
	"errors"
	"fmt"
	"strings"
	"sync"
	"testing"
	"time"

	"github.com/failsafe-go/failsafe-go"
	"github.com/failsafe-go/failsafe-go/retrypolicy"
	"pgregory.net/rapid"

	"verif/harness"
	"verif/harness/compose"
)

const prop = "C02"

func want(cat string) bool {
	return cat == "outcome" || cat == "liveness" || cat == "events/retry" || cat == "events/executor" || cat == "stats/function"
}

// ---- sequential: one retry policy alone or as the outermost / innermost of a short stack -----------------------------

var seq = compose.PropCfg{
	Prop: prop, Test: "TestRetrySequential",
	Opts: func(t *rapid.T) compose.GenOpts {
		o := compose.DefaultOpts()
		o.Kinds = []string{"retry", "retry", "retry", "retry", "fallback", "timeout", "hedge", "breaker", "bulkhead"}
		o.MinStack, o.MaxStack, o.MaxPool = 1, 3, 3
		o.MaxScript = 10
		o.FireOneIn = 0
		o.RichErrors = rapid.Bool().Draw(t, "rich")
		if harness.Thorough() {
			o.MaxScript, o.MaxSteps = 14, 8
		}
		return o
	},
	Want: want,
	Nontrivial: func(sc compose.Scenario, sr *compose.ScenarioResult) bool {
		return sr.Actions["retry"] > 0
	},
	Classes: func(sc compose.Scenario, sr *compose.ScenarioResult) []string {
		var out []string
		for _, p := range sc.Stack {
			if in := sc.Pool[p]; in.Kind == "retry" {
				out = append(out, fmt.Sprintf("maxRetries=%d", in.MaxRetries))
				if in.MaxDuration != "" {
					out = append(out, "maxDuration="+in.MaxDuration)
				}
				if in.ReturnLast {
					out = append(out, "returnLastFailure")
				}
			}
		}
		return out
	},
}

func TestRetrySequential(t *testing.T) {
	st := harness.NewStats("TestRetrySequential")
	defer st.Flush()
	rapid.Check(t, seq.Run(st))
}

// ---- shared: N goroutines run through the same policy instances, each compared with the model of its own script -------

func TestRetryShared(t *testing.T) {
	const test = "TestRetryShared"
	st := harness.NewStats(test)
	defer st.Flush()
	rapid.Check(t, func(t *rapid.T) {
		o := compose.DefaultOpts()
		o.FireOneIn, o.Standalone = 0, false
		var sc compose.Scenario
		sc.Pool = append(sc.Pool, compose.GenInst(t, o, "retry", false))
		sc.Stack = []int{0}
		switch rapid.IntRange(0, 4).Draw(t, "shape") {
		case 1:
			sc.Pool = append(sc.Pool, compose.GenInst(t, o, "fallback", false))
			sc.Stack = []int{1, 0}
		case 2:
			sc.Pool = append(sc.Pool, compose.Inst{Kind: "timeout"})
			sc.Stack = []int{0, 1}
		case 3:
			sc.Pool = append(sc.Pool, compose.Inst{Kind: "hedge", MaxHedges: 1})
			sc.Stack = []int{1, 0}
		case 4:
			sc.Pool = append(sc.Pool, compose.GenInst(t, o, "retry", false))
			sc.Stack = []int{0, 1}
		}
		maxG := 16
		if harness.Thorough() {
			maxG = 32
		}
		g := rapid.IntRange(2, maxG).Draw(t, "goroutines")
		for i := 0; i < g; i++ {
			s := compose.Step{Op: "exec", Entry: rapid.IntRange(0, 7).Draw(t, "entry")}
			n := rapid.IntRange(0, 8).Draw(t, "scriptN")
			for k := 0; k < n; k++ {
				s.Script = append(s.Script, compose.Outcome{V: rapid.IntRange(0, 3).Draw(t, "v"), E: rapid.SampledFrom(compose.SimpleErrs).Draw(t, "e")})
			}
			sc.Steps = append(sc.Steps, s)
		}
		sr := compose.RunConcurrent(sc, false)
		if m := sr.First(want); m != nil {
			harness.Violation(t, prop, test, "shared-"+compose.SigOf(m.Cat), sc, "%s\n  stack %s", m, sc.StackString())
		}
		// non-trivial: at least two of the concurrent executions retried, with different scripts
		retried := map[string]bool{}
		for _, s := range sr.Steps {
			if s.Pred != nil && s.Pred.Actions["retry"] > 0 {
				retried[fmt.Sprint(s.Step.Script)] = true
			}
		}
		var scripts []string
		for _, s := range sc.Steps {
			scripts = append(scripts, fmt.Sprint(s.Script))
		}
		key := sc.KindString() + strings.Join(scripts, ";")
		st.Case(key, len(retried) >= 2, fmt.Sprintf("goroutines>=8=%v", g >= 8))
		st.Count("concurrent_executions_compared", sr.Execs)
		if len(retried) >= 2 {
			st.Sample(key, func() any { return sc.Sample() })
		}
	})
}

// ---- real max duration: once a failure is returned after the max duration elapsed, no further attempt ----------------

func TestMaxDurationReal(t *testing.T) {
	const test = "TestMaxDurationReal"
	st := harness.NewStats(test)
	defer st.Flush()
	rapid.Check(t, func(t *rapid.T) {
		type cfg struct {
			MaxDurMs   int  `json:"max_duration_ms"`
			DelayUs    int  `json:"delay_us"`
			WorkUs     int  `json:"work_us"`
			ReturnLast bool `json:"return_last"`
			Async      bool `json:"async"`
			FailFirst  int  `json:"fail_first"` // -1: always fail
		}
		n := rapid.IntRange(4, 24).Draw(t, "batch")
		cfgs := make([]cfg, n)
		for i := range cfgs {
			cfgs[i] = cfg{
				MaxDurMs:   rapid.IntRange(2, 20).Draw(t, "maxDurMs"),
				DelayUs:    rapid.SampledFrom([]int{0, 100, 1000, 3000}).Draw(t, "delayUs"),
				WorkUs:     rapid.SampledFrom([]int{0, 200, 1500}).Draw(t, "workUs"),
				ReturnLast: rapid.Bool().Draw(t, "returnLast"),
				Async:      rapid.Bool().Draw(t, "async"),
				FailFirst:  rapid.SampledFrom([]int{-1, -1, 3, 30}).Draw(t, "failFirst"),
			}
		}
		type outcome struct {
			invocations   int
			lateAt        int // invocation index (1-based) whose failure was returned after the max duration had elapsed
			err           error
			val           int
			sampledLate   time.Duration
			afterLateCall bool
			forcedStop    bool
		}
		outs := make([]outcome, n)
		var wg sync.WaitGroup
		for i := range cfgs {
			wg.Add(1)
			go func(i int) {
				defer wg.Done()
				c := cfgs[i]
				maxDur := time.Duration(c.MaxDurMs) * time.Millisecond
				b := retrypolicy.Builder[int]().WithMaxRetries(-1).WithMaxDuration(maxDur).WithDelay(time.Duration(c.DelayUs) * time.Microsecond)
				if c.ReturnLast {
					b.ReturnLastFailure()
				}
				o := &outs[i]
				fn := func(exec failsafe.Execution[int]) (int, error) {
					o.invocations++
					if o.lateAt != 0 {
						o.afterLateCall = true
					}
					if c.WorkUs > 0 {
						time.Sleep(time.Duration(c.WorkUs) * time.Microsecond)
					}
					if c.FailFirst >= 0 && o.invocations > c.FailFirst {
						return 7, nil
					}
					// sampled just before returning the failure: the policy will read a later (larger) elapsed time
					el := exec.ElapsedTime()
					if el > maxDur && o.lateAt == 0 {
						o.lateAt, o.sampledLate = o.invocations, el
					}
					if el > maxDur+2*time.Second {
						o.forcedStop = true // a policy that ignores its max duration would retry forever
						return 7, nil
					}
					return o.invocations, compose.EA
				}
				if c.Async {
					o.val, o.err = failsafe.NewExecutor[int](b.Build()).GetWithExecutionAsync(fn).Get()
				} else {
					o.val, o.err = failsafe.NewExecutor[int](b.Build()).GetWithExecution(fn)
				}
			}(i)
		}
		wg.Wait()
		for i, o := range outs {
			c := cfgs[i]
			bad := func(sig, f string, a ...any) {
				harness.Violation(t, prop, test, sig, c, "%+v: %s", c, fmt.Sprintf(f, a...))
			}
			if o.afterLateCall {
				bad("retry-after-max-duration", "attempt %d returned a failure %v after the start (max duration %dms), yet %d attempts were made", o.lateAt, o.sampledLate, c.MaxDurMs, o.invocations)
			}
			succeeded := (c.FailFirst >= 0 && o.invocations > c.FailFirst) || o.forcedStop
			switch {
			case succeeded:
				if o.val != 7 || o.err != nil {
					bad("max-duration-result", "function succeeded on attempt %d but the call returned (%d,%v)", o.invocations, o.val, o.err)
				}
			case c.ReturnLast:
				if o.val != o.invocations || o.err != compose.EA {
					bad("max-duration-result", "gave up after %d attempts with ReturnLastFailure but returned (%d,%v)", o.invocations, o.val, o.err)
				}
			default:
				var ex retrypolicy.ExceededError
				if !errors.Is(o.err, retrypolicy.ErrExceeded) || !errors.As(o.err, &ex) || ex.LastError != compose.EA || ex.LastResult != o.invocations {
					bad("max-duration-result", "gave up after %d attempts but returned (%d,%v)", o.invocations, o.val, o.err)
				}
			}
			nt := o.lateAt != 0
			key := fmt.Sprintf("%+v/%d", c, o.invocations)
			st.Case(key, nt, fmt.Sprintf("stopped-by-duration=%v", !succeeded), fmt.Sprintf("late-failure-observed=%v", nt))
			if nt {
				st.Sample(key, func() any {
					return map[string]any{"cfg": c, "invocations": o.invocations, "late_attempt": o.lateAt, "elapsed_sampled": o.sampledLate.String()}
				})
			}
		}
	})
}

func TestRegress(t *testing.T) {
	st := harness.NewStats("TestRegress")
	defer st.Flush()
	seq.Regress(t, st, "../../regress/c02")
}
