//go:build verif

// Package c16 checks property C16: events are emitted exactly once per occurrence and tell a consistent story.
package c16

import (
	"context"
	"encoding/json"
	"errors"
	"fmt"
	"os"
	"path/filepath"
	"runtime"
	"strconv"
	"strings"
	"sync"
	"sync/atomic"
	"testing"
	"time"

	"github.com/failsafe-go/failsafe-go"
	"github.com/failsafe-go/failsafe-go/bulkhead"
	"github.com/failsafe-go/failsafe-go/circuitbreaker"
	"github.com/failsafe-go/failsafe-go/hedgepolicy"
	"github.com/failsafe-go/failsafe-go/ratelimiter"
	"github.com/failsafe-go/failsafe-go/retrypolicy"
	"github.com/failsafe-go/failsafe-go/timeout"

	"pgregory.net/rapid"

	"verif/harness"
	"verif/harness/compose"
)

// C16 claims every listener of every policy and of the executor: which fire, how many times, in which causal order, with
// which result payload. (The statistics carried in the payloads belong to C17.)
var cfg = compose.PropCfg{
	Prop: "C16", Test: "TestEvents",
	Opts: func(t *rapid.T) compose.GenOpts {
		o := compose.DefaultOpts()
		if harness.Thorough() {
			o.MaxStack, o.MaxPool, o.MaxSteps, o.MaxScript = 6, 6, 8, 8
		}
		return o
	},
	Want: func(cat string) bool { return strings.HasPrefix(cat, "events/") || cat == "liveness" },
	Nontrivial: func(sc compose.Scenario, sr *compose.ScenarioResult) bool {
		special := false
		for _, a := range []string{"retry-abort", "retry-exceeded", "breaker-reject", "bulkhead-full", "limiter-reject", "cache-hit", "fallback", "timeout-fired"} {
			if sr.Actions[a] > 0 {
				special = true
			}
		}
		nestedRetry := 0
		for _, p := range sc.Stack {
			if sc.Pool[p].Kind == "retry" {
				nestedRetry++
			}
		}
		return len(sr.EventKinds) >= 3 && (special || (nestedRetry >= 2 && sr.Actions["retry"] > 0))
	},
	Classes: func(sc compose.Scenario, sr *compose.ScenarioResult) []string {
		var out []string
		for k := range sr.EventKinds {
			out = append(out, "listener="+k)
		}
		return out
	},
}

func TestEvents(t *testing.T) {
	st := harness.NewStats("TestEvents")
	defer st.Flush()
	rapid.Check(t, func(t *rapid.T) {
		// listeners always on here: they are the subject
		sc := compose.GenScenario(t, cfg.Opts(t))
		sr := compose.Check(t, cfg.Prop, cfg.Test, sc, false, cfg.Want)
		cfg.Record(st, sc, sr)
	})
}

func TestRegress(t *testing.T) {
	st := harness.NewStats("TestRegress")
	defer st.Flush()
	cfg.Regress(t, st, "../../regress/c16")
	// saved schedules of TestHedgedRetryEvents (a race between branches: repeated)
	files, _ := filepath.Glob("../../regress/c16-hedged/*.json")
	if p := os.Getenv("VERIF_REPLAY"); p != "" {
		files = []string{p}
	}
	reps := 300
	if r, err := strconv.Atoi(os.Getenv("VERIF_REPLAY_REPS")); err == nil && r > 1 {
		reps = r
	}
	// saved scenarios of TestEventsWhenWaitsAreCancelled (the cancellation races with the wait: repeated)
	if os.Getenv("VERIF_REPLAY") == "" {
		wfiles, _ := filepath.Glob("../../regress/c16-waits/*.json")
		for _, f := range wfiles {
			var sc waitScen
			if b, err := os.ReadFile(f); err != nil || json.Unmarshal(b, &sc) != nil || sc.Wait == "" {
				continue
			}
			for i := 0; i < 50; i++ {
				runWaitCancelled(t, st, sc)
			}
		}
	}
	for _, f := range files {
		b, err := os.ReadFile(f)
		if err != nil {
			continue
		}
		var sc hedgedScen
		_ = json.Unmarshal(b, &sc)
		if sc.MaxHedges == 0 {
			var vr struct {
				Test     string     `json:"test"`
				Scenario hedgedScen `json:"scenario"`
			}
			_ = json.Unmarshal(b, &vr)
			if vr.Test != "TestHedgedRetryEvents" {
				continue
			}
			sc = vr.Scenario
		}
		if sc.MaxHedges == 0 {
			continue
		}
		for i := 0; i < reps; i++ {
			runHedgedRetry(t, st, sc)
		}
	}
}

// TestEventsConcurrent: several executions run at the same time through one shared executor whose listeners they share;
// every execution's events (attributed through the context the listeners are handed) must be exactly those the sequential
// model predicts for its own script, so the totals are the sums of the per-execution predictions.
func TestEventsConcurrent(t *testing.T) {
	const test = "TestEventsConcurrent"
	st := harness.NewStats(test)
	defer st.Flush()
	rapid.Check(t, func(t *rapid.T) {
		o := compose.DefaultOpts()
		o.FireOneIn, o.Standalone, o.CancelOneIn = 0, false, 0
		var sc compose.Scenario
		// stacks of instances without cross-execution state
		kinds := []string{"retry", "retry", "fallback", "timeout", "hedge"}
		n := rapid.IntRange(1, 4).Draw(t, "stackN")
		for i := 0; i < n; i++ {
			in := compose.GenInst(t, o, rapid.SampledFrom(kinds).Draw(t, "kind"), false)
			in.CancelInScheduled, in.FbCancel = false, false
			if in.Kind == "retry" && in.MaxRetries == -1 {
				in.MaxRetries = 3
			}
			sc.Pool = append(sc.Pool, in)
			sc.Stack = append(sc.Stack, i)
		}
		g := rapid.IntRange(2, 12).Draw(t, "goroutines")
		for i := 0; i < g; i++ {
			s := compose.Step{Op: "exec", Entry: rapid.IntRange(0, 7).Draw(t, "entry")}
			for k, m := 0, rapid.IntRange(0, 6).Draw(t, "scriptN"); k < m; k++ {
				s.Script = append(s.Script, compose.Outcome{V: rapid.IntRange(0, 3).Draw(t, "v"), E: rapid.SampledFrom(compose.SimpleErrs).Draw(t, "e")})
			}
			sc.Steps = append(sc.Steps, s)
		}
		sr := compose.RunConcurrent(sc, false)
		if m := sr.First(cfg.Want); m != nil {
			harness.Violation(t, cfg.Prop, test, "concurrent-"+compose.SigOf(m.Cat), sc, "%s\n  stack %s", m, sc.StackString())
		}
		key := sc.KindString() + fmt.Sprint(sc.Steps)
		nt := sr.MaxActions >= 1 && sr.Execs >= 2
		st.Case(key, nt, fmt.Sprintf("goroutines>=6=%v", g >= 6))
		st.Count("concurrent_executions_compared", sr.Execs)
		if nt {
			st.Sample(key, func() any { return sc.Sample() })
		}
	})
}

// TestEventsWhenWaitsAreCancelled: rejection listeners must fire for rejections only. An execution waits for a bulkhead
// permit, a rate limiter permit or a retry delay (an hour each); its context is cancelled meanwhile. That is not a
// rejection, not a started retry, and not exhaustion.
type waitScen struct {
	Wait       string `json:"wait"` // bulkhead | limiter | retry-delay | limiter-after-refusal | timeout-ignored-cancel
	Async      bool   `json:"async"`
	CancelUs   int    `json:"cancel_us"` // 0: the context is already cancelled at submission
	Then       bool   `json:"then_real_rejection"`
	MaxRetries int    `json:"max_retries,omitempty"` // limiter-after-refusal
}

func TestEventsWhenWaitsAreCancelled(t *testing.T) {
	const test = "TestEventsWhenWaitsAreCancelled"
	st := harness.NewStats(test)
	defer st.Flush()
	rapid.Check(t, func(t *rapid.T) {
		sc := waitScen{Wait: rapid.SampledFrom([]string{"bulkhead", "limiter", "retry-delay", "limiter-after-refusal", "timeout-ignored-cancel"}).Draw(t, "wait"), Async: rapid.Bool().Draw(t, "async"),
			CancelUs: rapid.SampledFrom([]int{0, 50, 300, 1000}).Draw(t, "cancelUs"), Then: rapid.Bool().Draw(t, "then")}
		if sc.Wait == "limiter-after-refusal" {
			sc.MaxRetries = rapid.SampledFrom([]int{1, 3, -1}).Draw(t, "maxRetries")
		}
		runWaitCancelled(t, st, sc)
	})
}

func runWaitCancelled(t harness.TB, st *harness.Stats, sc waitScen) {
	const test = "TestEventsWhenWaitsAreCancelled"
	{
		var mu sync.Mutex
		counts := map[string]int{}
		hit := func(name string) {
			mu.Lock()
			counts[name]++
			mu.Unlock()
		}
		var pol failsafe.Policy[int]
		var pols []failsafe.Policy[int]
		var bh bulkhead.Bulkhead[int]
		var rl ratelimiter.RateLimiter[int]
		switch sc.Wait {
		case "bulkhead":
			bh = bulkhead.Builder[int](1).WithMaxWaitTime(time.Hour).OnFull(func(failsafe.ExecutionEvent[int]) { hit("OnFull") }).Build()
			bh.TryAcquirePermit()
			pol = bh
		case "limiter":
			rl = ratelimiter.SmoothBuilderWithMaxRate[int](time.Hour).WithMaxWaitTime(2 * time.Hour).OnRateLimitExceeded(func(failsafe.ExecutionEvent[int]) { hit("OnRateLimitExceeded") }).Build()
			rl.TryAcquirePermit()
			pol = rl
		case "timeout-ignored-cancel":
			// a Timeout of 2 ms around a function that takes 6 ms and ignores the cancellation of its context, which arrives
			// before the limit: whether the Timeout or the function decides the outcome, the listener fires exactly when the
			// caller is told that the time limit was exceeded
			pol = timeout.Builder[int](2 * time.Millisecond).OnTimeoutExceeded(func(failsafe.ExecutionDoneEvent[int]) { hit("OnTimeoutExceeded") }).Build()
		case "limiter-after-refusal":
			// Retry(RateLimiter) on a stopwatch the harness owns: the first attempt is refused for real (one hour to wait,
			// half an hour allowed), the listener moves the stopwatch on by 40 minutes, so every later attempt is admitted
			// with a wait of at most 20 minutes -- and the cancellation arrives during that wait. The execution still
			// carries the refusal as its last error; the listener must not fire for the cancelled wait.
			var now atomic.Int64
			rl = ratelimiter.SmoothBuilderWithMaxRate[int](time.Hour).WithMaxWaitTime(30 * time.Minute).OnRateLimitExceeded(func(failsafe.ExecutionEvent[int]) {
				hit("OnRateLimitExceeded")
				now.Store(int64(40 * time.Minute))
			}).Build()
			ratelimiter.VerifSetStopwatch(rl, func() time.Duration { return time.Duration(now.Load()) })
			rl.TryAcquirePermit()
			pols = []failsafe.Policy[int]{retrypolicy.Builder[int]().WithMaxRetries(sc.MaxRetries).WithDelay(0).
				OnRetriesExceeded(func(failsafe.ExecutionEvent[int]) { hit("OnRetriesExceeded") }).Build(), rl}
		default:
			pol = retrypolicy.Builder[int]().WithDelay(time.Hour).WithMaxRetries(3).
				OnRetryScheduled(func(failsafe.ExecutionScheduledEvent[int]) { hit("OnRetryScheduled") }).
				OnRetry(func(failsafe.ExecutionEvent[int]) { hit("OnRetry") }).
				OnRetriesExceeded(func(failsafe.ExecutionEvent[int]) { hit("OnRetriesExceeded") }).
				OnAbort(func(failsafe.ExecutionEvent[int]) { hit("OnAbort") }).
				OnFailure(func(failsafe.ExecutionEvent[int]) { hit("retry.OnFailure") }).Build()
		}
		ctx, cancel := context.WithCancel(context.Background())
		defer cancel()
		if pols == nil {
			pols = []failsafe.Policy[int]{pol}
		}
		ex := failsafe.NewExecutor[int](pols...).WithContext(ctx).
			OnDone(func(failsafe.ExecutionDoneEvent[int]) { hit("OnDone") }).
			OnSuccess(func(failsafe.ExecutionDoneEvent[int]) { hit("OnSuccess") }).
			OnFailure(func(failsafe.ExecutionDoneEvent[int]) { hit("OnFailure") })
		calls := 0
		fn := func() (int, error) {
			calls++
			if sc.Wait == "timeout-ignored-cancel" {
				time.Sleep(6 * time.Millisecond)
			}
			return 0, compose.EA
		}
		if sc.CancelUs == 0 {
			cancel()
		} else {
			go func() { time.Sleep(time.Duration(sc.CancelUs) * time.Microsecond); cancel() }()
		}
		var err error
		doneCh := make(chan struct{})
		go func() {
			defer close(doneCh)
			if sc.Async {
				_, err = ex.GetAsync(fn).Get()
			} else {
				_, err = ex.Get(fn)
			}
		}()
		select {
		case <-doneCh:
		case <-harness.After(30 * time.Second):
			harness.Violation(t, cfg.Prop, test, "cancelled-wait-hangs", sc, "%+v: the call had not returned 30s after the context was cancelled", sc)
		}
		bad := func(f string, a ...any) {
			harness.Violation(t, cfg.Prop, test, "events-on-cancelled-wait", sc, "%+v (result %v): %s; events %v", sc, err, fmt.Sprintf(f, a...), counts)
		}
		mu.Lock()
		c := map[string]int{}
		for k, v := range counts {
			c[k] = v
		}
		mu.Unlock()
		if c["OnDone"] != 1 || c["OnSuccess"]+c["OnFailure"] != 1 {
			bad("completion events: OnDone %d, OnSuccess %d, OnFailure %d", c["OnDone"], c["OnSuccess"], c["OnFailure"])
		}
		switch sc.Wait {
		case "bulkhead":
			if c["OnFull"] != 0 {
				bad("OnFull fired %d times although nothing was rejected with ErrFull", c["OnFull"])
			}
		case "limiter":
			if c["OnRateLimitExceeded"] != 0 {
				bad("OnRateLimitExceeded fired %d times although nothing was rejected", c["OnRateLimitExceeded"])
			}
		case "timeout-ignored-cancel":
			want := 0
			if errors.Is(err, timeout.ErrExceeded) {
				want = 1
			}
			for w := harness.Wait(5 * time.Second); want == 1 && !w.Expired(); { // (time during which this process was running)
				mu.Lock()
				n := counts["OnTimeoutExceeded"]
				mu.Unlock()
				if n >= 1 {
					break
				}
				time.Sleep(100 * time.Microsecond)
			}
			time.Sleep(5 * time.Millisecond) // a listener that should not fire, or fires twice, gets its chance
			mu.Lock()
			n := counts["OnTimeoutExceeded"]
			mu.Unlock()
			if n != want {
				bad("OnTimeoutExceeded fired %d times for an execution that ended with %v", n, err)
			}
		case "limiter-after-refusal":
			// only the first attempt can have been refused; afterwards the stopwatch stands at 40 minutes and waits are allowed
			if c["OnRateLimitExceeded"] > 1 {
				bad("OnRateLimitExceeded fired %d times: once for the refusal of the first attempt, and again for a wait that was cancelled", c["OnRateLimitExceeded"])
			}
			if !errors.Is(err, context.Canceled) || c["OnRetriesExceeded"] != 0 || calls != 0 {
				bad("the cancelled execution ended with %v, OnRetriesExceeded %d, %d invocations", err, c["OnRetriesExceeded"], calls)
			}
		default:
			// the first attempt failed; at most one retry was decided, none was started unless the delay ... which is an hour
			if c["OnRetry"] != 0 || c["OnRetriesExceeded"] != 0 || c["OnAbort"] != 0 {
				bad("OnRetry %d, OnRetriesExceeded %d, OnAbort %d after a cancellation during the first retry delay", c["OnRetry"], c["OnRetriesExceeded"], c["OnAbort"])
			}
			if c["OnRetryScheduled"] > 1 || c["retry.OnFailure"] > 1 || calls > 1 {
				bad("OnRetryScheduled %d, policy OnFailure %d, invocations %d", c["OnRetryScheduled"], c["retry.OnFailure"], calls)
			}
		}
		if sc.Then {
			// a real rejection afterwards fires its listener exactly once
			switch sc.Wait {
			case "bulkhead":
				b2 := bulkhead.Builder[int](1).OnFull(func(failsafe.ExecutionEvent[int]) { hit("OnFull2") }).Build()
				b2.TryAcquirePermit()
				failsafe.Get(fn, b2)
				if counts["OnFull2"] != 1 {
					bad("a real rejection fired OnFull %d times", counts["OnFull2"])
				}
			case "limiter":
				r2 := ratelimiter.SmoothBuilderWithMaxRate[int](time.Hour).OnRateLimitExceeded(func(failsafe.ExecutionEvent[int]) { hit("OnRL2") }).Build()
				r2.TryAcquirePermit()
				failsafe.Get(fn, r2)
				if counts["OnRL2"] != 1 {
					bad("a real rejection fired OnRateLimitExceeded %d times", counts["OnRL2"])
				}
			}
		}
		b, _ := json.Marshal(sc)
		st.Case(string(b), true, "wait="+sc.Wait)
		st.Sample(string(b), func() any { return sc })
	}
}

// TestBreakerEventPathConcurrent: goroutines hammer one breaker (executions, Record*, TryAcquirePermit, manual transitions)
// on the real clock with microsecond delays. The state-change listeners are invoked under the breaker's lock, so the
// recorded calls are totally ordered: on every schedule they must form a connected path from the closed state, and every
// generic call must be paired with the matching specific one.
func TestBreakerEventPathConcurrent(t *testing.T) {
	const test = "TestBreakerEventPathConcurrent"
	st := harness.NewStats(test)
	defer st.Flush()
	rapid.Check(t, func(t *rapid.T) {
		type scen struct {
			FT, FCap, ST, SCap int
			DelayUs            int
			Goroutines, Ops    int
			Seed               uint64
		}
		sc := scen{FCap: rapid.IntRange(1, 4).Draw(t, "fcap"), DelayUs: rapid.SampledFrom([]int{0, 5, 50}).Draw(t, "delayUs"),
			Goroutines: rapid.IntRange(2, 8).Draw(t, "goroutines"), Ops: rapid.IntRange(20, 200).Draw(t, "ops"), Seed: rapid.Uint64().Draw(t, "opSeed")}
		sc.FT = rapid.IntRange(1, sc.FCap).Draw(t, "ft")
		if rapid.Bool().Draw(t, "succ") {
			sc.SCap = rapid.IntRange(1, 4).Draw(t, "scap")
			sc.ST = rapid.IntRange(1, sc.SCap).Draw(t, "st")
		}
		type ev struct{ kind, from, to string }
		var evs []ev // appended under the breaker's lock by the listeners themselves
		rec := func(kind string) func(circuitbreaker.StateChangedEvent) {
			return func(e circuitbreaker.StateChangedEvent) {
				evs = append(evs, ev{kind, e.OldState.String(), e.NewState.String()})
			}
		}
		b := circuitbreaker.Builder[int]().WithFailureThresholdRatio(uint(sc.FT), uint(sc.FCap)).WithDelay(time.Duration(sc.DelayUs) * time.Microsecond)
		if sc.ST != 0 {
			b.WithSuccessThresholdRatio(uint(sc.ST), uint(sc.SCap))
		}
		cb := b.OnStateChanged(rec("generic")).OnOpen(rec("open")).OnHalfOpen(rec("half-open")).OnClose(rec("closed")).Build()
		var wg sync.WaitGroup
		for g := 0; g < sc.Goroutines; g++ {
			wg.Add(1)
			go func(g int) {
				defer wg.Done()
				x := sc.Seed + uint64(g)*0x9E3779B97F4A7C15
				for i := 0; i < sc.Ops; i++ {
					x = x*6364136223846793005 + 1442695040888963407
					switch (x >> 33) % 12 {
					case 0, 1:
						cb.RecordSuccess()
					case 2, 3:
						cb.RecordFailure()
					case 4, 5:
						failsafe.Get(func() (int, error) { return 1, nil }, cb)
					case 6, 7:
						failsafe.Get(func() (int, error) { return 0, compose.EA }, cb)
					case 8:
						cb.TryAcquirePermit()
					case 9:
						cb.Open()
					case 10:
						cb.HalfOpen()
					default:
						cb.Close()
					}
				}
			}(g)
		}
		wg.Wait()
		cb.Open() // take the lock once more so that everything the listeners appended is visible here
		cb.Close()
		prev := "closed"
		generic := 0
		if len(evs)%2 != 0 {
			harness.Violation(t, cfg.Prop, test, "breaker-events-unpaired", sc, "%+v: %d listener calls: generic and specific calls do not pair up", sc, len(evs))
		}
		for i := 0; i+1 < len(evs); i += 2 {
			// the two calls for one transition are made back to back under the lock, in either order
			g, sp := evs[i], evs[i+1]
			if g.kind != "generic" {
				g, sp = sp, g
			}
			if g.kind != "generic" || sp.kind == "generic" || sp.kind != g.to || sp.from != g.from || sp.to != g.to {
				harness.Violation(t, cfg.Prop, test, "breaker-events-unpaired", sc, "%+v: calls %d and %d are (%s %s->%s) and (%s %s->%s): not a generic call with its matching specific call", sc, i, i+1, evs[i].kind, evs[i].from, evs[i].to, evs[i+1].kind, evs[i+1].from, evs[i+1].to)
			}
			generic++
			if g.from != prev || g.from == g.to {
				harness.Violation(t, cfg.Prop, test, "breaker-events-disconnected", sc, "%+v: transition %d is %s->%s but the previous one left the breaker %s", sc, generic, g.from, g.to, prev)
			}
			prev = g.to
		}
		key := fmt.Sprintf("%+v", sc)
		st.Case(key, generic >= 3, fmt.Sprintf("transitions>=3=%v", generic >= 3))
		if generic >= 3 {
			st.Sample(key, func() any { return map[string]any{"scenario": sc, "transitions": generic} })
		}
	})
}

// TestHedgedRetryEvents: Hedge(Retry(fn)) with a hedge policy that only accepts successes, so several attempts of one
// execution are inside the retry policy at the same time and share its executor. Every invocation of the function parks
// on a gate; the harness lets the parked invocations return in a generated order, either one at a time (waiting for what
// each return leads to) or all at once. Whatever the order: OnRetriesExceeded fires at most once for the execution (exactly
// once when the caller receives ExceededError), every invocation is either the first attempt of a hedge branch or a retry
// announced by OnRetry, a retry is started only after it was scheduled, and the executor reports completion once.
type hedgedScen struct {
	MaxHedges  int   `json:"max_hedges"`
	MaxRetries int   `json:"max_retries"`
	SucceedAt  int   `json:"succeed_at"` // the n-th invocation to return succeeds (0: none does)
	Burst      bool  `json:"burst"`      // parked invocations are released together
	Order      []int `json:"order"`      // which parked invocation returns next (index modulo the number parked)
	ReturnLast bool  `json:"return_last"`
	Async      bool  `json:"async"`
	// SlowAbortUs: the policy has an abort predicate that takes this long to say no (user code that runs between the
	// policy's own steps, while other branches of the execution are inside the policy too)
	SlowAbortUs int `json:"slow_abort_us,omitempty"`
}

func TestHedgedRetryEvents(t *testing.T) {
	st := harness.NewStats("TestHedgedRetryEvents")
	defer st.Flush()
	rapid.Check(t, func(t *rapid.T) {
		sc := hedgedScen{MaxHedges: rapid.IntRange(1, 3).Draw(t, "maxHedges"), MaxRetries: rapid.IntRange(0, 3).Draw(t, "maxRetries"),
			SucceedAt: rapid.SampledFrom([]int{0, 0, 0, 2, 4, 6}).Draw(t, "succeedAt"), Burst: rapid.Bool().Draw(t, "burst"),
			ReturnLast: rapid.Bool().Draw(t, "returnLast"), Async: rapid.Bool().Draw(t, "async"),
			SlowAbortUs: rapid.SampledFrom([]int{0, 0, 30, 150}).Draw(t, "slowAbortUs")}
		for i := 0; i < 12; i++ {
			sc.Order = append(sc.Order, rapid.IntRange(0, 3).Draw(t, "order"))
		}
		runHedgedRetry(t, st, sc)
	})
	if os.Getenv("VERIF_LEAKCHECK") != "" {
		// run by the C19 check: when every execution has returned, no goroutine of a hedged branch may still sit in the
		// retry policy (a branch that handles its failure after another branch exhausted the retries must come out too)
		var stuck int
		var sample string
		for w := harness.Wait(15 * time.Second); ; {
			buf := make([]byte, 4<<20)
			dump := string(buf[:runtime.Stack(buf, true)])
			stuck, sample = 0, ""
			for _, g := range strings.Split(dump, "\n\n") {
				if strings.Contains(g, "failsafe-go/retrypolicy.") || strings.Contains(g, "failsafe-go/hedgepolicy.") {
					stuck++
					if sample == "" {
						sample = g
					}
				}
			}
			if stuck == 0 || w.Expired() {
				break
			}
			time.Sleep(20 * time.Millisecond)
		}
		if stuck > 0 {
			harness.WriteViolation("C19", "TestHedgedRetryEvents", "leak-hedged-retry-goroutine", nil, nil, fmt.Sprintf("%d goroutines are still inside the retry / hedge policy 15s after every execution returned, e.g.\n%s", stuck, sample))
			t.Fatalf("[C19 sig=leak-hedged-retry-goroutine] %d goroutines are still inside the retry / hedge policy 15s after every execution returned, e.g.\n%s", stuck, sample)
		}
	}
}

func runHedgedRetry(t harness.TB, st *harness.Stats, sc hedgedScen) {
	const test = "TestHedgedRetryEvents"
	{
		var mu sync.Mutex
		counts := map[string]int{}
		hit := func(name string) {
			mu.Lock()
			counts[name]++
			mu.Unlock()
		}
		type parkedInv struct{ gate chan struct{} }
		var parked []*parkedInv
		entered, returned := 0, 0
		finished := false
		var timeProblems []string
		fn := func(exec failsafe.Execution[int]) (int, error) {
			p := &parkedInv{gate: make(chan struct{})}
			el0 := exec.ElapsedAttemptTime()
			mu.Lock()
			entered++
			parked = append(parked, p)
			mu.Unlock()
			defer func() {
				// C17: elapsed times are monotone, also while other branches of the execution retry
				if el1 := exec.ElapsedAttemptTime(); el1 < el0 {
					mu.Lock()
					timeProblems = append(timeProblems, fmt.Sprintf("ElapsedAttemptTime went from %v on entry to %v before returning", el0, el1))
					mu.Unlock()
				}
			}()
			select {
			case <-p.gate:
			case <-exec.Canceled():
				mu.Lock()
				for i, q := range parked {
					if q == p {
						parked = append(parked[:i], parked[i+1:]...)
						break
					}
				}
				counts["abandoned"]++
				mu.Unlock()
				return 0, compose.EA
			}
			mu.Lock()
			returned++
			n := returned
			mu.Unlock()
			if sc.SucceedAt != 0 && n == sc.SucceedAt {
				return 7, nil
			}
			return 0, compose.EA
		}
		// every result the policy classifies goes through this predicate: a failure verdict and the policy's OnFailure event
		// go together, whatever the other branches of the execution are doing meanwhile
		rb := retrypolicy.Builder[int]().WithMaxRetries(sc.MaxRetries).
			HandleIf(func(_ int, err error) bool {
				if err != nil {
					hit("classified-as-failure")
				}
				return err != nil
			}).
			OnFailure(func(failsafe.ExecutionEvent[int]) { hit("retry.OnFailure") }).
			OnRetryScheduled(func(failsafe.ExecutionScheduledEvent[int]) { hit("OnRetryScheduled") }).
			OnRetry(func(failsafe.ExecutionEvent[int]) { hit("OnRetry") }).
			OnRetriesExceeded(func(failsafe.ExecutionEvent[int]) { hit("OnRetriesExceeded") }).
			OnAbort(func(failsafe.ExecutionEvent[int]) { hit("OnAbort") })
		if sc.ReturnLast {
			rb.ReturnLastFailure()
		}
		if sc.SlowAbortUs > 0 {
			rb.AbortIf(func(int, error) bool {
				for end := time.Now().Add(time.Duration(sc.SlowAbortUs) * time.Microsecond); time.Now().Before(end); {
				}
				return false
			})
		}
		hp := hedgepolicy.BuilderWithDelay[int](time.Microsecond).WithMaxHedges(sc.MaxHedges).
			CancelIf(func(_ int, err error) bool { return err == nil }).
			OnHedge(func(failsafe.ExecutionEvent[int]) { hit("OnHedge") }).Build()
		ex := failsafe.NewExecutor[int](hp, rb.Build()).
			OnDone(func(failsafe.ExecutionDoneEvent[int]) { hit("OnDone") }).
			OnSuccess(func(failsafe.ExecutionDoneEvent[int]) { hit("OnSuccess") }).
			OnFailure(func(failsafe.ExecutionDoneEvent[int]) { hit("OnFailure") })
		var v int
		var err error
		doneCh := make(chan struct{})
		go func() {
			defer close(doneCh)
			if sc.Async {
				v, err = ex.GetWithExecutionAsync(fn).Get()
			} else {
				v, err = ex.GetWithExecution(fn)
			}
			mu.Lock()
			finished = true
			mu.Unlock()
		}()
		isDone := func() bool {
			select {
			case <-doneCh:
				return true
			default:
				return false
			}
		}
		// all hedges start (the delay is a microsecond) and park
		w := harness.Wait(20 * time.Second)
		for !w.Expired() {
			mu.Lock()
			n := entered
			mu.Unlock()
			if n >= sc.MaxHedges+1 || isDone() {
				break
			}
			time.Sleep(20 * time.Microsecond)
		}
		maxConc := 0
		for step := 0; !isDone(); step++ {
			mu.Lock()
			n := len(parked)
			if n > maxConc {
				maxConc = n
			}
			var rel []*parkedInv
			switch {
			case n == 0:
			case sc.Burst:
				rel, parked = parked, nil
			default:
				i := sc.Order[step%len(sc.Order)] % n
				rel = []*parkedInv{parked[i]}
				parked = append(parked[:i], parked[i+1:]...)
			}
			before := entered
			mu.Unlock()
			for _, p := range rel {
				close(p.gate)
			}
			// let the consequences happen: a retry re-enters the function, or the execution ends; an attempt that merely
			// hands its result to the hedge policy leaves nothing to wait for, hence the settle time
			settle := harness.Wait(400 * time.Microsecond)
			for !settle.Expired() && !isDone() {
				mu.Lock()
				moved := entered > before
				mu.Unlock()
				if moved && !sc.Burst {
					break
				}
				time.Sleep(10 * time.Microsecond)
			}
			if step > 400 {
				harness.Violation(t, cfg.Prop, test, "hedged-retry-hangs", sc, "%+v: the execution had not finished after 400 releases; events %v", sc, counts)
			}
		}
		select {
		case <-doneCh:
		case <-harness.After(30 * time.Second):
			harness.Violation(t, cfg.Prop, test, "hedged-retry-hangs", sc, "%+v: the call did not return", sc)
		}
		// abandoned attempts may still be on their way into the function or through their listeners: a hedge that was
		// announced just before the execution ended enters the function whenever its goroutine gets to run
		var c map[string]int
		var ent int
		for settle := harness.Wait(10 * time.Second); ; {
			time.Sleep(300 * time.Microsecond)
			mu.Lock()
			c = map[string]int{}
			for k, n := range counts {
				c[k] = n
			}
			ent = entered
			mu.Unlock()
			if ent >= 1+c["OnHedge"]+c["OnRetry"] || settle.Expired() {
				break
			}
		}
		_ = finished
		bad := func(sig, f string, a ...any) {
			harness.Violation(t, cfg.Prop, test, sig, sc, "%+v (result %d,%v; %d invocations): %s; events %v", sc, v, err, ent, fmt.Sprintf(f, a...), c)
		}
		// (a result that reaches the retry policy after another branch has exhausted it passes through unclassified, as in
		// nested retries, so a returned error does not imply OnFailure here; a nil error does imply OnSuccess)
		if c["OnDone"] != 1 || c["OnSuccess"]+c["OnFailure"] != 1 || (err == nil && c["OnSuccess"] != 1) {
			bad("hedged-completion-events", "completion events do not match the result")
		}
		if c["OnRetriesExceeded"] > 1 {
			bad("retries-exceeded-twice", "OnRetriesExceeded fired %d times for one execution", c["OnRetriesExceeded"])
		}
		var exc retrypolicy.ExceededError
		if errors.As(err, &exc) && c["OnRetriesExceeded"] != 1 {
			bad("exceeded-error-without-event", "the caller received ExceededError but OnRetriesExceeded fired %d times", c["OnRetriesExceeded"])
		}
		if c["OnAbort"] != 0 {
			bad("abort-without-abort-condition", "OnAbort fired %d times with no abort condition configured", c["OnAbort"])
		}
		// (a branch the hedge policy abandoned may still be on its way from the predicate to the listener when the call has
		// long returned: the two counts are compared once they agree or have had 5 s of process time to do so)
		for w := harness.Wait(5 * time.Second); c["retry.OnFailure"] != c["classified-as-failure"] && !w.Expired(); {
			time.Sleep(200 * time.Microsecond)
			mu.Lock()
			c["retry.OnFailure"], c["classified-as-failure"] = counts["retry.OnFailure"], counts["classified-as-failure"]
			mu.Unlock()
		}
		if c["retry.OnFailure"] != c["classified-as-failure"] {
			bad("policy-failure-event", "the retry policy classified %d results as failures but its OnFailure listener fired %d times", c["classified-as-failure"], c["retry.OnFailure"])
		}
		if c["OnRetry"] > c["OnRetryScheduled"] {
			bad("retry-without-schedule", "OnRetry %d > OnRetryScheduled %d", c["OnRetry"], c["OnRetryScheduled"])
		}
		if c["OnRetry"] > sc.MaxRetries {
			// C02: the budget belongs to the execution, however many branches of it are inside the policy
			bad("retries-over-budget", "OnRetry fired %d times with max retries %d", c["OnRetry"], sc.MaxRetries)
		}
		mu.Lock()
		tp := append([]string(nil), timeProblems...)
		mu.Unlock()
		if len(tp) > 0 {
			bad("attempt-elapsed-backwards", "%s", tp[0])
		}
		if c["OnHedge"] > sc.MaxHedges {
			bad("too-many-hedges", "OnHedge fired %d times with max hedges %d", c["OnHedge"], sc.MaxHedges)
		}
		if ent != 1+c["OnHedge"]+c["OnRetry"] {
			bad("invocations-vs-events", "%d invocations, but 1 + %d hedges + %d retries were announced", ent, c["OnHedge"], c["OnRetry"])
		}
		b, _ := json.Marshal(sc)
		st.Case(string(b), maxConc >= 2 && c["OnRetryScheduled"]+c["OnRetriesExceeded"] > 0, fmt.Sprintf("burst=%v", sc.Burst), fmt.Sprintf("exceeded=%d", c["OnRetriesExceeded"]))
		st.Sample(string(b), func() any { return sc })
	}
}
