//go:build verif

// Package c16 checks property C16: events are emitted exactly once per occurrence and tell a consistent story.
package c16

import (
	"strings"
	"testing"

	"pgregory.net/rapid"

	"verif/harness"
	"verif/harness/compose"
)

// C16 claims every listener of every policy and of the executor: which fire, how many times, in which causal order, with
// which result payload. (The statistics carried in the payloads belong to C17.)
var cfg = compose.PropCfg{
	Prop: "C16", Test: "TestEvents",
	Opts: func(t *rapid.T) compose.GenOpts {
		o := compose.DefaultOpts()
		if harness.Thorough() {
			o.MaxStack, o.MaxPool, o.MaxSteps, o.MaxScript = 6, 6, 8, 8
		}
		return o
	},
	Want: func(cat string) bool { return strings.HasPrefix(cat, "events/") || cat == "liveness" },
	Nontrivial: func(sc compose.Scenario, sr *compose.ScenarioResult) bool {
		special := false
		for _, a := range []string{"retry-abort", "retry-exceeded", "breaker-reject", "bulkhead-full", "limiter-reject", "cache-hit", "fallback", "timeout-fired"} {
			if sr.Actions[a] > 0 {
				special = true
			}
		}
		nestedRetry := 0
		for _, p := range sc.Stack {
			if sc.Pool[p].Kind == "retry" {
				nestedRetry++
			}
		}
		return len(sr.EventKinds) >= 3 && (special || (nestedRetry >= 2 && sr.Actions["retry"] > 0))
	},
	Classes: func(sc compose.Scenario, sr *compose.ScenarioResult) []string {
		var out []string
		for k := range sr.EventKinds {
			out = append(out, "listener="+k)
		}
		return out
	},
}

func TestEvents(t *testing.T) {
	st := harness.NewStats("TestEvents")
	defer st.Flush()
	rapid.Check(t, func(t *rapid.T) {
		// listeners always on here: they are the subject
		sc := compose.GenScenario(t, cfg.Opts(t))
		sr := compose.Check(t, cfg.Prop, cfg.Test, sc, false, cfg.Want)
		cfg.Record(st, sc, sr)
	})
}

func TestRegress(t *testing.T) {
	st := harness.NewStats("TestRegress")
	defer st.Flush()
	cfg.Regress(t, st, "../../regress/c16")
}
