//go:build verif

package c05

import (
	"context"
	"encoding/json"
	"errors"
	"fmt"
	"math"
	"os"
	"path/filepath"
	"runtime"
	"sort"
	"strings"
	"sync"
	"sync/atomic"
	"testing"
	"time"

	"github.com/failsafe-go/failsafe-go"
	"github.com/failsafe-go/failsafe-go/ratelimiter"
	"pgregory.net/rapid"

	"verif/harness"
	"verif/harness/rlmodel"
)

const prop = "C05"

// ---------------------------------------------------------------------------------------------------------------------
// configuration and history

type cfg struct {
	Kind string `json:"kind"` // smooth | bursty
	Unit int64  `json:"unit"` // interval (smooth) or period (bursty), ns
	Max  int    `json:"max"`  // bursty: permits per period
	// Form: how the limiter is constructed. 0: SmoothBuilderWithMaxRate / BurstyBuilder; 1: smooth through
	// SmoothBuilder(n, n*interval), documented as "rate = period / maxExecutions"; 2: the constructors without a builder
	// (SmoothWithMaxRate, Bursty; Smooth(n, n*interval)) where no further setting is needed
	Form int `json:"form,omitempty"`
	N    int `json:"n,omitempty"` // maxExecutions for the (n, period) forms
}

func (c cfg) String() string {
	if c.Kind == "smooth" {
		return fmt.Sprintf("smooth(interval=%d)", c.Unit)
	}
	return fmt.Sprintf("bursty(max=%d,period=%d)", c.Max, c.Unit)
}

type op struct {
	T   int64  `json:"t"`             // instant of the call on the virtual stopwatch
	Op  string `json:"op"`            // try | reserve | tryreserve
	N   int    `json:"n"`             // permits (1 uses the single-permit method when One is set)
	One bool   `json:"one,omitempty"` // use TryAcquirePermit / ReservePermit / TryReservePermit
	MW  int64  `json:"mw,omitempty"`  // max wait for tryreserve
	Got int64  `json:"got"`           // observed: wait, or -1 refused (try: 0 granted, -1 refused)
	Adv string `json:"adv,omitempty"`
}

type limiter struct {
	c   cfg
	now int64
	rl  ratelimiter.RateLimiter[int]
	// readDelay makes the limiter's reading of its clock take that long (as when another caller holds its lock); lastRead
	// is the real instant at which the last reading was delivered
	readDelay time.Duration
	lastRead  time.Time
}

func newLimiter(c cfg, b func(ratelimiter.RateLimiterBuilder[int])) *limiter {
	l := &limiter{c: c}
	var bld ratelimiter.RateLimiterBuilder[int]
	n := max(c.N, 1)
	switch {
	case c.Kind == "smooth" && c.Form >= 1:
		bld = ratelimiter.SmoothBuilder[int](uint(n), time.Duration(c.Unit)*time.Duration(n))
	case c.Kind == "smooth":
		bld = ratelimiter.SmoothBuilderWithMaxRate[int](time.Duration(c.Unit))
	default:
		bld = ratelimiter.BurstyBuilder[int](uint(c.Max), time.Duration(c.Unit))
	}
	if b != nil {
		b(bld)
	}
	l.rl = bld.Build()
	if b == nil && c.Form == 2 {
		switch {
		case c.Kind == "smooth" && c.N > 0:
			l.rl = ratelimiter.Smooth[int](uint(n), time.Duration(c.Unit)*time.Duration(n))
		case c.Kind == "smooth":
			l.rl = ratelimiter.SmoothWithMaxRate[int](time.Duration(c.Unit))
		default:
			l.rl = ratelimiter.Bursty[int](uint(c.Max), time.Duration(c.Unit))
		}
	}
	ratelimiter.VerifSetStopwatch[int](l.rl, func() time.Duration {
		if l.readDelay > 0 {
			time.Sleep(l.readDelay)
		}
		l.lastRead = time.Now()
		return time.Duration(l.now)
	})
	return l
}

type model = rlmodel.Model

func newModel(c cfg) model {
	if c.Kind == "smooth" {
		return rlmodel.NewSmooth(c.Unit)
	}
	return rlmodel.NewBursty(c.Max, c.Unit)
}

// call performs the operation on the real limiter at instant o.T and returns the normalised response.
func (l *limiter) call(o *op) int64 {
	l.now = o.T
	switch o.Op {
	case "try":
		var ok bool
		if o.One && o.N == 1 {
			ok = l.rl.TryAcquirePermit()
		} else {
			ok = l.rl.TryAcquirePermits(uint(o.N))
		}
		if ok {
			return 0
		}
		return -1
	case "reserve":
		if o.One && o.N == 1 {
			return int64(l.rl.ReservePermit())
		}
		return int64(l.rl.ReservePermits(uint(o.N)))
	case "tryreserve":
		if o.One && o.N == 1 {
			return int64(l.rl.TryReservePermit(time.Duration(o.MW)))
		}
		return int64(l.rl.TryReservePermits(uint(o.N), time.Duration(o.MW)))
	}
	panic("bad op " + o.Op)
}

func modelCall(m model, o *op) int64 {
	switch o.Op {
	case "try":
		if m.Acquire(o.T, o.N, 0) == 0 {
			return 0
		}
		return -1
	case "reserve":
		return m.Acquire(o.T, o.N, -1)
	default:
		return m.Acquire(o.T, o.N, o.MW)
	}
}

// ---------------------------------------------------------------------------------------------------------------------
// model-free invariants over all grants of a history (second, independent oracle)

func checkGrantInvariants(c cfg, ops []op) error {
	type grant struct {
		cur, last int64
		n         int
	}
	var gs []grant
	for i, o := range ops {
		if o.Got < 0 {
			continue
		}
		usable := o.T + o.Got
		if o.Got > 0 && usable%c.Unit != 0 {
			return fmt.Errorf("op %d: positive wait %d from t=%d does not end on a slot/period start (unit %d)", i, o.Got, o.T, c.Unit)
		}
		gs = append(gs, grant{cur: o.T / c.Unit, last: usable / c.Unit, n: o.N})
	}
	for i := 1; i < len(gs); i++ {
		if gs[i].last < gs[i-1].last {
			return fmt.Errorf("grant %d becomes usable in unit %d, before the earlier grant's unit %d (order of requests not respected)", i, gs[i].last, gs[i-1].last)
		}
	}
	if c.Kind == "smooth" {
		// a grant of n permits occupies the n slots ending at its last slot; no slot may be used twice, none may lie
		// before the request instant's slot
		occupied := map[int64]int{}
		for i, g := range gs {
			if g.last-int64(g.n)+1 < g.cur {
				return fmt.Errorf("grant %d: %d permits ending in slot %d would start before the request's slot %d", i, g.n, g.last, g.cur)
			}
			for s := g.last - int64(g.n) + 1; s <= g.last; s++ {
				if j, dup := occupied[s]; dup {
					return fmt.Errorf("slot %d used by grant %d and grant %d: more than one permit per interval", s, j, i)
				}
				occupied[s] = i
			}
		}
		return nil
	}
	// bursty: the permits of a grant lie in periods [cur, last]; for every window of periods [a,b] the permits of the
	// grants that lie entirely inside it cannot exceed max*(b-a+1)
	for ai := range gs {
		a := gs[ai].cur
		bs := map[int64]bool{}
		for _, g := range gs {
			if g.last >= a {
				bs[g.last] = true
			}
		}
		for b := range bs {
			total := 0
			for _, g := range gs {
				if g.cur >= a && g.last <= b {
					total += g.n
				}
			}
			if int64(total) > int64(c.Max)*(b-a+1) {
				return fmt.Errorf("periods %d..%d: %d permits usable, limit %d per period", a, b, total, c.Max)
			}
		}
	}
	return nil
}

// ---------------------------------------------------------------------------------------------------------------------
// generators

func genCfg(t *rapid.T, kind string) cfg {
	c := cfg{Kind: kind}
	switch rapid.IntRange(0, 3).Draw(t, "unitClass") {
	case 0:
		c.Unit = rapid.Int64Range(1, 10).Draw(t, "unit")
	case 1:
		c.Unit = rapid.Int64Range(1, 1000).Draw(t, "unit")
	case 2:
		c.Unit = rapid.Int64Range(1, int64(time.Second)).Draw(t, "unit")
	default:
		c.Unit = rapid.Int64Range(1, int64(time.Hour)).Draw(t, "unit")
	}
	if kind == "bursty" {
		if rapid.Bool().Draw(t, "smallMax") {
			c.Max = rapid.IntRange(1, 3).Draw(t, "max")
		} else {
			c.Max = rapid.IntRange(1, 20).Draw(t, "max")
		}
	}
	c.Form = rapid.IntRange(0, 2).Draw(t, "form")
	if kind == "smooth" && c.Form >= 1 && c.Unit < int64(time.Hour) {
		c.N = rapid.IntRange(0, 1000).Draw(t, "n") // period = n * interval stays far below the int64 range
	}
	if c.Form == 1 && c.N == 0 {
		c.Form = 0
	}
	return c
}

// genOp draws the next operation given the current instant and a throw-away copy of the model (used only to aim at
// boundaries: the pending wait, the refusal threshold).
func genOp(t *rapid.T, c cfg, now int64, m model, lastUsable int64) op {
	o := op{}
	u := c.Unit
	advs := []string{"0", "unit-1", "unit", "unit+1", "rand", "gap", "toPending", "toPending-1", "toBoundary", "toBoundary-1"}
	o.Adv = rapid.SampledFrom(advs).Draw(t, "adv")
	var d int64
	switch o.Adv {
	case "0":
	case "unit-1":
		d = u - 1
	case "unit":
		d = u
	case "unit+1":
		d = u + 1
	case "rand":
		d = rapid.Int64Range(0, 3*u).Draw(t, "d")
	case "gap":
		d = u * rapid.Int64Range(1, 60).Draw(t, "gapUnits")
		if rapid.Bool().Draw(t, "gapOff") {
			d += rapid.Int64Range(0, u-1).Draw(t, "gapOffset")
		}
	case "toPending":
		if lastUsable > now {
			d = lastUsable - now
		}
	case "toPending-1":
		if lastUsable-1 > now {
			d = lastUsable - 1 - now
		}
	case "toBoundary":
		d = u - now%u
	case "toBoundary-1":
		d = u - now%u - 1
	}
	o.T = now + d
	maxN := 6
	if c.Kind == "bursty" {
		maxN = 3 * c.Max
	}
	if rapid.Bool().Draw(t, "single") {
		o.N = 1
		o.One = rapid.Bool().Draw(t, "oneMethod")
	} else {
		o.N = rapid.IntRange(1, maxN).Draw(t, "n")
	}
	o.Op = rapid.SampledFrom([]string{"try", "reserve", "tryreserve", "tryreserve"}).Draw(t, "op")
	if o.Op == "tryreserve" {
		pred := m.Clone().Acquire(o.T, o.N, -1)
		switch rapid.IntRange(0, 7).Draw(t, "mwClass") {
		case 7:
			// "wait as long as it takes", written as the largest duration (or nearly): never a refusal
			o.MW = math.MaxInt64 - rapid.SampledFrom([]int64{0, 0, 1, u, 1000}).Draw(t, "mwBelowMax")
		case 0:
			o.MW = 0
		case 1:
			o.MW = pred
		case 2:
			if pred > 0 {
				o.MW = pred - 1
			}
		case 3:
			o.MW = pred + 1
		case 4:
			o.MW = u * rapid.Int64Range(0, 4).Draw(t, "mwUnits")
		default:
			o.MW = rapid.Int64Range(0, 4*u).Draw(t, "mw")
		}
	}
	return o
}

type histClass struct {
	waited, refusedThenGranted, gapAfterDeficit, boundary, multi bool
}

func (h histClass) nontrivial() bool {
	return h.waited && (h.refusedThenGranted || h.gapAfterDeficit || h.boundary)
}

// ---------------------------------------------------------------------------------------------------------------------
// the sequential property: lock-step with the model, then the grant invariants

func fail(t harness.TB, test, sig string, c cfg, ops []op, format string, args ...any) {
	t.Helper()
	harness.Violation(t, prop, test, sig, map[string]any{"cfg": c, "ops": ops}, "%s: %s", c, fmt.Sprintf(format, args...))
}

func runHistory(t harness.TB, test string, c cfg, next func(i int, now int64, m model, lastUsable int64) (op, bool)) ([]op, histClass) {
	l := newLimiter(c, nil)
	m := newModel(c)
	var ops []op
	var cl histClass
	var now, lastUsable int64
	sawRefusal, deficit := false, false
	for i := 0; ; i++ {
		o, ok := next(i, now, m, lastUsable)
		if !ok {
			break
		}
		if o.T < now {
			o.T = now
		}
		if deficit && o.T-now >= c.Unit {
			cl.gapAfterDeficit = true
		}
		now = o.T
		want := modelCall(m, &o)
		o.Got = l.call(&o)
		ops = append(ops, o)
		if o.Got != want {
			fail(t, test, "model-mismatch:"+c.Kind, c, ops, "op %d at t=%d %s(n=%d,mw=%d) returned %d, model %d (model state %s)", i, o.T, o.Op, o.N, o.MW, o.Got, want, m)
		}
		if o.Got > 0 {
			cl.waited = true
		}
		if o.Got < 0 {
			sawRefusal = true
		} else {
			if sawRefusal {
				cl.refusedThenGranted = true
			}
			if o.T+o.Got > lastUsable {
				lastUsable = o.T + o.Got
			}
		}
		deficit = lastUsable >= (now/c.Unit+1)*c.Unit
		if o.T%c.Unit == 0 || (o.Adv == "toPending" || o.Adv == "toPending-1" || o.Adv == "toBoundary-1") {
			cl.boundary = true
		}
		if o.N > 1 {
			cl.multi = true
		}
	}
	if err := checkGrantInvariants(c, ops); err != nil {
		fail(t, test, "grant-invariant:"+c.Kind, c, ops, "%v", err)
	}
	return ops, cl
}

func abstractKey(c cfg, ops []op) string {
	var sb strings.Builder
	fmt.Fprintf(&sb, "%s/%d/", c.Kind, c.Max)
	for _, o := range ops {
		r := "g"
		if o.Got < 0 {
			r = "r"
		} else if o.Got > 0 {
			r = "w"
		}
		fmt.Fprintf(&sb, "%s:%s:%d:%s;", o.Adv, o.Op, o.N, r)
	}
	return sb.String()
}

func historyProperty(test, kind string, st *harness.Stats) func(*rapid.T) {
	return func(t *rapid.T) {
		c := genCfg(t, kind)
		maxSteps := 40
		if harness.Thorough() {
			maxSteps = 80
		}
		steps := rapid.IntRange(1, maxSteps).Draw(t, "steps")
		ops, cl := runHistory(t, test, c, func(i int, now int64, m model, lastUsable int64) (op, bool) {
			if i >= steps {
				return op{}, false
			}
			return genOp(t, c, now, m, lastUsable), true
		})
		key := abstractKey(c, ops)
		classes := []string{"kind=" + kind}
		if cl.waited {
			classes = append(classes, "waited")
		}
		if cl.refusedThenGranted {
			classes = append(classes, "refused-then-granted")
		}
		if cl.gapAfterDeficit {
			classes = append(classes, "idle-gap-after-deficit")
		}
		if cl.boundary {
			classes = append(classes, "boundary-instant")
		}
		st.Case(key, cl.nontrivial(), classes...)
		if cl.nontrivial() {
			st.Sample(key, func() any { return map[string]any{"cfg": c.String(), "ops": ops} })
		}
	}
}

func TestSmoothHistory(t *testing.T) {
	st := harness.NewStats("TestSmoothHistory")
	defer st.Flush()
	rapid.Check(t, historyProperty("TestSmoothHistory", "smooth", st))
}

func TestBurstyHistory(t *testing.T) {
	st := harness.NewStats("TestBurstyHistory")
	defer st.Flush()
	rapid.Check(t, historyProperty("TestBurstyHistory", "bursty", st))
}

// FuzzHistory drives the same property from Go's coverage-guided fuzzer (thorough tier only).
func FuzzHistory(f *testing.F) {
	st := harness.NewStats("FuzzHistory")
	pS := historyProperty("FuzzHistory", "smooth", st)
	pB := historyProperty("FuzzHistory", "bursty", st)
	f.Fuzz(rapid.MakeFuzz(func(t *rapid.T) {
		if rapid.Bool().Draw(t, "bursty") {
			pB(t)
		} else {
			pS(t)
		}
	}))
}

// ---------------------------------------------------------------------------------------------------------------------
// metamorphic relations (no model involved): deleting refused requests changes nothing; k permits == k singles

func replay(c cfg, ops []op) []op {
	l := newLimiter(c, nil)
	out := make([]op, len(ops))
	for i, o := range ops {
		o.Got = l.call(&o)
		out[i] = o
	}
	return out
}

func TestMetamorphic(t *testing.T) {
	const test = "TestMetamorphic"
	st := harness.NewStats(test)
	defer st.Flush()
	rapid.Check(t, func(t *rapid.T) {
		kind := rapid.SampledFrom([]string{"smooth", "bursty"}).Draw(t, "kind")
		c := genCfg(t, kind)
		steps := rapid.IntRange(2, 30).Draw(t, "steps")
		m := newModel(c)
		var ops []op
		var now, lastUsable int64
		for i := 0; i < steps; i++ {
			o := genOp(t, c, now, m, lastUsable)
			now = o.T
			if w := modelCall(m, &o); w >= 0 && o.T+w > lastUsable {
				lastUsable = o.T + w
			}
			ops = append(ops, o)
		}
		base := replay(c, ops)

		// (1) refusals are no-ops
		var kept []op
		refusals := 0
		for _, o := range base {
			if o.Got >= 0 {
				kept = append(kept, o)
			} else {
				refusals++
			}
		}
		again := replay(c, kept)
		for i := range kept {
			if again[i].Got != kept[i].Got {
				fail(t, test, "refusal-not-noop:"+kind, c, base, "after deleting %d refused requests, request at t=%d %s(n=%d) returns %d instead of %d", refusals, kept[i].T, kept[i].Op, kept[i].N, again[i].Got, kept[i].Got)
			}
		}

		// (2) a granted k-permit request == k single requests at the same instant, waiting for the last
		split := -1
		cands := []int{}
		for i, o := range base {
			if o.Got >= 0 && o.N > 1 {
				cands = append(cands, i)
			}
		}
		if len(cands) > 0 {
			split = cands[rapid.IntRange(0, len(cands)-1).Draw(t, "split")]
			var alt []op
			for i, o := range base {
				if i == split {
					for k := 0; k < o.N; k++ {
						alt = append(alt, op{T: o.T, Op: "reserve", N: 1, One: k%2 == 0})
					}
				} else {
					alt = append(alt, o)
				}
			}
			res := replay(c, alt)
			k := base[split].N
			if got := res[split+k-1].Got; got != base[split].Got {
				fail(t, test, "k-vs-singles:"+kind, c, base, "op %d: %d permits at once wait %d, %d single permits wait %d for the last", split, k, base[split].Got, k, got)
			}
			for i := 1; i < k; i++ {
				if res[split+i].Got < res[split+i-1].Got {
					fail(t, test, "k-vs-singles:"+kind, c, base, "single permits at one instant got decreasing waits %d then %d", res[split+i-1].Got, res[split+i].Got)
				}
			}
			for i := split + 1; i < len(base); i++ {
				if res[i+k-1].Got != base[i].Got {
					fail(t, test, "k-vs-singles:"+kind, c, base, "after replacing op %d (%d permits) by singles, op %d returns %d instead of %d", split, k, i, res[i+k-1].Got, base[i].Got)
				}
			}
		}
		nt := refusals > 0 && len(kept) > 0 || split >= 0
		key := abstractKey(c, base) + fmt.Sprint(split)
		st.Case(key, nt, "kind="+kind, fmt.Sprintf("refusals>0=%v", refusals > 0), fmt.Sprintf("split=%v", split >= 0))
		if nt {
			st.Sample(key, func() any { return map[string]any{"cfg": c.String(), "ops": base, "split_op": split} })
		}
	})
}

// ---------------------------------------------------------------------------------------------------------------------
// concurrent callers at frozen instants: the observed responses must be explained by some serial order of the model

type creq struct {
	o    op
	done bool
}

func linearize(m model, reqs []creq, left int) bool {
	if left == 0 {
		return true
	}
	tried := map[string]bool{}
	for i := range reqs {
		if reqs[i].done {
			continue
		}
		o := reqs[i].o
		k := fmt.Sprintf("%s/%d/%d/%d", o.Op, o.N, o.MW, o.Got)
		if tried[k] {
			continue
		}
		tried[k] = true
		mc := m.Clone()
		if modelCall(mc, &o) != o.Got {
			continue
		}
		reqs[i].done = true
		if linearize(mc, reqs, left-1) {
			// commit: copy state back
			switch mm := m.(type) {
			case *rlmodel.Smooth:
				*mm = *(mc.(*rlmodel.Smooth))
			case *rlmodel.Bursty:
				*mm = *(mc.(*rlmodel.Bursty))
			}
			reqs[i].done = false
			return true
		}
		reqs[i].done = false
	}
	return false
}

func TestConcurrentCallers(t *testing.T) {
	const test = "TestConcurrentCallers"
	st := harness.NewStats(test)
	defer st.Flush()
	rapid.Check(t, func(t *rapid.T) {
		kind := rapid.SampledFrom([]string{"smooth", "bursty"}).Draw(t, "kind")
		c := genCfg(t, kind)
		l := newLimiter(c, nil)
		m := newModel(c)
		rounds := rapid.IntRange(1, 5).Draw(t, "rounds")
		var all []op
		var now, lastUsable int64
		contended := false
		for r := 0; r < rounds; r++ {
			g := rapid.IntRange(2, 7).Draw(t, "callers")
			first := genOp(t, c, now, m, lastUsable)
			now = first.T
			reqs := make([]creq, g)
			for i := range reqs {
				o := first
				if i > 0 {
					o = genOp(t, c, now, m, lastUsable)
					o.T, o.Adv = now, "same"
				}
				reqs[i].o = o
			}
			l.now = now
			var wg sync.WaitGroup
			start := make(chan struct{})
			for i := range reqs {
				wg.Add(1)
				go func(o *op) {
					defer wg.Done()
					<-start
					o.Got = l.call(o) // l.now is not written while the callers run
				}(&reqs[i].o)
			}
			close(start)
			wg.Wait()
			granted, refused := 0, 0
			for i := range reqs {
				all = append(all, reqs[i].o)
				if reqs[i].o.Got >= 0 {
					granted++
					if u := now + reqs[i].o.Got; u > lastUsable {
						lastUsable = u
					}
				} else {
					refused++
				}
			}
			if granted > 0 && refused > 0 {
				contended = true
			}
			if !linearize(m, reqs, len(reqs)) {
				fail(t, test, "not-linearizable:"+kind, c, all, "round %d at t=%d: no serial order of the %d concurrent requests explains the responses (model state before the round: %s)", r, now, g, m)
			}
		}
		if err := checkGrantInvariantsUnordered(c, all); err != nil {
			fail(t, test, "grant-invariant-concurrent:"+kind, c, all, "%v", err)
		}
		key := abstractKey(c, all)
		st.Case(key, contended, "kind="+kind, fmt.Sprintf("contended=%v", contended))
		if contended {
			st.Sample(key, func() any { return map[string]any{"cfg": c.String(), "ops": all} })
		}
	})
}

// for concurrent rounds the order inside a round is unknown: sort each instant's grants by usable time first
func checkGrantInvariantsUnordered(c cfg, ops []op) error {
	s := append([]op(nil), ops...)
	sort.SliceStable(s, func(i, j int) bool {
		if s[i].T != s[j].T {
			return s[i].T < s[j].T
		}
		return s[i].T+s[i].Got < s[j].T+s[j].Got
	})
	return checkGrantInvariants(c, s)
}

// ---------------------------------------------------------------------------------------------------------------------
// blocking acquires and executions: never successful before the wait elapsed; refusal leaves no trace; ctx error

func TestBlockingAcquire(t *testing.T) {
	const test = "TestBlockingAcquire"
	st := harness.NewStats(test)
	defer st.Flush()
	rapid.Check(t, func(t *rapid.T) {
		kind := rapid.SampledFrom([]string{"smooth", "bursty"}).Draw(t, "kind")
		c := cfg{Kind: kind, Unit: int64(rapid.IntRange(1, 4).Draw(t, "unitMs")) * int64(time.Millisecond)}
		if kind == "bursty" {
			c.Max = rapid.IntRange(1, 3).Draw(t, "max")
		}
		polMaxWait := int64(rapid.SampledFrom([]int{0, 1, 3, 8}).Draw(t, "polMaxWaitMs")) * int64(time.Millisecond)
		if rapid.IntRange(0, 5).Draw(t, "polWaitForever") == 0 {
			polMaxWait = math.MaxInt64 // "as long as it takes"
		}
		limited := 0
		l := newLimiter(c, func(b ratelimiter.RateLimiterBuilder[int]) {
			b.WithMaxWaitTime(time.Duration(polMaxWait)).OnRateLimitExceeded(func(failsafe.ExecutionEvent[int]) { limited++ })
		})
		m := newModel(c)
		l.now = rapid.Int64Range(0, 3*c.Unit).Draw(t, "t0")
		// preload so that a wait is pending
		pre := rapid.IntRange(0, 4).Draw(t, "preload")
		var hist []op
		for i := 0; i < pre; i++ {
			o := op{T: l.now, Op: "reserve", N: rapid.IntRange(1, 2).Draw(t, "preN")}
			o.Got = l.call(&o)
			if w := modelCall(m, &o); w != o.Got {
				fail(t, test, "model-mismatch:"+kind, c, hist, "preload reserve returned %d, model %d", o.Got, w)
			}
			hist = append(hist, o)
		}
		n := rapid.IntRange(1, 2).Draw(t, "n")
		api := rapid.SampledFrom([]string{"AcquirePermit", "AcquirePermits", "AcquirePermitWithMaxWait", "AcquirePermitsWithMaxWait", "Run", "GetAsync"}).Draw(t, "api")
		if api == "AcquirePermit" || api == "AcquirePermitWithMaxWait" || api == "Run" || api == "GetAsync" {
			n = 1
		}
		mw := int64(rapid.SampledFrom([]int{0, 1, 2, 5, 10, 20}).Draw(t, "mwMs")) * int64(time.Millisecond)
		if rapid.IntRange(0, 5).Draw(t, "waitForever") == 0 {
			mw = math.MaxInt64 - int64(rapid.IntRange(0, 1).Draw(t, "belowMax"))
		}
		ctxKind := rapid.SampledFrom([]string{"background", "background", "nil", "cancelled", "cancel-during", "deadline-during", "deadline-at-wait"}).Draw(t, "ctx")
		if api == "Run" || api == "GetAsync" {
			mw = polMaxWait
			if ctxKind == "nil" {
				ctxKind = "background"
			}
		}
		unbounded := api == "AcquirePermit" || api == "AcquirePermits"
		effMW := mw
		if unbounded {
			effMW = -1
		}
		want := m.Clone().Acquire(l.now, n, effMW)
		if want > int64(40*time.Millisecond) {
			t.Skip("predicted wait too long to sleep through")
		}
		var ctx context.Context
		cancel := func() {}
		switch ctxKind {
		case "background":
			ctx = context.Background()
		case "nil":
			ctx = nil
		case "cancelled":
			ctx, cancel = context.WithCancel(context.Background())
			cancel()
		case "cancel-during":
			ctx, cancel = context.WithCancel(context.Background())
			time.AfterFunc(time.Duration(want/2), cancel)
		case "deadline-during":
			// the caller's own deadline expires half way through the wait: that is not the permit becoming usable
			ctx, cancel = context.WithTimeout(context.Background(), time.Duration(want/2))
		case "deadline-at-wait":
			// ... or at the very instant the wait ends (either outcome is fine, but never an early success, here or in a
			// later wait that reuses anything this one left behind)
			ctx, cancel = context.WithTimeout(context.Background(), time.Duration(want))
		}
		defer cancel()
		invoked := 0
		// sometimes the limiter gets its clock reading late (another caller held its lock, the goroutine was descheduled):
		// the wait counts from that reading, not from the moment the call was made
		if rapid.IntRange(0, 3).Draw(t, "slowClockRead") == 0 {
			l.readDelay = time.Duration(rapid.SampledFrom([]int{500, 2000}).Draw(t, "readDelayUs")) * time.Microsecond
		}
		begin := time.Now()
		var err error
		switch api {
		case "AcquirePermit":
			err = l.rl.AcquirePermit(ctx)
		case "AcquirePermits":
			err = l.rl.AcquirePermits(ctx, uint(n))
		case "AcquirePermitWithMaxWait":
			err = l.rl.AcquirePermitWithMaxWait(ctx, time.Duration(mw))
		case "AcquirePermitsWithMaxWait":
			err = l.rl.AcquirePermitsWithMaxWait(ctx, uint(n), time.Duration(mw))
		case "Run":
			err = failsafe.NewExecutor[int](l.rl).WithContext(ctx).Run(func() error { invoked++; return nil })
		case "GetAsync":
			_, err = failsafe.NewExecutor[int](l.rl).WithContext(ctx).GetAsync(func() (int, error) { invoked++; return 1, nil }).Get()
		}
		elapsed := time.Since(begin)
		sinceRead := time.Since(l.lastRead)
		slowRead := l.readDelay > 0
		l.readDelay = 0
		scen := map[string]any{"cfg": c.String(), "preload": hist, "api": api, "n": n, "maxWait": mw, "ctx": ctxKind, "t": l.now, "predicted_wait": want, "err": fmt.Sprint(err), "elapsed_ns": elapsed.Nanoseconds()}
		bad := func(sig, f string, a ...any) {
			harness.Violation(t, prop, test, sig+":"+kind, scen, "%s api=%s n=%d mw=%d ctx=%s predicted wait %d: %s", c, api, n, mw, ctxKind, want, fmt.Sprintf(f, a...))
		}
		class := ""
		switch {
		case want < 0:
			// refused: ErrExceeded, function not invoked, listener told, limiter untouched
			class = "refused"
			if !errors.Is(err, ratelimiter.ErrExceeded) {
				bad("refusal-error", "expected ErrExceeded, got %v", err)
			}
			if invoked != 0 {
				bad("refused-but-invoked", "function invoked %d times", invoked)
			}
			if (api == "Run" || api == "GetAsync") && limited != 1 {
				bad("refusal-event", "OnRateLimitExceeded called %d times", limited)
			}
		case err == nil:
			class = "granted"
			m.Acquire(l.now, n, effMW)
			if elapsed < time.Duration(want) {
				bad("early-success", "returned nil after %v, before the wait of %v elapsed", elapsed, time.Duration(want))
			}
			if slowRead && sinceRead < time.Duration(want) {
				bad("early-success", "returned nil %v after the limiter read its clock, before the wait of %v it computed from that reading elapsed", sinceRead, time.Duration(want))
			}
			if (api == "Run" || api == "GetAsync") && invoked != 1 {
				bad("granted-not-invoked", "function invoked %d times", invoked)
			}
			if ctxKind == "cancelled" && want > 0 && !(api == "Run" || api == "GetAsync") {
				// both select arms may be ready only once the timer fired: with a cancelled context and a pending wait,
				// nil is possible only after the full wait (checked above)
				class = "granted-despite-cancelled"
			}
		default:
			class = "ctx-error"
			m.Acquire(l.now, n, effMW) // the reservation was made before waiting
			byDeadline := ctxKind == "deadline-during" || ctxKind == "deadline-at-wait"
			if ctxKind != "cancelled" && ctxKind != "cancel-during" && !byDeadline {
				bad("unexpected-error", "unexpected error %v", err)
			}
			if byDeadline && !errors.Is(err, context.DeadlineExceeded) {
				bad("unexpected-error", "expected context.DeadlineExceeded, got %v", err)
			}
			if !byDeadline && !errors.Is(err, context.Canceled) {
				bad("unexpected-error", "expected context.Canceled, got %v", err)
			}
			if invoked != 0 {
				bad("cancelled-but-invoked", "function invoked %d times after its wait was cancelled", invoked)
			}
		}
		// the limiter's state must be the model's: probe with an unbounded reservation
		probe := op{T: l.now, Op: "reserve", N: 1}
		probe.Got = l.call(&probe)
		if w := modelCall(m, &probe); w != probe.Got {
			bad("state-after-blocking", "probe reservation afterwards returned %d, model %d (outcome %s)", probe.Got, w, class)
		}
		nt := want != 0
		key := fmt.Sprintf("%s/%d/%d/%s/%d/%s/%s/%d", kind, c.Max, pre, api, n, ctxKind, class, mw/int64(time.Millisecond))
		st.Case(key, nt, "outcome="+class, "api="+api)
		if nt {
			st.Sample(key, func() any { return scen })
		}
	})
}

// ---------------------------------------------------------------------------------------------------------------------
// regression tier: saved minimal histories, replayed without the generator

type regressCase struct {
	Name string `json:"name"`
	Cfg  cfg    `json:"cfg"`
	Ops  []op   `json:"ops"`
}

func TestRegress(t *testing.T) {
	dir := os.Getenv("VERIF_REGRESS_DIR")
	if dir == "" {
		dir = "../../regress/c05"
	}
	files, _ := filepath.Glob(filepath.Join(dir, "*.json"))
	if p := os.Getenv("VERIF_REPLAY"); p != "" {
		files = []string{p}
	}
	st := harness.NewStats("TestRegress")
	defer st.Flush()
	for _, f := range files {
		b, err := os.ReadFile(f)
		if err != nil {
			t.Fatal(err)
		}
		var rc regressCase
		if err := json.Unmarshal(b, &rc); err != nil {
			// a violation record: the scenario is nested
			t.Fatalf("%s: %v", f, err)
		}
		if rc.Cfg.Kind == "" {
			var vr struct {
				Scenario regressCase `json:"scenario"`
			}
			_ = json.Unmarshal(b, &vr)
			rc = vr.Scenario
		}
		if rc.Cfg.Kind == "" || len(rc.Ops) == 0 {
			continue
		}
		ops, _ := runHistory(t, "TestRegress", rc.Cfg, func(i int, now int64, m model, lastUsable int64) (op, bool) {
			if i >= len(rc.Ops) {
				return op{}, false
			}
			return rc.Ops[i], true
		})
		st.Case(filepath.Base(f), true, "regress")
		st.Sample(filepath.Base(f), func() any { return map[string]any{"file": filepath.Base(f), "ops": ops} })
	}
}

// TestConcurrentHammer: the same linearizability oracle as TestConcurrentCallers, aimed at narrow windows: 3..8 persistent
// worker goroutines are released together by a spin barrier, a few hundred rounds per case, on a limiter whose next free
// slot is far away or just reached, with requests whose max wait lets only some of them through. Every round's responses
// must be explained by some serial order of the round's requests from the model state left by the previous rounds.
func TestConcurrentHammer(t *testing.T) {
	const test = "TestConcurrentHammer"
	st := harness.NewStats(test)
	defer st.Flush()
	rapid.Check(t, func(t *rapid.T) {
		kind := rapid.SampledFrom([]string{"smooth", "smooth", "bursty"}).Draw(t, "kind")
		c := cfg{Kind: kind, Unit: rapid.SampledFrom([]int64{1000, int64(time.Millisecond), int64(time.Hour)}).Draw(t, "unit")}
		if kind == "bursty" {
			c.Max = rapid.IntRange(1, 3).Draw(t, "max")
		}
		l := newLimiter(c, nil)
		m := newModel(c)
		workers := rapid.IntRange(3, 8).Draw(t, "workers")
		rounds := rapid.IntRange(50, 300).Draw(t, "rounds")
		// the per-round recipe is drawn once per case and cycled: what each worker asks for and how far the clock moves
		type recipe struct {
			Adv string `json:"adv"` // 0 | slot | half
			Ops []op   `json:"ops"`
		}
		var recipes []recipe
		for i, n := 0, rapid.IntRange(1, 4).Draw(t, "recipes"); i < n; i++ {
			r := recipe{Adv: rapid.SampledFrom([]string{"0", "slot", "slot", "half"}).Draw(t, "adv")}
			for w := 0; w < workers; w++ {
				o := op{N: 1, Op: rapid.SampledFrom([]string{"try", "tryreserve", "tryreserve"}).Draw(t, "op")}
				if o.Op == "tryreserve" {
					o.MW = c.Unit * int64(rapid.IntRange(0, 2).Draw(t, "mwUnits"))
				} else {
					o.One = rapid.Bool().Draw(t, "one")
				}
				r.Ops = append(r.Ops, o)
			}
			recipes = append(recipes, r)
		}
		var gen atomic.Int64 // round number the workers may run
		var fin atomic.Int64 // workers finished in the current round
		var stop atomic.Bool
		cur := make([]op, workers)
		var wg sync.WaitGroup
		for w := 0; w < workers; w++ {
			wg.Add(1)
			go func(w int) {
				defer wg.Done()
				seen := int64(0)
				for {
					for gen.Load() == seen {
						if stop.Load() {
							return
						}
						runtime.Gosched()
					}
					seen = gen.Load()
					cur[w].Got = l.call(&cur[w])
					fin.Add(1)
				}
			}(w)
		}
		var now int64
		contended := 0
		var failure string
		var hist []op
		for r := 0; r < rounds && failure == ""; r++ {
			rc := recipes[r%len(recipes)]
			switch rc.Adv {
			case "slot":
				now += c.Unit
			case "half":
				now += c.Unit / 2
			}
			l.now = now
			reqs := make([]creq, workers)
			for w := range cur {
				cur[w] = rc.Ops[w]
				cur[w].T = now
			}
			fin.Store(0)
			gen.Add(1)
			deadline := harness.Wait(20 * time.Second)
			for fin.Load() < int64(workers) {
				if deadline.Expired() {
					stop.Store(true)
					harness.Inconclusive(t, "workers did not finish a round within 20s")
				}
				runtime.Gosched()
			}
			granted, refused := 0, 0
			for w := range cur {
				reqs[w].o = cur[w]
				if cur[w].Got >= 0 {
					granted++
				} else {
					refused++
				}
			}
			if granted > 0 && refused > 0 {
				contended++
			}
			hist = append(hist, cur...)
			if len(hist) > 40 {
				hist = hist[len(hist)-40:]
			}
			if !linearize(m, reqs, len(reqs)) {
				failure = fmt.Sprintf("round %d at t=%d: no serial order of the %d concurrent requests explains the responses (model state before the round: %s)", r, now, workers, m)
			}
		}
		stop.Store(true)
		wg.Wait()
		if failure != "" {
			fail(t, test, "not-linearizable:"+kind, c, hist, "%s", failure)
		}
		b, _ := json.Marshal(map[string]any{"cfg": c, "workers": workers, "recipes": recipes})
		st.Case(string(b), contended > 0, "kind="+kind, fmt.Sprintf("contended-rounds>=10=%v", contended >= 10))
		if contended > 0 {
			st.Sample(string(b), func() any {
				return map[string]any{"cfg": c.String(), "workers": workers, "recipes": recipes, "rounds": rounds}
			})
		}
	})
}
