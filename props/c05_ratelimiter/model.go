// Package c05 checks property C05: the rate limiter never admits faster than configured, refusals cost nothing.
package c05

import "fmt"

// Reference model, written from the property text only: permits are assigned greedily to the earliest slots (smooth) or
// periods (bursty) that respect the rate and the order of requests; a call waits for its last permit; a call whose wait
// would exceed maxWait is refused and changes nothing. Times are int64 nanoseconds since the limiter was built.
type model interface {
	// acquire returns the wait, or -1 when refused. maxWait == -1 means unbounded.
	acquire(t int64, n int, maxWait int64) int64
	clone() model
	String() string
}

type smoothModel struct {
	interval int64
	next     int64 // index of the first unassigned slot
}

func (m *smoothModel) acquire(t int64, n int, maxWait int64) int64 {
	cur := t / m.interval
	first := m.next
	if cur > first {
		first = cur
	}
	last := first + int64(n) - 1
	wait := last*m.interval - t
	if wait < 0 {
		wait = 0
	}
	if maxWait != -1 && wait > maxWait {
		return -1
	}
	m.next = last + 1
	return wait
}
func (m *smoothModel) clone() model   { c := *m; return &c }
func (m *smoothModel) String() string { return fmt.Sprintf("smooth{next=%d}", m.next) }

type burstyModel struct {
	period int64
	max    int
	used   map[int64]int // period index -> permits assigned in it
	front  int64         // period of the most recently assigned permit: later requests never get an earlier one
}

func (m *burstyModel) acquire(t int64, n int, maxWait int64) int64 {
	cur := t / m.period
	q := m.front
	if cur > q {
		q = cur
	}
	tmp := map[int64]int{}
	for i := 0; i < n; i++ {
		for m.used[q]+tmp[q] >= m.max {
			q++
		}
		tmp[q]++
	}
	var wait int64
	if q > cur {
		wait = q*m.period - t
	}
	if maxWait != -1 && wait > maxWait {
		return -1
	}
	for k, v := range tmp {
		m.used[k] += v
	}
	m.front = q
	// forget periods that can no longer matter
	for k := range m.used {
		if k < cur {
			delete(m.used, k)
		}
	}
	return wait
}
func (m *burstyModel) clone() model {
	c := &burstyModel{period: m.period, max: m.max, used: map[int64]int{}, front: m.front}
	for k, v := range m.used {
		c.used[k] = v
	}
	return c
}
func (m *burstyModel) String() string {
	return fmt.Sprintf("bursty{front=%d used=%v}", m.front, m.used)
}
