//go:build verif

package c05

import (
	"encoding/json"
	"fmt"
	"runtime"
	"sync"
	"sync/atomic"
	"testing"
	"time"

	"github.com/failsafe-go/failsafe-go/ratelimiter"

	"pgregory.net/rapid"

	"verif/harness"
)

// TestTickingClock: concurrent callers against a clock that moves while they call. Every reading of the limiter's clock
// returns a later (or equal) instant than the one before, by a step from a drawn pattern that crosses slot / period
// boundaries in the middle of a round, and some readings are followed by a pause, as when the caller is preempted right
// after looking at the clock. The limiter decides under its lock, so the readings, in the order in which they were
// handed out, are the instants of a serial order of the round's requests: some permutation of the requests, applied to the
// reference model at those instants in that order, must give exactly the responses observed. (A limiter that looks at the
// clock before it takes its lock lets a caller decide on a stale instant after others have moved on.)
func TestTickingClock(t *testing.T) {
	const test = "TestTickingClock"
	st := harness.NewStats(test)
	defer st.Flush()
	rapid.Check(t, func(t *rapid.T) {
		kind := rapid.SampledFrom([]string{"smooth", "bursty", "bursty"}).Draw(t, "kind")
		c := cfg{Kind: kind, Unit: 1000}
		if kind == "bursty" {
			c.Max = rapid.IntRange(1, 3).Draw(t, "max")
		}
		l := newLimiter(c, nil)
		// the responses of a round may be explained by several serial orders that leave the limiter in different states;
		// the limiter is in one of them: all are kept
		states := map[string]model{"": newModel(c)}
		workers := rapid.IntRange(2, 5).Draw(t, "workers")
		rounds := rapid.IntRange(30, 150).Draw(t, "rounds")
		type tick struct {
			Step  int64 `json:"step"`
			Pause bool  `json:"pause"`
		}
		var pattern []tick
		for i, n := 0, rapid.IntRange(2, 7).Draw(t, "pattern"); i < n; i++ {
			pattern = append(pattern, tick{Step: rapid.SampledFrom([]int64{0, 0, 1, 250, 500, 999, 1000}).Draw(t, "step"), Pause: rapid.IntRange(0, 2).Draw(t, "pause") == 0})
		}
		var ops []op
		for w := 0; w < workers; w++ {
			o := op{N: 1, Op: rapid.SampledFrom([]string{"try", "tryreserve", "tryreserve", "reserve"}).Draw(t, "op")}
			if o.Op == "tryreserve" {
				o.MW = c.Unit * int64(rapid.IntRange(0, 2).Draw(t, "mwUnits"))
			}
			ops = append(ops, o)
		}
		var cmu sync.Mutex
		var now int64
		var reads []int64
		nread := 0
		ratelimiter.VerifSetStopwatch[int](l.rl, func() time.Duration {
			cmu.Lock()
			tk := pattern[nread%len(pattern)]
			nread++
			now += tk.Step
			v := now
			reads = append(reads, v)
			cmu.Unlock()
			if tk.Pause {
				for i := 0; i < 20; i++ {
					runtime.Gosched()
				}
				time.Sleep(20 * time.Microsecond)
			}
			return time.Duration(v)
		})
		var gen, fin atomic.Int64
		var stop atomic.Bool
		cur := make([]op, workers)
		var wg sync.WaitGroup
		for w := 0; w < workers; w++ {
			wg.Add(1)
			go func(w int) {
				defer wg.Done()
				seen := int64(0)
				for {
					for gen.Load() == seen {
						if stop.Load() {
							return
						}
						runtime.Gosched()
					}
					seen = gen.Load()
					cur[w].Got = l.call(&cur[w])
					fin.Add(1)
				}
			}(w)
		}
		crossed := 0
		var failure string
		var hist []op
		for r := 0; r < rounds && failure == ""; r++ {
			cmu.Lock()
			reads = reads[:0]
			cmu.Unlock()
			copy(cur, ops)
			fin.Store(0)
			gen.Add(1)
			deadline := harness.Wait(20 * time.Second)
			for fin.Load() < int64(workers) {
				if deadline.Expired() {
					stop.Store(true)
					harness.Inconclusive(t, "workers did not finish a round within 20s")
				}
				runtime.Gosched()
			}
			cmu.Lock()
			times := append([]int64(nil), reads...)
			cmu.Unlock()
			if len(times) != workers {
				stop.Store(true)
				wg.Wait()
				harness.Inconclusive(t, "%d clock readings for %d requests: the one-reading-per-request assumption of this test does not hold", len(times), workers)
			}
			if times[0]/c.Unit != times[len(times)-1]/c.Unit {
				crossed++
			}
			reqs := make([]creq, workers)
			for w := range cur {
				reqs[w].o = cur[w]
			}
			for i := range times {
				o := cur[0]
				o.T = times[i]
				hist = append(hist, o)
			}
			hist = append(hist, cur...)
			if len(hist) > 40 {
				hist = hist[len(hist)-40:]
			}
			next := map[string]model{}
			var before []string
			for _, m := range states {
				before = append(before, m.String())
				linearizeTimed(m, reqs, times, 0, next)
			}
			if len(next) == 0 {
				failure = fmt.Sprintf("round %d: the clock was read at %v (in this order); no order of the %d requests, applied at those instants, explains the responses %s (possible model states before the round: %v)", r, times, workers, describeGot(cur), before)
			}
			if len(next) > 256 {
				stop.Store(true)
				wg.Wait()
				t.Skip("more than 256 candidate states")
			}
			states = next
		}
		stop.Store(true)
		wg.Wait()
		if failure != "" {
			fail(t, test, "not-linearizable-ticking:"+kind, c, hist, "%s", failure)
		}
		b, _ := json.Marshal(map[string]any{"cfg": c, "workers": workers, "pattern": pattern, "ops": ops})
		st.Case(string(b), crossed > 0, "kind="+kind, fmt.Sprintf("rounds-crossing-a-boundary>=5=%v", crossed >= 5))
		if crossed > 0 {
			st.Sample(string(b), func() any {
				return map[string]any{"cfg": c.String(), "workers": workers, "pattern": pattern, "ops": ops, "rounds": rounds}
			})
		}
	})
}

func describeGot(ops []op) string {
	s := "["
	for i, o := range ops {
		if i > 0 {
			s += " "
		}
		s += fmt.Sprintf("%s(mw=%d)->%d", o.Op, o.MW, o.Got)
	}
	return s + "]"
}

// linearizeTimed: position pos of the serial order happens at times[pos]; every end state of an order that explains the
// responses is added to out.
func linearizeTimed(m model, reqs []creq, times []int64, pos int, out map[string]model) {
	if pos == len(times) {
		out[m.String()] = m
		return
	}
	tried := map[string]bool{}
	for i := range reqs {
		if reqs[i].done {
			continue
		}
		o := reqs[i].o
		o.T = times[pos]
		k := fmt.Sprintf("%s/%d/%d/%d", o.Op, o.N, o.MW, o.Got)
		if tried[k] {
			continue
		}
		tried[k] = true
		mc := m.Clone()
		if modelCall(mc, &o) != o.Got {
			continue
		}
		reqs[i].done = true
		linearizeTimed(mc, reqs, times, pos+1, out)
		reqs[i].done = false
	}
}
