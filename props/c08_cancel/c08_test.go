//go:build verif

// Package c08 checks property C08: cancellation stops the execution promptly and is reported as its cause.
package c08

import (
	"context"
	"encoding/json"
	"errors"
	"fmt"
	"os"
	"strconv"
	"strings"
	"sync"
	"sync/atomic"
	"testing"
	"time"

	"github.com/failsafe-go/failsafe-go"
	"github.com/failsafe-go/failsafe-go/bulkhead"
	"github.com/failsafe-go/failsafe-go/circuitbreaker"
	"github.com/failsafe-go/failsafe-go/fallback"
	"github.com/failsafe-go/failsafe-go/hedgepolicy"
	"github.com/failsafe-go/failsafe-go/ratelimiter"
	"github.com/failsafe-go/failsafe-go/retrypolicy"
	"github.com/failsafe-go/failsafe-go/timeout"
	"pgregory.net/rapid"

	"verif/harness"
)

const prop = "C08"

var errX = errors.New("attempt failed")

const (
	okVal = 7
	fbVal = 55
)

// scenario: one execution, one cancellation source, one point at which it fires.
type scenario struct {
	Shape       string `json:"shape"`       // retry | fallback(retry) | retry(fallback) | retry(breaker) | retry(bulkhead-full) | retry(limiter-wait) | hedge | hedge-custom | hedge(retry) | timeout(retry) | fallback(timeout(retry)) | timeout(hedge)
	DelayHour   bool   `json:"delay_hour"`  // retry delay: 0 or 1h
	MaxRetries  int    `json:"max_retries"` // -1 unlimited
	SucceedAt   int    `json:"succeed_at"`  // attempt that returns success (0 = never)
	Source      string `json:"source"`      // ctx-cancel | ctx-deadline | timeout | result-cancel
	Point       string `json:"point"`       // pre | in-attempt | in-scheduled | spin | after
	K           int    `json:"k"`           // attempt / retry number for in-attempt / in-scheduled
	BlockAtK    bool   `json:"block_at_k"`  // attempt K waits for Canceled() before returning (cooperating function)
	SpinNs      int    `json:"spin_ns"`     // spin: busy-wait before cancelling from another goroutine
	DeadlineUs  int    `json:"deadline_us"` // ctx-deadline: how far in the future
	Async       bool   `json:"async"`
	TimeLimitUs int    `json:"time_limit_us"`
	WithCause   bool   `json:"with_cause,omitempty"` // ctx-cancel / ctx-deadline: the context is built with an explicit cause
}

type ev struct {
	Kind    string
	Attempt int
	Round   int // "enter": Retries() as the attempt saw it on entry (the retry round it belongs to)
}

type trialOut struct {
	violation  string
	sig        string
	nontrivial bool
	class      string
}

var errCause = errors.New("the caller's own reason")

func sourceErr(src string) error {
	switch src {
	case "ctx-cancel":
		return context.Canceled
	case "ctx-deadline":
		return context.DeadlineExceeded
	case "timeout":
		return timeout.ErrExceeded
	}
	return failsafe.ErrExecutionCanceled
}

func run(sc scenario) (out trialOut) {
	fail := func(sig, f string, a ...any) trialOut {
		out.violation, out.sig = fmt.Sprintf(f, a...), sig
		return out
	}
	var mu sync.Mutex
	var log []ev
	add := func(k string, n int) {
		mu.Lock()
		log = append(log, ev{Kind: k, Attempt: n})
		mu.Unlock()
	}

	// ---- the cancellation source ----
	ctx := context.Background()
	var ctxCancel context.CancelFunc = func() {}
	switch sc.Source {
	case "ctx-cancel":
		if sc.WithCause {
			// a cause is extra information for whoever asks context.Cause; the error identifying the cancellation stays
			// context.Canceled / context.DeadlineExceeded
			c, cc := context.WithCancelCause(ctx)
			ctx, ctxCancel = c, func() { cc(errCause) }
		} else {
			ctx, ctxCancel = context.WithCancel(ctx)
		}
	case "ctx-deadline":
		d := time.Duration(sc.DeadlineUs) * time.Microsecond
		if sc.Point == "pre" {
			d = -time.Second
		}
		if sc.WithCause {
			ctx, ctxCancel = context.WithDeadlineCause(ctx, time.Now().Add(d), errCause)
		} else {
			ctx, ctxCancel = context.WithDeadline(ctx, time.Now().Add(d))
		}
	}
	defer ctxCancel()
	var er failsafe.ExecutionResult[int]
	var erReady = make(chan struct{})
	var fired, fireStarted atomic.Bool
	fire := func() {
		if sc.Source == "ctx-deadline" || sc.Source == "timeout" {
			return // these fire by themselves
		}
		if !fired.CompareAndSwap(false, true) {
			return
		}
		fireStarted.Store(true)
		switch sc.Source {
		case "ctx-cancel":
			ctxCancel()
		case "result-cancel":
			<-erReady
			er.Cancel()
		}
		add("cancelled", 0) // logged once the cancellation is in effect: anything logged later started after it
	}
	// for the sources that fire by themselves (deadline, Timeout) the marker is logged by a watcher on the context the
	// function itself sees (see fn): a parent context is done before its children are, so watching it would be too early

	// ---- the composition ----
	delay := time.Duration(0)
	if sc.DelayHour {
		delay = time.Hour
	}
	retry := func() retrypolicy.RetryPolicy[int] {
		return retrypolicy.Builder[int]().WithMaxRetries(sc.MaxRetries).WithDelay(delay).
			OnRetryScheduled(func(e failsafe.ExecutionScheduledEvent[int]) {
				add("scheduled", e.Attempts())
				if sc.Point == "in-scheduled" && e.Attempts() == sc.K {
					fire()
				}
			}).Build()
	}
	var fallbackCalls atomic.Int32
	fb := func() fallback.Fallback[int] {
		return fallback.BuilderWithFunc(func(e failsafe.Execution[int]) (int, error) {
			fallbackCalls.Add(1)
			add("fallback", 0)
			if sc.Point == "in-fallback" {
				fire() // the cancellation lands while the enclosed fallback is computing its output
			}
			return fbVal, nil
		}).Build()
	}
	var toListener atomic.Int32
	to := func() timeout.Timeout[int] {
		return timeout.Builder[int](time.Duration(sc.TimeLimitUs) * time.Microsecond).OnTimeoutExceeded(func(failsafe.ExecutionDoneEvent[int]) {
			toListener.Add(1)
		}).Build()
	}
	var heldBH bulkhead.Bulkhead[int]
	var pols []failsafe.Policy[int]
	fallbackEnclosed := false // is there a fallback that the cancellation encloses?
	fallbackOutside := false  // a fallback outside the Timeout source legitimately handles ErrExceeded
	switch sc.Shape {
	case "retry":
		pols = []failsafe.Policy[int]{retry()}
	case "fallback(retry)":
		pols = []failsafe.Policy[int]{fb(), retry()}
		fallbackEnclosed = true
	case "retry(fallback)":
		pols = []failsafe.Policy[int]{retry(), fallback.BuilderWithFunc(func(e failsafe.Execution[int]) (int, error) {
			fallbackCalls.Add(1)
			add("fallback", 0)
			return 0, errX // the inner fallback turns failures into failures, so the retry policy keeps going
		}).Build()}
		fallbackEnclosed = true
	case "retry(breaker)":
		pols = []failsafe.Policy[int]{retry(), circuitbreaker.Builder[int]().WithFailureThreshold(3).WithDelay(time.Hour).Build()}
	case "retry(bulkhead-full)":
		heldBH = bulkhead.Builder[int](1).WithMaxWaitTime(time.Hour).Build()
		heldBH.TryAcquirePermit()
		pols = []failsafe.Policy[int]{retry(), heldBH}
	case "retry(limiter-wait)":
		rl := ratelimiter.SmoothBuilderWithMaxRate[int](time.Hour).WithMaxWaitTime(2 * time.Hour).Build()
		rl.TryAcquirePermit()
		pols = []failsafe.Policy[int]{retry(), rl}
	case "bulkhead-full(retry)":
		// the waiting policy outermost: the execution is cancelled before it ever reaches the retry policy
		heldBH = bulkhead.Builder[int](1).WithMaxWaitTime(time.Hour).Build()
		heldBH.TryAcquirePermit()
		pols = []failsafe.Policy[int]{heldBH, retry()}
	case "limiter-wait(retry)":
		rl := ratelimiter.SmoothBuilderWithMaxRate[int](time.Hour).WithMaxWaitTime(2 * time.Hour).Build()
		rl.TryAcquirePermit()
		pols = []failsafe.Policy[int]{rl, retry()}
	case "bulkhead-full-nowait(retry)":
		// a full bulkhead that does not wait, outermost, entered with a context that is already done: the context is what
		// the admission looks at first, so the caller is told about the cancellation, not about the bulkhead
		heldBH = bulkhead.Builder[int](1).Build()
		heldBH.TryAcquirePermit()
		pols = []failsafe.Policy[int]{heldBH, retry()}
	case "timeout-never(retry)":
		pols = []failsafe.Policy[int]{timeout.With[int](time.Hour), retry()}
	case "retry(hedge)":
		// every try is hedged after 10 us while attempts last about 30 us: each round has a winner and losers the hedge
		// policy cancels, while the retry policy keeps starting new rounds
		pols = []failsafe.Policy[int]{retry(), hedgepolicy.BuilderWithDelay[int](10 * time.Microsecond).WithMaxHedges(1).Build()}
	case "hedge":
		pols = []failsafe.Policy[int]{hedgepolicy.BuilderWithDelay[int](time.Hour).WithMaxHedges(2).Build()}
	case "hedge-custom":
		pols = []failsafe.Policy[int]{hedgepolicy.BuilderWithDelay[int](time.Hour).WithMaxHedges(2).CancelOnResult(okVal).Build()}
	case "hedge(retry)":
		pols = []failsafe.Policy[int]{hedgepolicy.BuilderWithDelay[int](time.Hour).WithMaxHedges(1).Build(), retry()}
	case "timeout(retry)":
		pols = []failsafe.Policy[int]{to(), retry()}
	case "fallback(timeout(retry))":
		pols = []failsafe.Policy[int]{fallback.BuilderWithFunc(func(e failsafe.Execution[int]) (int, error) {
			fallbackCalls.Add(1)
			add("fallback", 0)
			return fbVal, nil
		}).HandleErrors(timeout.ErrExceeded).Build(), to(), retry()}
		fallbackOutside = true
	case "timeout(hedge)":
		pols = []failsafe.Policy[int]{to(), hedgepolicy.BuilderWithDelay[int](time.Hour).WithMaxHedges(1).CancelOnResult(okVal).Build()}
	default:
		return fail("harness", "unknown shape %s", sc.Shape)
	}
	waitsInPolicy := sc.Shape == "retry(bulkhead-full)" || sc.Shape == "retry(limiter-wait)" || sc.Shape == "bulkhead-full(retry)" || sc.Shape == "limiter-wait(retry)" || sc.Shape == "bulkhead-full-nowait(retry)"
	isHedgeShape := sc.Shape == "hedge" || sc.Shape == "hedge-custom" || sc.Shape == "timeout(hedge)"

	var invocations atomic.Int32
	var firstExec atomic.Pointer[failsafe.Execution[int]]
	fn := func(exec failsafe.Execution[int]) (int, error) {
		n := int(invocations.Add(1))
		mu.Lock()
		log = append(log, ev{Kind: "enter", Attempt: n, Round: exec.Retries()})
		mu.Unlock()
		if n == 1 {
			firstExec.Store(&exec)
			if sc.Source == "timeout" || sc.Source == "ctx-deadline" {
				go func() {
					<-exec.Canceled()
					add("cancelled", 0)
				}()
			}
		}
		if sc.Point == "in-attempt" && n == sc.K {
			fire()
		}
		if sc.Shape == "retry(hedge)" {
			select {
			case <-exec.Canceled():
			case <-time.After(30 * time.Microsecond):
			}
		}
		if (sc.BlockAtK && n == sc.K) || isHedgeShape && sc.SucceedAt == 0 {
			select {
			case <-exec.Canceled():
			case <-harness.After(45 * time.Second):
				add("blocked-45s", n)
			}
		}
		add("exit", n)
		if sc.SucceedAt != 0 && n >= sc.SucceedAt {
			return okVal, nil
		}
		return 0, errX
	}

	if sc.Point == "pre" {
		fire()
	}
	ex := failsafe.NewExecutor[int](pols...)
	if sc.Source == "ctx-cancel" || sc.Source == "ctx-deadline" {
		ex = ex.WithContext(ctx)
	}
	type res struct {
		v   int
		err error
	}
	resCh := make(chan res, 1)
	begin := time.Now()
	go func() {
		var v int
		var err error
		if sc.Async {
			er = ex.GetWithExecutionAsync(fn)
			close(erReady)
			v, err = er.Get()
		} else {
			close(erReady)
			v, err = ex.GetWithExecution(fn)
		}
		add("return", 0)
		resCh <- res{v, err}
	}()
	switch sc.Point {
	case "spin":
		go func() {
			end := time.Now().Add(time.Duration(sc.SpinNs))
			for time.Now().Before(end) {
			}
			fire()
		}()
	}
	var got res
	if sc.Point == "after" {
		// the execution completes by itself; cancelling afterwards must change nothing
		select {
		case got = <-resCh:
		case <-harness.After(30 * time.Second):
			return fail("harness-or-hang", "an execution that succeeds on attempt %d had not returned after 30s", sc.SucceedAt)
		}
		fire()
		if sc.Async {
			v, err := er.Get()
			if v != got.v || err != got.err {
				return fail("result-changed-after-completion", "Cancel after completion changed the result from (%d,%v) to (%d,%v)", got.v, got.err, v, err)
			}
		}
	} else {
		select {
		case got = <-resCh:
		case <-harness.After(30 * time.Second):
			mu.Lock()
			l := fmt.Sprint(log)
			mu.Unlock()
			sig := "not-prompt"
			if sc.Shape == "hedge-custom" || sc.Shape == "timeout(hedge)" {
				sig = "not-prompt-hedge-wait"
			}
			return fail(sig, "the call had not returned 30s after the start (cancellation source %s at %s); pending waits are 1h; log tail %s", sc.Source, sc.Point, tail(l, 300))
		}
	}
	elapsed := time.Since(begin)
	_ = elapsed
	if heldBH != nil {
		heldBH.ReleasePermit()
	}
	time.Sleep(200 * time.Microsecond)
	mu.Lock()
	l := append([]ev(nil), log...)
	mu.Unlock()

	// ---- judge ----
	cancelIdx, returnIdx, firstEnter := -1, -1, -1
	entersAfterCancel, fallbackAfterCancel := 0, 0
	lastRoundBeforeCancel, lastRoundAfterCancel := 0, 0
	exits, scheduled := 0, 0
	exitsBeforeCancel, scheduledBeforeCancel := 0, 0
	for i, e := range l {
		switch e.Kind {
		case "cancelled":
			if cancelIdx == -1 {
				cancelIdx = i
			}
		case "return":
			returnIdx = i
		case "enter":
			if firstEnter == -1 {
				firstEnter = i
			}
			if cancelIdx != -1 && returnIdx == -1 {
				entersAfterCancel++
				if e.Round > lastRoundAfterCancel {
					lastRoundAfterCancel = e.Round
				}
			} else if cancelIdx == -1 && e.Round > lastRoundBeforeCancel {
				lastRoundBeforeCancel = e.Round
			}
		case "exit":
			if returnIdx == -1 {
				exits++
				if cancelIdx == -1 {
					exitsBeforeCancel++
				}
			}
		case "scheduled":
			scheduled++
			if cancelIdx == -1 {
				scheduledBeforeCancel++
			}
		case "fallback":
			if cancelIdx != -1 {
				fallbackAfterCancel++
			}
		case "blocked-45s":
			return fail("cancellation-not-observed", "attempt %d waited 45s on Execution.Canceled() although the execution was cancelled", e.Attempt)
		}
	}
	cancelledBeforeReturn := cancelIdx != -1 && (returnIdx == -1 || cancelIdx < returnIdx)
	src := sourceErr(sc.Source)
	// the natural result, if the execution could complete on its own before/without the cancellation
	// A result "the execution had already completed with" is one whose deciding attempt returned before the cancellation
	// took effect: an attempt that returns afterwards is followed by the policy's cancellation check. (The marker is
	// logged no earlier than the cancellation, so this only ever accepts more.)
	_ = exits
	_ = scheduled
	naturalOK := func() bool {
		switch {
		case sc.SucceedAt != 0 && exitsBeforeCancel >= sc.SucceedAt:
			return got.v == okVal && got.err == nil
		}
		decided := exitsBeforeCancel >= sc.MaxRetries+1 || (sc.Shape == "retry(breaker)" && scheduledBeforeCancel >= sc.MaxRetries)
		if sc.MaxRetries >= 0 && scheduledBeforeCancel >= sc.MaxRetries && decided && !waitsInPolicy {
			var ex retrypolicy.ExceededError
			if errors.As(got.err, &ex) && (errors.Is(ex.LastError, errX) || (sc.Shape == "retry(breaker)" && errors.Is(ex.LastError, circuitbreaker.ErrOpen))) {
				return true
			}
			if sc.Shape == "fallback(retry)" && got.v == fbVal && got.err == nil && fallbackAfterCancel == 0 {
				return true // the fallback handled the exhausted retries before any cancellation
			}
		}
		return false
	}
	isSource := got.err != nil && errors.Is(got.err, src)
	if fallbackOutside && sc.Source == "timeout" && got.v == fbVal && got.err == nil {
		isSource = true // the fallback outside the Timeout legitimately replaces ErrExceeded
	}
	switch {
	case sc.Point == "after":
		if !naturalOK() {
			return fail("wrong-result", "completed execution returned (%d,%v)", got.v, got.err)
		}
		out.class = "completed"
	case isSource:
		out.class = "source-error"
		if !fireStarted.Load() && sc.Source != "timeout" && sc.Source != "ctx-deadline" {
			return fail("source-error-without-cancel", "returned %v but no cancellation had been issued", got.err)
		}
	case naturalOK() && sc.Point != "in-fallback":
		out.class = "completed-first"
	default:
		sig := "wrong-error"
		if sc.Source == "result-cancel" && errors.Is(got.err, context.Canceled) {
			sig = "bare-context-canceled-for-result-cancel"
		}
		return fail(sig, "returned (%d,%v): neither the cancellation cause %v nor a result the execution had completed with (%d attempts finished)", got.v, got.err, src, exits)
	}
	if fallbackEnclosed && cancelledBeforeReturn {
		if got.v == fbVal && got.err == nil && sc.Shape == "fallback(retry)" && !naturalOK() {
			return fail("fallback-output-returned", "the output of a fallback enclosed by the cancellation was returned")
		}
		if got.v == fbVal && got.err == nil && sc.Shape == "fallback(retry)" && fallbackAfterCancel > 0 {
			return fail("fallback-output-returned", "the fallback was invoked after the cancellation had taken effect and its output was returned")
		}
		if sc.Shape == "retry(fallback)" && fallbackAfterCancel > 1 {
			return fail("fallback-after-cancel", "the fallback inside the retry policy was invoked %d times after the cancellation took effect (one attempt may already have been in flight)", fallbackAfterCancel)
		}
	}
	if sc.Shape == "retry(hedge)" {
		// hedged rounds: attempts the hedge policy had launched before the cancellation may reach the function after it
		// (and stragglers of older rounds too), so entries cannot be counted. Rounds can: if R is the last retry round seen
		// in the function before the cancellation, round R+1 may already have been started, one further round (R+2) is
		// what the statement allows, round R+3 is not
		if cancelledBeforeReturn && lastRoundAfterCancel > lastRoundBeforeCancel+2 {
			return fail("attempts-after-cancel", "an attempt of retry round %d entered the function after the cancellation had taken effect; the last round seen before it was %d", lastRoundAfterCancel, lastRoundBeforeCancel)
		}
	} else if cancelledBeforeReturn && entersAfterCancel > 1 {
		return fail("attempts-after-cancel", "%d attempts entered the function after the cancellation had taken effect (at most one may)", entersAfterCancel)
	}
	if sc.Source == "timeout" && isSource {
		deadline := harness.Wait(30 * time.Second)
		for toListener.Load() < 1 && !deadline.Expired() {
			time.Sleep(100 * time.Microsecond)
		}
		if toListener.Load() != 1 {
			return fail("timeout-listener", "OnTimeoutExceeded called %d times", toListener.Load())
		}
	}
	if p := firstExec.Load(); p != nil && isSource && sc.Source != "timeout" {
		if !(*p).IsCanceled() {
			return fail("cancellation-not-observed", "the execution handed to the function does not report IsCanceled after %s", sc.Source)
		}
	}
	out.nontrivial = cancelledBeforeReturn && firstEnter != -1 && firstEnter < cancelIdx
	return out
}

func tail(s string, n int) string {
	if len(s) > n {
		return s[len(s)-n:]
	}
	return s
}

func genScenario(t *rapid.T) scenario {
	sc := scenario{}
	sc.Shape = rapid.SampledFrom([]string{"retry", "retry", "fallback(retry)", "retry(fallback)", "retry(breaker)", "retry(bulkhead-full)", "retry(limiter-wait)", "bulkhead-full(retry)", "limiter-wait(retry)", "bulkhead-full-nowait(retry)", "timeout-never(retry)", "hedge", "hedge-custom", "hedge(retry)", "timeout(retry)", "fallback(timeout(retry))", "timeout(hedge)"}).Draw(t, "shape")
	timeoutShape := sc.Shape == "timeout(retry)" || sc.Shape == "fallback(timeout(retry))" || sc.Shape == "timeout(hedge)"
	hedgeShape := sc.Shape == "hedge" || sc.Shape == "hedge-custom" || sc.Shape == "timeout(hedge)"
	sc.Async = rapid.Bool().Draw(t, "async")
	if timeoutShape {
		sc.Source = "timeout"
		sc.TimeLimitUs = rapid.IntRange(300, 5000).Draw(t, "limitUs")
		sc.Point = "self"
	} else {
		srcs := []string{"ctx-cancel", "ctx-cancel", "ctx-deadline"}
		if sc.Async {
			srcs = append(srcs, "result-cancel", "result-cancel")
		}
		sc.Source = rapid.SampledFrom(srcs).Draw(t, "source")
		if sc.Source != "result-cancel" {
			sc.WithCause = rapid.IntRange(0, 3).Draw(t, "withCause") == 0
		}
		if sc.Source == "ctx-deadline" {
			sc.Point = rapid.SampledFrom([]string{"pre", "self", "self"}).Draw(t, "point")
			sc.DeadlineUs = rapid.IntRange(50, 4000).Draw(t, "deadlineUs")
		} else {
			pts := []string{"in-attempt", "in-attempt", "spin", "spin", "after"}
			if sc.Source == "ctx-cancel" {
				pts = append(pts, "pre")
			}
			if !hedgeShape && !strings.Contains(sc.Shape, "bulkhead-full") && !strings.Contains(sc.Shape, "limiter-wait") {
				pts = append(pts, "in-scheduled", "in-scheduled")
			}
			sc.Point = rapid.SampledFrom(pts).Draw(t, "point")
		}
	}
	if sc.Shape == "bulkhead-full-nowait(retry)" {
		// only a context that is done before the start is decided here (a later cancellation finds the execution over:
		// it was refused at once)
		sc.Async = false
		sc.Source = rapid.SampledFrom([]string{"ctx-cancel", "ctx-deadline"}).Draw(t, "doneSource")
		sc.Point, sc.WithCause, sc.DeadlineUs = "pre", rapid.IntRange(0, 3).Draw(t, "doneCause") == 0, 100
		sc.MaxRetries, sc.K = rapid.SampledFrom([]int{-1, 0, 3}).Draw(t, "maxRetriesNW"), 1
		return sc
	}
	sc.DelayHour = rapid.Bool().Draw(t, "delayHour")
	sc.MaxRetries = rapid.SampledFrom([]int{-1, -1, 0, 1, 3, 50}).Draw(t, "maxRetries")
	if sc.Shape == "fallback(retry)" && sc.Source != "ctx-deadline" && rapid.IntRange(0, 3).Draw(t, "inFallback") == 0 {
		// the retries are exhausted, the fallback starts (legitimately), and the cancellation lands inside it
		sc.Point, sc.MaxRetries, sc.DelayHour, sc.BlockAtK = "in-fallback", rapid.IntRange(0, 3).Draw(t, "fewRetries"), false, false
		return sc
	}
	sc.K = rapid.IntRange(1, 3).Draw(t, "k")
	sc.BlockAtK = rapid.Bool().Draw(t, "blockAtK")
	sc.SpinNs = rapid.IntRange(0, 100000).Draw(t, "spinNs")
	switch {
	case sc.Point == "after":
		// the execution must finish by itself
		sc.DelayHour = false
		sc.SucceedAt = rapid.IntRange(1, 3).Draw(t, "succeedAt")
		if hedgeShape {
			sc.SucceedAt = 1 // a hedge accepts its first attempt's result
		}
		sc.BlockAtK = false
		if strings.Contains(sc.Shape, "bulkhead-full") || strings.Contains(sc.Shape, "limiter-wait") {
			sc.Shape = "retry"
		}
		if sc.Shape == "retry(breaker)" && sc.SucceedAt > 3 {
			sc.SucceedAt = 2
		}
	case hedgeShape:
		// attempts wait for cancellation (1h hedge delays are pending meanwhile)
		sc.SucceedAt = 0
		if sc.Point == "in-attempt" {
			sc.K = 1
		}
	case strings.Contains(sc.Shape, "bulkhead-full") || strings.Contains(sc.Shape, "limiter-wait"):
		// the first attempt waits inside the policy; the function is never reached
		if sc.Point == "in-attempt" || sc.Point == "in-scheduled" {
			sc.Point = "spin"
		}
	default:
		if sc.DelayHour {
			// the first retry delay already waits an hour: the cancellation must land in attempt 1 or in its wait
			sc.K = 1
			if sc.Point == "in-scheduled" {
				sc.K = 1
			}
		}
		if sc.Point == "in-attempt" && sc.MaxRetries >= 0 && sc.K > sc.MaxRetries+1 {
			sc.K = 1
		}
		if sc.Point == "in-scheduled" && sc.MaxRetries >= 0 && sc.K > sc.MaxRetries {
			sc.K = 1
		}
		if rapid.IntRange(0, 5).Draw(t, "eventualSuccess") == 0 && !sc.DelayHour {
			sc.SucceedAt = rapid.IntRange(2, 6).Draw(t, "succeedAt")
		}
	}
	if sc.Point == "in-scheduled" {
		sc.BlockAtK = false // the cancellation is issued after attempt K returned
	}
	if sc.BlockAtK && (sc.Point == "spin" || sc.Point == "self") && sc.DelayHour {
		sc.K = 1
	}
	if sc.Point != "in-attempt" && sc.Point != "in-scheduled" && sc.BlockAtK && sc.K > 1 && sc.DelayHour {
		sc.K = 1
	}
	return sc
}

func TestCancelScenarios(t *testing.T) {
	const test = "TestCancelScenarios"
	st := harness.NewStats(test)
	defer st.Flush()
	batch := 48
	rapid.Check(t, func(t *rapid.T) {
		scs := make([]scenario, batch)
		for i := range scs {
			scs[i] = genScenario(t)
		}
		outs := make([]trialOut, batch)
		var wg sync.WaitGroup
		for i := range scs {
			wg.Add(1)
			go func(i int) {
				defer wg.Done()
				outs[i] = run(scs[i])
			}(i)
		}
		wg.Wait()
		for i, o := range outs {
			if o.violation != "" {
				harness.Violation(t, prop, test, o.sig, scs[i], "%+v: %s", scs[i], o.violation)
			}
		}
		for i, o := range outs {
			sc := scs[i]
			key := fmt.Sprintf("%s/%s/%s/%v/%d/%d/%d/%v/%v/%s", sc.Shape, sc.Source, sc.Point, sc.DelayHour, sc.MaxRetries, sc.K, sc.SucceedAt, sc.BlockAtK, sc.Async, o.class)
			st.Case(key, o.nontrivial, "shape="+sc.Shape, "source="+sc.Source, "point="+sc.Point, "outcome="+o.class)
			if o.nontrivial {
				st.Sample(key, func() any { return map[string]any{"scenario": sc, "outcome": o.class} })
			}
		}
	})
}

// TestCancelRaceSpin aims many cheap trials at the narrow windows between the steps of a retry iteration: an async
// execution spinning through failing attempts with no delay, cancelled from another goroutine after a generated spin.
func TestCancelRaceSpin(t *testing.T) {
	const test = "TestCancelRaceSpin"
	st := harness.NewStats(test)
	defer st.Flush()
	per := 2000
	rapid.Check(t, func(t *rapid.T) {
		src := rapid.SampledFrom([]string{"result-cancel", "result-cancel", "ctx-cancel"}).Draw(t, "source")
		shape := rapid.SampledFrom([]string{"retry", "fallback(retry)", "retry(breaker)", "hedge(retry)", "timeout-never(retry)", "retry(hedge)", "retry(hedge)"}).Draw(t, "shape")
		maxSpin := rapid.SampledFrom([]int{2000, 20000, 100000}).Draw(t, "maxSpinNs")
		seed := rapid.Uint64().Draw(t, "spinSeed")
		var wg sync.WaitGroup
		type bad struct {
			sc  scenario
			out trialOut
		}
		var firstBad atomic.Pointer[bad]
		var landed atomic.Int64
		sem := make(chan struct{}, 32)
		for i := 0; i < per; i++ {
			seed = seed*6364136223846793005 + 1442695040888963407 // spin lengths derived from the drawn seed
			sc := scenario{Shape: shape, MaxRetries: -1, Source: src, Point: "spin", SpinNs: int(seed>>33) % maxSpin, Async: true, K: 1}
			sem <- struct{}{}
			wg.Add(1)
			go func(sc scenario) {
				defer wg.Done()
				defer func() { <-sem }()
				o := run(sc)
				if o.violation != "" {
					firstBad.CompareAndSwap(nil, &bad{sc, o})
				}
				if o.nontrivial {
					landed.Add(1)
				}
			}(sc)
		}
		wg.Wait()
		if b := firstBad.Load(); b != nil {
			harness.Violation(t, prop, test, b.out.sig, b.sc, "%+v: %s", b.sc, b.out.violation)
		}
		st.Count("spin_trials", per)
		st.Count("spin_trials_cancelled_mid_execution", int(landed.Load()))
		key := fmt.Sprintf("%s/%s/%d/%d", src, shape, maxSpin, seed)
		st.Case(key, landed.Load() > 0, "source="+src, "shape="+shape)
		st.Sample(key, func() any {
			return map[string]any{"source": src, "shape": shape, "max_spin_ns": maxSpin, "trials": per, "cancelled_mid_execution": landed.Load()}
		})
	})
}

func TestRegress(t *testing.T) {
	st := harness.NewStats("TestRegress")
	defer st.Flush()
	var files []string
	if p := os.Getenv("VERIF_REPLAY"); p != "" {
		files = []string{p}
	} else {
		dir := os.Getenv("VERIF_REGRESS_DIR")
		if dir == "" {
			dir = "../../regress/c08"
		}
		ents, _ := os.ReadDir(dir)
		for _, e := range ents {
			files = append(files, dir+"/"+e.Name())
		}
	}
	reps := 20
	if r, err := strconv.Atoi(os.Getenv("VERIF_REPLAY_REPS")); err == nil && r > 1 {
		reps = r
	}
	for _, f := range files {
		b, err := os.ReadFile(f)
		if err != nil {
			continue
		}
		var sc scenario
		_ = json.Unmarshal(b, &sc)
		if sc.Shape == "" {
			var vr struct {
				Scenario scenario `json:"scenario"`
			}
			_ = json.Unmarshal(b, &vr)
			sc = vr.Scenario
		}
		if sc.Shape == "" {
			continue
		}
		n := reps
		if sc.Point == "spin" {
			n = reps * 2000 // a narrow window: many repetitions
		}
		var wg sync.WaitGroup
		var firstBad atomic.Pointer[trialOut]
		sem := make(chan struct{}, 32)
		for i := 0; i < n && firstBad.Load() == nil; i++ {
			s := sc
			if sc.Point == "spin" {
				s.SpinNs = (i * 37) % 100000
			}
			sem <- struct{}{}
			wg.Add(1)
			go func() {
				defer wg.Done()
				defer func() { <-sem }()
				o := run(s)
				if o.violation != "" {
					firstBad.CompareAndSwap(nil, &o)
				}
			}()
		}
		wg.Wait()
		if o := firstBad.Load(); o != nil {
			harness.Violation(t, prop, "TestRegress", o.sig, sc, "%+v: %s", sc, o.violation)
		}
		st.Case(f, true, "regress")
		st.Sample(f, func() any { return sc })
	}
}
