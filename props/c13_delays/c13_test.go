//go:build verif

// Package c13 checks property C13: retry delays stay within their configured envelope.
package c13

import (
	"context"
	"encoding/json"
	"errors"
	"fmt"
	"math"
	"os"
	"sync"
	"testing"
	"time"

	"github.com/failsafe-go/failsafe-go"
	"github.com/failsafe-go/failsafe-go/retrypolicy"
	"pgregory.net/rapid"

	"verif/harness"
)

const prop = "C13"

var errX = errors.New("attempt failed")

// cfg is a delay configuration. Durations in nanoseconds.
type cfg struct {
	Kind string `json:"kind"` // none | fixed | backoff | random | func-value | func-zero | func-none | backoff-func-mixed | func-slow
	// func-slow: the delay function takes SlowUs to answer FuncVal (the remaining max duration keeps shrinking meanwhile)
	SlowUs int `json:"slow_us,omitempty"`
	// inFunc (not part of the configuration): called by the delay function just before it answers
	inFunc func(failsafe.ExecutionAttempt[int])
	// FuncPattern (backoff-func-mixed): per retry, the delay function's answer in ns, or -1 for "no opinion" (the backoff
	// delay applies; the k-th backoff delay is the k-th one the backoff produced, whatever the function said in between)
	FuncPattern []int64 `json:"func_pattern,omitempty"`
	Delay       int64   `json:"delay"`
	MaxDelay    int64   `json:"max_delay"`
	Factor      float32 `json:"factor"`
	Min         int64   `json:"min"`
	Max         int64   `json:"max"`
	FuncVal     int64   `json:"func_val"`
	Jitter      int64   `json:"jitter"`
	JitterF     float32 `json:"jitter_factor"`
	MaxDur      int64   `json:"max_duration"`
	Failures    int     `json:"failures"`
	DefaultBO   bool    `json:"default_backoff"` // WithBackoff (factor 2) instead of WithBackoffFactor
	// Replaced settings: builder calls made before the ones above which, as documented, the later call replaces
	// ("Replaces any previously configured fixed or random delays" / "delay or backoff delay" / "jitter factor" / "jitter
	// duration"). PriorDelay: "" | fixed | random | backoff (only with kind backoff or random); PriorJitter: the other
	// jitter kind was configured first.
	PriorDelay  string `json:"prior_delay,omitempty"`
	PriorJitter bool   `json:"prior_jitter,omitempty"`
	// Interleave (probe only): before the k-th delay of the execution under test, a second execution sharing the policy
	// instance schedules Interleave[k] retries of its own; each execution's delays follow its own count of failures
	Interleave []int `json:"interleave,omitempty"`
}

func (c cfg) build(onScheduled func(failsafe.ExecutionScheduledEvent[int])) retrypolicy.RetryPolicy[int] {
	b := retrypolicy.Builder[int]().WithMaxRetries(-1)
	switch c.PriorDelay {
	case "backoff+random":
		// (kind fixed) the random delay replaced the backoff, the fixed delay comes last: a plain fixed delay remains
		b.WithBackoff(5*time.Millisecond, 11*time.Hour).WithRandomDelay(3*time.Millisecond, 9*time.Millisecond)
	case "fixed":
		b.WithDelay(7 * time.Millisecond)
	case "random":
		b.WithRandomDelay(3*time.Millisecond, 9*time.Millisecond)
	case "backoff":
		b.WithBackoff(5*time.Millisecond, 11*time.Hour)
	}
	if c.PriorJitter {
		if c.Jitter != 0 {
			b.WithJitterFactor(0.9)
		} else if c.JitterF != 0 {
			b.WithJitter(13 * time.Hour)
		}
	}
	switch c.Kind {
	case "fixed":
		b.WithDelay(time.Duration(c.Delay))
	case "backoff":
		if c.DefaultBO {
			b.WithBackoff(time.Duration(c.Delay), time.Duration(c.MaxDelay))
		} else {
			b.WithBackoffFactor(time.Duration(c.Delay), time.Duration(c.MaxDelay), c.Factor)
		}
	case "random":
		b.WithRandomDelay(time.Duration(c.Min), time.Duration(c.Max))
	case "func-value":
		b.WithDelay(time.Duration(c.Delay)).WithDelayFunc(func(failsafe.ExecutionAttempt[int]) time.Duration { return time.Duration(c.FuncVal) })
	case "func-zero":
		b.WithDelay(time.Duration(c.Delay)).WithDelayFunc(func(failsafe.ExecutionAttempt[int]) time.Duration { return 0 })
	case "func-none":
		b.WithDelay(time.Duration(c.Delay)).WithDelayFunc(func(failsafe.ExecutionAttempt[int]) time.Duration { return -1 })
	case "func-slow":
		b.WithDelay(time.Duration(c.Delay)).WithDelayFunc(func(e failsafe.ExecutionAttempt[int]) time.Duration {
			time.Sleep(time.Duration(c.SlowUs) * time.Microsecond)
			if c.inFunc != nil {
				c.inFunc(e)
			}
			return time.Duration(c.FuncVal)
		})
	case "backoff-func-mixed":
		b.WithBackoffFactor(time.Duration(c.Delay), time.Duration(c.MaxDelay), c.Factor).WithDelayFunc(func(e failsafe.ExecutionAttempt[int]) time.Duration {
			if k := e.Retries(); k < len(c.FuncPattern) {
				return time.Duration(c.FuncPattern[k])
			}
			return -1
		})
	}
	if c.Jitter != 0 {
		b.WithJitter(time.Duration(c.Jitter))
	} else if c.JitterF != 0 {
		b.WithJitterFactor(c.JitterF)
	}
	if c.MaxDur != 0 {
		b.WithMaxDuration(time.Duration(c.MaxDur))
	}
	if onScheduled != nil {
		b.OnRetryScheduled(onScheduled)
	}
	return b.Build()
}

const (
	relTol  = 1e-5 // jitter factor: float32 arithmetic in the implementation (DESIGN.md L6)
	stepTol = 1e-6 // one backoff step: float32 conversion and multiplication
)

// base returns the un-jittered k-th delay (k = 0 for the first retry) as an interval [lo, hi] the property allows.
func (c cfg) base(k int) (lo, hi float64) {
	factor := float64(c.Factor)
	if c.DefaultBO {
		factor = 2
	}
	switch c.Kind {
	case "none":
		return 0, 0
	case "fixed", "func-none":
		return float64(c.Delay), float64(c.Delay)
	case "backoff":
		// min(delay*factor^k, maxDelay), computed step by step as the statement's "k-th consecutive delay": every step may
		// round to whole nanoseconds and carries float32 rounding (DESIGN.md L6); the cap at maxDelay is exact
		lo, hi = float64(c.Delay), float64(c.Delay)
		for i := 0; i < k; i++ {
			lo = lo*factor*(1-stepTol) - 1
			hi = hi*factor*(1+stepTol) + 1
			if lo > float64(c.MaxDelay) {
				lo = float64(c.MaxDelay)
			}
			if hi > float64(c.MaxDelay) {
				hi = float64(c.MaxDelay)
			}
		}
		return lo, hi
	case "backoff-func-mixed":
		if k < len(c.FuncPattern) && c.FuncPattern[k] != -1 {
			return float64(c.FuncPattern[k]), float64(c.FuncPattern[k])
		}
		steps := 0 // backoff delays produced before this one
		for i := 0; i < k; i++ {
			if i >= len(c.FuncPattern) || c.FuncPattern[i] == -1 {
				steps++
			}
		}
		lo, hi = float64(c.Delay), float64(c.Delay)
		for i := 0; i < steps; i++ {
			lo = lo*factor*(1-stepTol) - 1
			hi = hi*factor*(1+stepTol) + 1
			if lo > float64(c.MaxDelay) {
				lo = float64(c.MaxDelay)
			}
			if hi > float64(c.MaxDelay) {
				hi = float64(c.MaxDelay)
			}
		}
		return lo, hi
	case "random":
		return float64(c.Min), float64(c.Max)
	case "func-value", "func-slow":
		return float64(c.FuncVal), float64(c.FuncVal)
	case "func-zero":
		return 0, 0
	}
	return 0, 0
}

// envelope widens the base interval by the configured jitter. A delay of exactly zero is never jittered.
func (c cfg) envelope(k int) (lo, hi float64) {
	lo, hi = c.base(k)
	if hi == 0 {
		return 0, 0
	}
	switch {
	case c.Jitter != 0:
		lo, hi = lo-float64(c.Jitter)-1, hi+float64(c.Jitter)+1
	case c.JitterF != 0:
		f := float64(c.JitterF)
		lo, hi = lo*(1-f)-lo*relTol-1, hi*(1+f)+hi*relTol+1
	}
	if lo < 0 {
		lo = 0
	}
	return lo, hi
}

func logUniform(t *rapid.T, label string, lo, hi int64) int64 {
	e := rapid.Float64Range(math.Log(float64(lo)), math.Log(float64(hi))).Draw(t, label)
	v := int64(math.Exp(e))
	if v < lo {
		v = lo
	}
	if v > hi {
		v = hi
	}
	return v
}

// genCfg draws a configuration; scale bounds the magnitudes (ns).
func genCfg(t *rapid.T, lo, hi int64) cfg {
	c := cfg{Kind: rapid.SampledFrom([]string{"none", "fixed", "backoff", "backoff", "backoff", "random", "func-value", "func-zero", "func-none", "backoff-func-mixed", "func-slow"}).Draw(t, "kind")}
	c.Delay = logUniform(t, "delay", lo, hi)
	switch c.Kind {
	case "backoff", "backoff-func-mixed":
		c.MaxDelay = logUniform(t, "maxDelay", c.Delay, hi)
		if c.MaxDelay < c.Delay {
			c.MaxDelay = c.Delay
		}
		c.DefaultBO = rapid.IntRange(0, 3).Draw(t, "defaultBackoff") == 0
		c.Factor = float32(rapid.SampledFrom([]float64{1, 1.5, 2, 3, 10, 1.1, 7.3}).Draw(t, "factor"))
		if c.Kind == "backoff-func-mixed" {
			c.DefaultBO = false
			for k := 0; k < 12; k++ {
				v := int64(-1)
				if rapid.Bool().Draw(t, "funcAnswers") {
					v = logUniform(t, "funcVal", lo, hi)
				}
				c.FuncPattern = append(c.FuncPattern, v)
			}
		}
	case "random":
		c.Min = logUniform(t, "min", lo, hi)
		c.Max = logUniform(t, "max", c.Min, hi)
		if c.Max <= c.Min {
			c.Max = c.Min + 1
		}
	case "func-value":
		c.FuncVal = logUniform(t, "funcVal", lo, hi)
	case "func-slow":
		c.FuncVal = logUniform(t, "funcVal", lo, hi)
		c.SlowUs = rapid.SampledFrom([]int{200, 1000, 3000}).Draw(t, "slowUs")
	case "fixed":
		if rapid.IntRange(0, 2).Draw(t, "threeStep") == 0 {
			c.PriorDelay = "backoff+random"
		}
	}
	switch rapid.IntRange(0, 3).Draw(t, "jitterKind") {
	case 1:
		c.Jitter = logUniform(t, "jitter", 1, hi)
		if rapid.Bool().Draw(t, "smallJitter") {
			c.Jitter = max(1, c.Delay/int64(rapid.IntRange(2, 20).Draw(t, "jitterDiv")))
		}
	case 2:
		c.JitterF = float32(rapid.SampledFrom([]float64{0.1, 0.25, 0.5, 1, 0.01}).Draw(t, "jitterFactor"))
	}
	switch c.Kind {
	case "backoff":
		c.PriorDelay = rapid.SampledFrom([]string{"", "", "fixed", "random"}).Draw(t, "priorDelay")
	case "random":
		c.PriorDelay = rapid.SampledFrom([]string{"", "", "fixed", "backoff"}).Draw(t, "priorDelay")
	}
	if c.Jitter != 0 || c.JitterF != 0 {
		c.PriorJitter = rapid.IntRange(0, 3).Draw(t, "priorJitter") == 0
	}
	c.Failures = rapid.IntRange(1, 12).Draw(t, "failures")
	return c
}

// ---------------------------------------------------------------------------------------------------------------------
// black box: what OnRetryScheduled reports and when the next attempt starts

type schedObs struct {
	delay     time.Duration
	at        time.Time
	elapsedAt time.Duration // ExecutionAttempt.ElapsedTime() read inside the listener: not earlier than the computation
}

type entryObs struct {
	at            time.Time
	elapsedAtExit time.Duration // sampled just before the attempt returned its failure
}

func blackBox(c cfg, realWait bool) (violation, sig string, clampSeen bool, n int) {
	var mu sync.Mutex
	var scheds []schedObs
	var entries []entryObs
	ctx, cancel := context.WithCancel(context.Background())
	defer cancel()
	var elapsedInFunc []time.Duration
	c.inFunc = func(e failsafe.ExecutionAttempt[int]) {
		el := e.ElapsedTime()
		mu.Lock()
		elapsedInFunc = append(elapsedInFunc, el)
		mu.Unlock()
	}
	rp := c.build(func(e failsafe.ExecutionScheduledEvent[int]) {
		mu.Lock()
		scheds = append(scheds, schedObs{delay: e.Delay, at: time.Now(), elapsedAt: e.ElapsedTime()})
		mu.Unlock()
		if !realWait {
			cancel() // magnitudes that cannot be waited for: observe the first delay only
		}
	})
	failsafe.NewExecutor[int](rp).WithContext(ctx).GetWithExecution(func(exec failsafe.Execution[int]) (int, error) {
		now := time.Now()
		mu.Lock()
		idx := len(entries)
		entries = append(entries, entryObs{at: now})
		mu.Unlock()
		if idx >= c.Failures {
			return 1, nil
		}
		el := exec.ElapsedTime()
		mu.Lock()
		entries[idx].elapsedAtExit = el
		mu.Unlock()
		return 0, errX
	})
	for k, s := range scheds {
		d := float64(s.delay)
		if d < 0 {
			return fmt.Sprintf("delay %d is negative: %v", k, s.delay), "negative-delay", false, len(scheds)
		}
		lo, hi := c.envelope(k)
		if d > hi {
			return fmt.Sprintf("delay %d is %v, above the envelope [%v, %v]", k, s.delay, time.Duration(lo), time.Duration(hi)), "delay-above-envelope", false, len(scheds)
		}
		if c.MaxDur != 0 && k < len(entries) {
			// never past the remaining max duration: the attempt's own sample of the elapsed time is not later than the
			// policy's, so the remaining time it saw is not larger
			if rem := time.Duration(c.MaxDur) - entries[k].elapsedAtExit; s.delay > rem && s.delay > 0 {
				return fmt.Sprintf("delay %d is %v but only %v of the max duration %v remained when the attempt returned", k, s.delay, rem, time.Duration(c.MaxDur)), "delay-past-max-duration", false, len(scheds)
			}
		}
		if c.MaxDur != 0 && k < len(elapsedInFunc) {
			// the delay function's own reading of the elapsed time precedes the policy's clamp
			if rem := time.Duration(c.MaxDur) - elapsedInFunc[k]; s.delay > rem && s.delay > 0 {
				return fmt.Sprintf("delay %d is %v but only %v of the max duration %v remained when the delay function answered", k, s.delay, rem, time.Duration(c.MaxDur)), "delay-past-max-duration", false, len(scheds)
			}
		}
		if d < lo {
			// below the envelope is only legitimate as a clamp to the remaining max duration, which at the time of the
			// computation was at least maxDuration - (elapsed time read in the listener)
			if c.MaxDur == 0 {
				return fmt.Sprintf("delay %d is %v, below the envelope [%v, %v]", k, s.delay, time.Duration(lo), time.Duration(hi)), "delay-below-envelope", false, len(scheds)
			}
			if minRem := time.Duration(c.MaxDur) - s.elapsedAt; s.delay < minRem {
				return fmt.Sprintf("delay %d is %v, below the envelope [%v, %v] and below the remaining max duration (at least %v)", k, s.delay, time.Duration(lo), time.Duration(hi), minRem), "delay-below-envelope", false, len(scheds)
			}
			clampSeen = true
		}
		if realWait && k+1 < len(entries) {
			if gap := entries[k+1].at.Sub(s.at); gap < s.delay {
				return fmt.Sprintf("attempt %d started %v after its delay of %v was scheduled", k+2, gap, s.delay), "attempt-before-delay", false, len(scheds)
			}
		}
	}
	return "", "", clampSeen, len(scheds)
}

func TestDelaysBlackBox(t *testing.T) {
	const test = "TestDelaysBlackBox"
	st := harness.NewStats(test)
	defer st.Flush()
	rapid.Check(t, func(t *rapid.T) {
		realWait := rapid.Bool().Draw(t, "realWait")
		var c cfg
		if realWait {
			// small magnitudes, really waited for (a few ms per execution)
			c = genCfg(t, 1000, 400_000)
			c.Failures = rapid.IntRange(1, 6).Draw(t, "failuresSmall")
			if c.Kind == "backoff" && c.MaxDelay > 1_500_000 {
				c.MaxDelay = 1_500_000
			}
			if c.Jitter > 500_000 {
				c.Jitter = 500_000
			}
			if rapid.Bool().Draw(t, "maxDur") {
				c.MaxDur = logUniform(t, "maxDurSmall", 200_000, 4_000_000)
			}
		} else {
			c = genCfg(t, 1000, int64(10*time.Hour))
			if rapid.Bool().Draw(t, "maxDur") {
				c.MaxDur = logUniform(t, "maxDur", 1_000_000, int64(20*time.Hour))
			}
		}
		v, sig, clamp, n := blackBox(c, realWait)
		if v != "" {
			harness.Violation(t, prop, test, sig, c, "%+v: %s", c, v)
		}
		big := c.Delay >= int64(time.Second)
		nt := n > 0 && (c.Jitter != 0 || c.JitterF != 0 || clamp || (c.Kind == "backoff" && n >= 3) || big)
		b, _ := json.Marshal(c)
		st.Case(string(b), nt, "kind="+c.Kind, fmt.Sprintf("real-wait=%v", realWait), fmt.Sprintf("clamped=%v", clamp), fmt.Sprintf("jitter=%v", c.Jitter != 0 || c.JitterF != 0))
		if nt {
			st.Sample(string(b), func() any { return map[string]any{"cfg": c, "delays_observed": n, "real_wait": realWait} })
		}
	})
}

// ---------------------------------------------------------------------------------------------------------------------
// probe: consecutive delays at magnitudes that cannot be waited for (retrypolicy.VerifDelayProbe, build tag verif)

type fakeAttempt struct {
	retries int
	elapsed time.Duration
}

func (f *fakeAttempt) Context() context.Context          { return context.Background() }
func (f *fakeAttempt) Attempts() int                     { return f.retries + 1 }
func (f *fakeAttempt) Executions() int                   { return f.retries + 1 }
func (f *fakeAttempt) Retries() int                      { return f.retries }
func (f *fakeAttempt) Hedges() int                       { return 0 }
func (f *fakeAttempt) StartTime() time.Time              { return time.Time{} }
func (f *fakeAttempt) ElapsedTime() time.Duration        { return f.elapsed }
func (f *fakeAttempt) LastResult() int                   { return 0 }
func (f *fakeAttempt) LastError() error                  { return errX }
func (f *fakeAttempt) IsFirstAttempt() bool              { return f.retries == 0 }
func (f *fakeAttempt) IsRetry() bool                     { return f.retries > 0 }
func (f *fakeAttempt) IsHedge() bool                     { return false }
func (f *fakeAttempt) AttemptStartTime() time.Time       { return time.Time{} }
func (f *fakeAttempt) ElapsedAttemptTime() time.Duration { return 0 }

func probeProperty(test string, st *harness.Stats) func(*rapid.T) {
	return func(t *rapid.T) {
		c := genCfg(t, 1000, int64(10*time.Hour))
		if rapid.Bool().Draw(t, "maxDur") {
			c.MaxDur = logUniform(t, "maxDur", 1_000_000, int64(40*time.Hour))
		}
		c.SlowUs = 0 // the probe's elapsed time is virtual: nothing to gain from really sleeping in the delay function
		if rapid.IntRange(0, 2).Draw(t, "interleaved") == 0 {
			for k := 0; k < c.Failures; k++ {
				c.Interleave = append(c.Interleave, rapid.IntRange(0, 2).Draw(t, "otherRetries"))
			}
		}
		policy := c.build(nil)
		probe := retrypolicy.VerifDelayProbe[int](policy)
		other := retrypolicy.VerifDelayProbe[int](policy) // a second execution through the same policy instance
		fb := &fakeAttempt{}
		fa := &fakeAttempt{}
		var prev float64
		clamp := false
		var seq []int64
		for k := 0; k < c.Failures; k++ {
			if k < len(c.Interleave) {
				for j := 0; j < c.Interleave[k]; j++ {
					d := other(fb)
					lo, hi := c.envelope(fb.retries)
					if c.MaxDur == 0 && (float64(d) < lo || float64(d) > hi) {
						harness.Violation(t, prop, test, "delay-outside-envelope-interleaved", map[string]any{"cfg": c}, "%+v: delay %d of a second execution sharing the policy is %v, outside [%v, %v]", c, fb.retries, d, time.Duration(lo), time.Duration(hi))
					}
					fb.retries++
				}
			}
			fa.retries = k
			if c.MaxDur != 0 {
				fa.elapsed += time.Duration(logUniform(t, "elapsedStep", 1000, max(2000, c.MaxDur/4)))
			}
			d := probe(fa)
			seq = append(seq, int64(d))
			fail := func(sig, f string, a ...any) {
				harness.Violation(t, prop, test, sig, map[string]any{"cfg": c, "delays": seq}, "%+v delays %v: %s", c, seq, fmt.Sprintf(f, a...))
			}
			if d < 0 {
				fail("negative-delay", "delay %d is negative", k)
			}
			lo, hi := c.envelope(k)
			if c.MaxDur != 0 {
				// exact clamp on the virtual elapsed time
				rem := float64(time.Duration(c.MaxDur) - fa.elapsed)
				if rem < 0 {
					rem = 0
				}
				if lo > rem {
					lo, clamp = rem, true
				}
				if hi > rem {
					hi = rem
				}
			}
			if float64(d) < lo || float64(d) > hi {
				fail("delay-outside-envelope", "delay %d is %v, outside [%v, %v] (elapsed %v)", k, d, time.Duration(lo), time.Duration(hi), fa.elapsed)
			}
			if c.Kind == "backoff" && c.Jitter == 0 && c.JitterF == 0 && c.MaxDur == 0 {
				if float64(d) > float64(c.MaxDelay) {
					fail("backoff-above-max", "backoff delay %d is %v, above maxDelay %v", k, d, time.Duration(c.MaxDelay))
				}
				if float64(d) < prev*(1-relTol)-1 {
					fail("backoff-decreased", "backoff delay %d is %v, smaller than the previous %v", k, d, time.Duration(prev))
				}
				prev = float64(d)
			}
		}
		nt := c.Jitter != 0 || c.JitterF != 0 || clamp || (c.Kind == "backoff" && c.Failures >= 3) || c.Delay >= int64(time.Second)
		b, _ := json.Marshal(c)
		st.Case(string(b), nt, "kind="+c.Kind, fmt.Sprintf("clamped=%v", clamp), fmt.Sprintf("jitter=%v", c.Jitter != 0 || c.JitterF != 0), fmt.Sprintf("k>=3=%v", c.Failures >= 3))
		if nt {
			st.Sample(string(b), func() any { return map[string]any{"cfg": c, "delays": seq} })
		}
	}
}

func TestDelaysProbe(t *testing.T) {
	st := harness.NewStats("TestDelaysProbe")
	defer st.Flush()
	rapid.Check(t, probeProperty("TestDelaysProbe", st))
}

func FuzzDelaysProbe(f *testing.F) {
	st := harness.NewStats("FuzzDelaysProbe")
	f.Fuzz(rapid.MakeFuzz(probeProperty("FuzzDelaysProbe", st)))
}

func TestRegress(t *testing.T) {
	st := harness.NewStats("TestRegress")
	defer st.Flush()
	dir := os.Getenv("VERIF_REGRESS_DIR")
	if dir == "" {
		dir = "../../regress/c13"
	}
	ents, _ := os.ReadDir(dir)
	var files []string
	for _, e := range ents {
		files = append(files, dir+"/"+e.Name())
	}
	if p := os.Getenv("VERIF_REPLAY"); p != "" {
		files = []string{p}
	}
	for _, f := range files {
		b, err := os.ReadFile(f)
		if err != nil {
			continue
		}
		var c cfg
		_ = json.Unmarshal(b, &c)
		if c.Kind == "" {
			var vr struct {
				Scenario struct {
					Cfg cfg `json:"cfg"`
				} `json:"scenario"`
			}
			_ = json.Unmarshal(b, &vr)
			c = vr.Scenario.Cfg
			if c.Kind == "" {
				var vr2 struct {
					Scenario cfg `json:"scenario"`
				}
				_ = json.Unmarshal(b, &vr2)
				c = vr2.Scenario
			}
		}
		if c.Kind == "" {
			continue
		}
		for i := 0; i < 200; i++ {
			if v, sig, _, _ := blackBox(c, false); v != "" {
				harness.Violation(t, prop, "TestRegress", sig, c, "%s", v)
			}
		}
		st.Case(f, true, "regress")
	}
}
