//go:build verif

// Package c15 checks property C15: async results follow the future protocol and agree with sync execution.
package c15

import (
	"encoding/json"
	"errors"
	"fmt"
	"os"
	"strconv"
	"sync"
	"testing"
	"time"

	"github.com/failsafe-go/failsafe-go"
	"github.com/failsafe-go/failsafe-go/fallback"
	"github.com/failsafe-go/failsafe-go/hedgepolicy"
	"github.com/failsafe-go/failsafe-go/retrypolicy"
	"github.com/failsafe-go/failsafe-go/timeout"
	"pgregory.net/rapid"

	"verif/harness"
	"verif/harness/compose"
)

const prop = "C15"

// ---------------------------------------------------------------------------------------------------------------------
// differential: the same scenario through the sync entry points and through the async ones (model-free)

func TestSyncAsyncAgree(t *testing.T) {
	const test = "TestSyncAsyncAgree"
	st := harness.NewStats(test)
	defer st.Flush()
	rapid.Check(t, func(t *rapid.T) {
		o := compose.DefaultOpts()
		if harness.Thorough() {
			o.MaxStack, o.MaxPool, o.MaxSteps, o.MaxScript = 6, 6, 8, 8
		}
		sc := compose.GenScenario(t, o)
		syncSc, asyncSc := sc, sc
		syncSc.Steps = append([]compose.Step(nil), sc.Steps...)
		asyncSc.Steps = append([]compose.Step(nil), sc.Steps...)
		for i := range sc.Steps {
			syncSc.Steps[i].Entry = sc.Steps[i].Entry % 4
			asyncSc.Steps[i].Entry = sc.Steps[i].Entry%4 + 4
		}
		rs := compose.RunScenario(syncSc, false)
		ra := compose.RunScenario(asyncSc, false)
		execs, acted := 0, 0
		for i := range rs.Steps {
			if i >= len(ra.Steps) {
				break
			}
			s, a := rs.Steps[i], ra.Steps[i]
			if s.Real == nil || a.Real == nil || s.Discard != "" || a.Discard != "" || (s.Pred != nil && s.Pred.Lenient != "") {
				continue
			}
			execs++
			if s.Pred != nil && len(s.Pred.Actions) > 0 {
				acted++
			}
			if s.Real.Val != a.Real.Val || !compose.SameErr(a.Real.Err, s.Real.Err) || s.Real.Invocations != a.Real.Invocations {
				harness.Violation(t, prop, test, "sync-async-differ", sc, "step %d: sync returned (%d,%v) after %d invocations, async (%d,%v) after %d\n  stack %s\n  steps %v",
					i, s.Real.Val, s.Real.Err, s.Real.Invocations, a.Real.Val, a.Real.Err, a.Real.Invocations, sc.StackString(), sc.Steps)
			}
		}
		key := sc.KindString() + fmt.Sprint(sc.Steps)
		nt := execs > 0 && acted > 0 && len(sc.Stack) >= 1
		st.Case(key, nt, fmt.Sprintf("stack-len=%d", len(sc.Stack)))
		st.Count("execution_pairs_compared", execs)
		if nt {
			st.Sample(key, func() any { return sc.Sample() })
		}
	})
}

// ---------------------------------------------------------------------------------------------------------------------
// the future protocol: readers, completion listeners and Cancel at generated points, attempts parked on harness gates

var errX = errors.New("attempt failed")

type readerOp string // isdone | peek (non-blocking select on Done) | get | result | error | wait (block on Done)

type scenario struct {
	Stack    string       `json:"stack"`    // none | retry | retry-delay | fallback(retry) | hedge
	Entry    int          `json:"entry"`    // 4..7: the async entry points
	Outcomes []bool       `json:"outcomes"` // per attempt: success?
	Readers  [][]readerOp `json:"readers"`
	EarlyN   int          `json:"early_n"`   // this many readers start before the first gate is opened
	Cancel   string       `json:"cancel"`    // none | before-start | in-attempt | between | after
	CancelAt int          `json:"cancel_at"` // attempt number for in-attempt / between
	// CancelAgain: wherever the harness cancels, it calls Cancel a second time right away (1), or from another goroutine at
	// the same time (2): cancelling what is already cancelled changes nothing
	CancelAgain int `json:"cancel_again,omitempty"`
}

type obs struct {
	seq    int
	who    string // listener | reader<i> | harness
	what   string
	val    int
	err    error
	isDone bool
}

type runOut struct {
	violation, sig, inconclusive string
	blockedReaders               int
	cancelMid                    bool
}

func run(sc scenario) (out runOut) {
	fail := func(sig, f string, a ...any) runOut {
		out.violation, out.sig = fmt.Sprintf(f, a...), sig
		return out
	}
	var mu sync.Mutex
	var log []obs
	add := func(o obs) {
		mu.Lock()
		o.seq = len(log)
		log = append(log, o)
		mu.Unlock()
	}
	gates := make([]chan struct{}, len(sc.Outcomes)+1)
	for i := range gates {
		gates[i] = make(chan struct{})
	}
	entered := make(chan int, 64)
	attempt := 0
	var amu sync.Mutex
	body := func() (int, error) {
		amu.Lock()
		attempt++
		n := attempt
		amu.Unlock()
		entered <- n
		if n-1 < len(gates) {
			<-gates[n-1] // parked until the harness opens this attempt's gate (not cooperating with cancellation)
		}
		add(obs{who: "function", what: "exit", val: n})
		if n-1 < len(sc.Outcomes) && sc.Outcomes[n-1] {
			return 100 + n, nil
		}
		if n-1 >= len(sc.Outcomes) {
			return 100 + n, nil // beyond the script: succeed
		}
		return n, errX
	}
	var pols []failsafe.Policy[int]
	switch sc.Stack {
	case "retry":
		pols = []failsafe.Policy[int]{retrypolicy.Builder[int]().WithMaxRetries(5).Build()}
	case "retry-delay":
		pols = []failsafe.Policy[int]{retrypolicy.Builder[int]().WithMaxRetries(5).WithDelay(time.Hour).Build()}
	case "fallback(retry)":
		pols = []failsafe.Policy[int]{fallback.WithResult[int](55), retrypolicy.Builder[int]().WithMaxRetries(5).Build()}
	case "hedge":
		pols = []failsafe.Policy[int]{hedgepolicy.BuilderWithDelay[int](time.Hour).Build()}
	case "timeout(retry)":
		// a Timeout that never fires outside the retry policy: the retry policy runs on a further copy of the execution
		pols = []failsafe.Policy[int]{timeoutWith(time.Hour), retrypolicy.Builder[int]().WithMaxRetries(5).Build()}
	case "timeout(hedge)":
		pols = []failsafe.Policy[int]{timeoutWith(time.Hour), hedgepolicy.BuilderWithDelay[int](time.Hour).Build()}
	}
	ex := failsafe.NewExecutor[int](pols...).
		OnDone(func(e failsafe.ExecutionDoneEvent[int]) {
			add(obs{who: "listener", what: "OnDone", val: e.Result, err: e.Error})
		}).
		OnSuccess(func(e failsafe.ExecutionDoneEvent[int]) {
			add(obs{who: "listener", what: "OnSuccess", val: e.Result, err: e.Error})
		}).
		OnFailure(func(e failsafe.ExecutionDoneEvent[int]) {
			add(obs{who: "listener", what: "OnFailure", val: e.Result, err: e.Error})
		})
	var er failsafe.ExecutionResult[int]
	isRun := false
	switch sc.Entry {
	case 4:
		isRun = true
		er = ex.RunAsync(func() error { _, e := body(); return e })
	case 5:
		isRun = true
		er = ex.RunWithExecutionAsync(func(failsafe.Execution[int]) error { _, e := body(); return e })
	case 6:
		er = ex.GetAsync(body)
	default:
		er = ex.GetWithExecutionAsync(func(failsafe.Execution[int]) (int, error) { return body() })
	}
	cancelER := func() {
		switch sc.CancelAgain {
		case 1:
			er.Cancel()
			er.Cancel()
		case 2:
			var cw sync.WaitGroup
			cw.Add(1)
			go func() { defer cw.Done(); er.Cancel() }()
			er.Cancel()
			cw.Wait()
		default:
			er.Cancel()
		}
	}
	if sc.Cancel == "before-start" {
		cancelER()
		add(obs{who: "harness", what: "cancelled"})
	}

	// ---- readers ----
	var wg sync.WaitGroup
	startReader := func(i int) {
		wg.Add(1)
		go func() {
			defer wg.Done()
			who := fmt.Sprintf("reader%d", i)
			for _, op := range sc.Readers[i] {
				switch op {
				case "isdone":
					d := er.IsDone()
					add(obs{who: who, what: "isdone", isDone: d})
				case "peek":
					select {
					case <-er.Done():
						add(obs{who: who, what: "saw-done"})
						if !er.IsDone() {
							add(obs{who: who, what: "isdone-false-after-done"})
						}
					default:
						add(obs{who: who, what: "not-done"})
					}
				case "wait":
					<-er.Done()
					add(obs{who: who, what: "saw-done"})
					if !er.IsDone() {
						add(obs{who: who, what: "isdone-false-after-done"})
					}
				case "get":
					v, e := er.Get()
					closed := doneClosed(er)
					add(obs{who: who, what: "get", val: v, err: e})
					if !closed {
						add(obs{who: who, what: "returned-before-done"})
					}
				case "result":
					v := er.Result()
					closed := doneClosed(er)
					add(obs{who: who, what: "result", val: v})
					if !closed {
						add(obs{who: who, what: "returned-before-done"})
					}
				case "error":
					e := er.Error()
					closed := doneClosed(er)
					add(obs{who: who, what: "error", err: e})
					if !closed {
						add(obs{who: who, what: "returned-before-done"})
					}
				}
			}
		}()
	}
	for i := 0; i < sc.EarlyN && i < len(sc.Readers); i++ {
		startReader(i)
	}
	if sc.EarlyN > 0 {
		time.Sleep(200 * time.Microsecond) // let the early readers reach their blocking calls
		for i := 0; i < sc.EarlyN && i < len(sc.Readers); i++ {
			for _, op := range sc.Readers[i] {
				if op == "get" || op == "wait" || op == "result" || op == "error" {
					out.blockedReaders++
					break
				}
			}
		}
	}

	// ---- drive the attempts ----
	waitEntered := func() (int, bool) {
		select {
		case n := <-entered:
			return n, true
		case <-er.Done():
			return 0, false
		case <-harness.After(30 * time.Second):
			return -1, false
		}
	}
	usesRetry := sc.Stack == "retry" || sc.Stack == "retry-delay" || sc.Stack == "fallback(retry)" || sc.Stack == "timeout(retry)"
	isHedgeStack := sc.Stack == "hedge" || sc.Stack == "timeout(hedge)"
	cancelledBeforeCompletion := sc.Cancel == "before-start"
	for k := 1; ; k++ {
		n, ok := waitEntered()
		if n == -1 {
			// every attempt that entered was let go at once and this process has been running for 30 s since (the patience
			// clock does not count stalls): nothing but the library can be holding the execution
			return fail("never-done", "no further attempt entered and the execution result's Done channel was not closed within 30s (cancel=%s, cancel_again=%d)", sc.Cancel, sc.CancelAgain)
		}
		if !ok {
			break
		}
		if sc.Cancel == "in-attempt" && n == sc.CancelAt {
			cancelER()
			add(obs{who: "harness", what: "cancelled"})
			cancelledBeforeCompletion = true
			out.cancelMid = true
		}
		if n-1 < len(gates) {
			select {
			case <-gates[n-1]:
			default:
				close(gates[n-1])
			}
		}
		if sc.Cancel == "between" && n == sc.CancelAt && sc.Stack == "retry-delay" && n-1 < len(sc.Outcomes) && !sc.Outcomes[n-1] {
			// the attempt has failed and the policy now waits an hour before the next one
			time.Sleep(300 * time.Microsecond)
			select {
			case <-er.Done():
			default:
				cancelER()
				add(obs{who: "harness", what: "cancelled"})
				cancelledBeforeCompletion = true
				out.cancelMid = true
			}
		}
		if sc.Stack == "retry-delay" && n < 6 && !(sc.Cancel == "between" && n == sc.CancelAt) && n-1 < len(sc.Outcomes) && !sc.Outcomes[n-1] && sc.Cancel != "before-start" && !(sc.Cancel == "in-attempt" && n >= sc.CancelAt) {
			// nothing will end the hour-long delay: end the scenario by cancelling (legal, and part of the protocol)
			time.Sleep(300 * time.Microsecond)
			select {
			case <-er.Done():
			default:
				cancelER()
				add(obs{who: "harness", what: "cancelled"})
				cancelledBeforeCompletion = true
			}
		}
	}
	for _, g := range gates { // attempts that were abandoned (hedge) or entered late must not stay parked
		select {
		case <-g:
		default:
			close(g)
		}
	}
	select {
	case <-er.Done():
	case <-harness.After(30 * time.Second):
		return fail("never-done", "the execution result's Done channel was not closed 30s after the last attempt returned")
	}
	for i := sc.EarlyN; i < len(sc.Readers); i++ {
		startReader(i)
	}
	fin := make(chan struct{})
	go func() { wg.Wait(); close(fin) }()
	select {
	case <-fin:
	case <-harness.After(30 * time.Second):
		return fail("reader-blocked", "a reader was still blocked 30s after Done was closed")
	}
	if sc.Cancel == "after" {
		v0, e0 := er.Get()
		er.Cancel()
		if v, e := er.Get(); v != v0 || e != e0 {
			return fail("cancel-after-completion", "Cancel after completion changed Get from (%d,%v) to (%d,%v)", v0, e0, v, e)
		}
	}
	finalV, finalE := er.Get()
	if !er.IsDone() {
		return fail("isdone", "IsDone is false after Done was closed")
	}

	// ---- judge the log ----
	mu.Lock()
	l := append([]obs(nil), log...)
	mu.Unlock()
	lastListener := -1
	nDone, nSucc, nFail := 0, 0, 0
	for _, o := range l {
		if o.who == "listener" {
			lastListener = o.seq
			switch o.what {
			case "OnDone":
				nDone++
				if o.val != finalV || o.err != finalE {
					return fail("listener-payload", "OnDone reported (%d,%v), Get returns (%d,%v)", o.val, o.err, finalV, finalE)
				}
			case "OnSuccess":
				nSucc++
			case "OnFailure":
				nFail++
			}
		}
	}
	if nDone != 1 || nSucc+nFail != 1 {
		return fail("listener-count", "OnDone %d times, OnSuccess %d, OnFailure %d", nDone, nSucc, nFail)
	}
	for _, o := range l {
		if o.who == "listener" || o.who == "harness" || o.who == "function" {
			continue
		}
		switch o.what {
		case "returned-before-done":
			return fail("get-before-done", "%s returned from Get/Result/Error while the Done channel was not closed yet", o.who)
		case "isdone-false-after-done":
			return fail("isdone", "%s saw Done closed and then IsDone() == false", o.who)
		case "saw-done", "get", "result", "error":
			if o.seq < lastListener {
				return fail("done-before-listeners", "%s got past Done/Get (%s) before the completion listeners had run", o.who, o.what)
			}
		case "isdone":
			if o.isDone && o.seq < lastListener {
				return fail("done-before-listeners", "%s saw IsDone() == true before the completion listeners had run", o.who)
			}
		}
		switch o.what {
		case "get":
			if o.val != finalV || o.err != finalE {
				return fail("readers-disagree", "%s got (%d,%v) from Get, another caller (%d,%v)", o.who, o.val, o.err, finalV, finalE)
			}
		case "result":
			if o.val != finalV {
				return fail("readers-disagree", "%s got %d from Result, Get returns %d", o.who, o.val, finalV)
			}
		case "error":
			if o.err != finalE {
				return fail("readers-disagree", "%s got %v from Error, Get returns %v", o.who, o.err, finalE)
			}
		}
	}
	// ---- the value: what the synchronous protocol would give, or the cancellation ----
	if isRun && finalV != 0 && sc.Stack != "fallback(retry)" {
		return fail("run-value", "a Run* execution produced the value %d", finalV)
	}
	if cancelledBeforeCompletion && (usesRetry || isHedgeStack) {
		completedAnyway := false
		if isHedgeStack && sc.Cancel == "in-attempt" {
			completedAnyway = false
		}
		if !errors.Is(finalE, failsafe.ErrExecutionCanceled) && !completedAnyway {
			return fail("cancel-not-reported", "Cancel took effect before the execution completed (stack %s, cancel %s at %d) but the result is (%d,%v)", sc.Stack, sc.Cancel, sc.CancelAt, finalV, finalE)
		}
	}
	if !cancelledBeforeCompletion {
		// the sequential protocol: attempts until the first success (retry), first attempt only otherwise
		wantV, wantE := 0, error(nil)
		switch {
		case usesRetry:
			done := false
			for i, ok := range sc.Outcomes {
				if ok {
					wantV, done = 100+i+1, true
					break
				}
				if i == 5 { // maxRetries 5: six attempts
					break
				}
			}
			if !done {
				if len(sc.Outcomes) >= 6 {
					wantE = retrypolicy.ExceededError{LastResult: 6, LastError: errX}
					wantV = 0
				} else {
					wantV = 100 + len(sc.Outcomes) + 1
				}
			}
			if sc.Stack == "fallback(retry)" && wantE != nil {
				wantV, wantE = 55, nil
			}
		default:
			if len(sc.Outcomes) == 0 || sc.Outcomes[0] {
				wantV = 101
			} else {
				wantV, wantE = 1, errX
			}
		}
		if isRun && !(sc.Stack == "fallback(retry)" && wantV == 55) {
			wantV = 0
		}
		same := finalV == wantV && (finalE == wantE || (wantE != nil && finalE != nil && errors.Is(finalE, retrypolicy.ErrExceeded) && errors.Is(wantE, retrypolicy.ErrExceeded)))
		if !same {
			return fail("async-value", "result (%d,%v), the sequential protocol gives (%d,%v)", finalV, finalE, wantV, wantE)
		}
	}
	return out
}

func doneClosed(er failsafe.ExecutionResult[int]) bool {
	select {
	case <-er.Done():
		return true
	default:
		return false
	}
}

func genScenario(t *rapid.T) scenario {
	sc := scenario{
		Stack: rapid.SampledFrom([]string{"none", "retry", "retry", "retry-delay", "fallback(retry)", "hedge", "timeout(retry)", "timeout(hedge)"}).Draw(t, "stack"),
		Entry: rapid.IntRange(4, 7).Draw(t, "entry"),
	}
	n := rapid.IntRange(0, 7).Draw(t, "attempts")
	for i := 0; i < n; i++ {
		sc.Outcomes = append(sc.Outcomes, rapid.IntRange(0, 3).Draw(t, "ok") == 0)
	}
	k := rapid.IntRange(1, 16).Draw(t, "readers")
	ops := []readerOp{"isdone", "peek", "get", "result", "error", "wait"}
	for i := 0; i < k; i++ {
		m := rapid.IntRange(1, 5).Draw(t, "nops")
		var r []readerOp
		for j := 0; j < m; j++ {
			r = append(r, rapid.SampledFrom(ops).Draw(t, "op"))
		}
		sc.Readers = append(sc.Readers, r)
	}
	sc.EarlyN = rapid.IntRange(0, k).Draw(t, "early")
	sc.Cancel = rapid.SampledFrom([]string{"none", "none", "before-start", "in-attempt", "between", "after"}).Draw(t, "cancel")
	sc.CancelAt = rapid.IntRange(1, 3).Draw(t, "cancelAt")
	if sc.Cancel == "between" && sc.Stack != "retry-delay" {
		sc.Cancel = "in-attempt"
	}
	if sc.Cancel != "none" {
		sc.CancelAgain = rapid.SampledFrom([]int{0, 0, 1, 2}).Draw(t, "cancelAgain")
	}
	return sc
}

func TestFutureProtocol(t *testing.T) {
	const test = "TestFutureProtocol"
	st := harness.NewStats(test)
	defer st.Flush()
	rapid.Check(t, func(t *rapid.T) {
		sc := genScenario(t)
		o := run(sc)
		if o.inconclusive != "" {
			harness.Inconclusive(t, "%s", o.inconclusive)
		}
		if o.violation != "" {
			harness.Violation(t, prop, test, o.sig, sc, "%+v: %s", sc, o.violation)
		}
		nt := o.blockedReaders >= 2 || o.cancelMid
		b, _ := json.Marshal(sc)
		st.Case(string(b), nt, "stack="+sc.Stack, "cancel="+sc.Cancel, fmt.Sprintf("blocked-readers>=2=%v", o.blockedReaders >= 2), fmt.Sprintf("cancel-mid=%v", o.cancelMid))
		if nt {
			st.Sample(string(b), func() any { return sc })
		}
	})
}

func TestRegress(t *testing.T) {
	st := harness.NewStats("TestRegress")
	defer st.Flush()
	var files []string
	if p := os.Getenv("VERIF_REPLAY"); p != "" {
		files = []string{p}
	} else {
		dir := os.Getenv("VERIF_REGRESS_DIR")
		if dir == "" {
			dir = "../../regress/c15"
		}
		ents, _ := os.ReadDir(dir)
		for _, e := range ents {
			files = append(files, dir+"/"+e.Name())
		}
	}
	reps := 100
	if r, err := strconv.Atoi(os.Getenv("VERIF_REPLAY_REPS")); err == nil && r > 1 {
		reps = r
	}
	for _, f := range files {
		b, err := os.ReadFile(f)
		if err != nil {
			continue
		}
		var sc scenario
		_ = json.Unmarshal(b, &sc)
		if sc.Stack == "" {
			var vr struct {
				Scenario scenario `json:"scenario"`
			}
			_ = json.Unmarshal(b, &vr)
			sc = vr.Scenario
		}
		if sc.Stack == "" {
			continue
		}
		for i := 0; i < reps; i++ {
			if o := run(sc); o.violation != "" {
				harness.Violation(t, prop, "TestRegress", o.sig, sc, "%s", o.violation)
			}
		}
		st.Case(f, true, "regress")
	}
}

// TestCancelAfterInnerTimeout: under Retry(Timeout(fn)) an attempt is ended by the inner Timeout; while the retry policy
// then waits (an hour) for the next attempt, the caller cancels the ExecutionResult. The execution has not completed, so
// every reader must see ErrExecutionCanceled, not the stale result of the attempt that timed out.
func TestCancelAfterInnerTimeout(t *testing.T) {
	const test = "TestCancelAfterInnerTimeout"
	st := harness.NewStats(test)
	defer st.Flush()
	rapid.Check(t, func(t *rapid.T) {
		type scen struct {
			Entry   int    `json:"entry"`
			Readers int    `json:"readers"`
			Outer   string `json:"outer"` // none | fallback
		}
		sc := scen{Entry: rapid.IntRange(4, 7).Draw(t, "entry"), Readers: rapid.IntRange(1, 8).Draw(t, "readers"), Outer: rapid.SampledFrom([]string{"none", "fallback"}).Draw(t, "outer")}
		scheduled := make(chan struct{}, 8)
		rp := retrypolicy.Builder[int]().WithMaxRetries(3).WithDelay(time.Hour).OnRetryScheduled(func(failsafe.ExecutionScheduledEvent[int]) { scheduled <- struct{}{} }).Build()
		to := timeoutWith(500 * time.Microsecond)
		pols := []failsafe.Policy[int]{rp, to}
		if sc.Outer == "fallback" {
			pols = append([]failsafe.Policy[int]{fallback.WithResult[int](55)}, pols...)
		}
		ex := failsafe.NewExecutor[int](pols...)
		blockExec := func(e failsafe.Execution[int]) (int, error) { <-e.Canceled(); return 0, errX }
		blockPlain := func() (int, error) { time.Sleep(3 * time.Millisecond); return 0, errX } // outlasts the limit
		var er failsafe.ExecutionResult[int]
		switch sc.Entry {
		case 4:
			er = ex.RunAsync(func() error { _, e := blockPlain(); return e })
		case 5:
			er = ex.RunWithExecutionAsync(func(e failsafe.Execution[int]) error { _, err := blockExec(e); return err })
		case 6:
			er = ex.GetAsync(blockPlain)
		default:
			er = ex.GetWithExecutionAsync(blockExec)
		}
		select {
		case <-scheduled: // the first attempt timed out and the policy is now waiting for the retry
		case <-er.Done():
			v, e := er.Get()
			harness.Violation(t, prop, test, "completed-instead-of-waiting", sc, "%+v: completed with (%d,%v) instead of waiting for the retry", sc, v, e)
		case <-harness.After(30 * time.Second):
			harness.Inconclusive(t, "the first attempt did not time out within 30s")
		}
		er.Cancel()
		var wg sync.WaitGroup
		errs := make([]error, sc.Readers)
		for i := range errs {
			wg.Add(1)
			go func(i int) { defer wg.Done(); _, errs[i] = er.Get() }(i)
		}
		fin := make(chan struct{})
		go func() { wg.Wait(); close(fin) }()
		select {
		case <-fin:
		case <-harness.After(30 * time.Second):
			harness.Violation(t, prop, test, "never-done", sc, "%+v: readers still blocked 30s after Cancel", sc)
		}
		for i, e := range errs {
			if !errors.Is(e, failsafe.ErrExecutionCanceled) {
				harness.Violation(t, prop, test, "cancel-not-reported", sc, "%+v: reader %d got %v after Cancel during the retry delay that followed an inner timeout", sc, i, e)
			}
		}
		b, _ := json.Marshal(sc)
		st.Case(string(b), true, "outer="+sc.Outer)
		st.Sample(string(b), func() any { return sc })
	})
}

// TestCancelSpin: Cancel() from another goroutine after a generated spin, against an async execution that runs through
// failing attempts without delay: whichever step of the retry loop it lands on, the result is ErrExecutionCanceled.
func TestCancelSpin(t *testing.T) {
	const test = "TestCancelSpin"
	st := harness.NewStats(test)
	defer st.Flush()
	per := 2000
	rapid.Check(t, func(t *rapid.T) {
		maxSpin := rapid.SampledFrom([]int{2000, 20000, 100000}).Draw(t, "maxSpinNs")
		seed := rapid.Uint64().Draw(t, "spinSeed")
		outer := rapid.SampledFrom([]string{"none", "fallback", "hedge-1h"}).Draw(t, "outer")
		var wg sync.WaitGroup
		var firstBad atomicErr
		sem := make(chan struct{}, 32)
		for i := 0; i < per; i++ {
			seed = seed*6364136223846793005 + 1442695040888963407
			spin := time.Duration(int(seed>>33) % maxSpin)
			sem <- struct{}{}
			wg.Add(1)
			go func() {
				defer wg.Done()
				defer func() { <-sem }()
				pols := []failsafe.Policy[int]{retrypolicy.Builder[int]().WithMaxRetries(-1).Build()}
				switch outer {
				case "fallback":
					pols = append([]failsafe.Policy[int]{fallback.WithResult[int](55)}, pols...)
				case "hedge-1h":
					pols = append([]failsafe.Policy[int]{hedgepolicy.BuilderWithDelay[int](time.Hour).Build()}, pols...)
				}
				er := failsafe.NewExecutor[int](pols...).GetAsync(func() (int, error) { return 0, errX })
				for end := time.Now().Add(spin); time.Now().Before(end); {
				}
				er.Cancel()
				select {
				case <-er.Done():
				case <-harness.After(30 * time.Second):
					firstBad.set(errors.New("not done 30s after Cancel"))
					return
				}
				if _, e := er.Get(); !errors.Is(e, failsafe.ErrExecutionCanceled) {
					firstBad.set(e)
				}
			}()
		}
		wg.Wait()
		if e := firstBad.get(); e != nil {
			harness.Violation(t, prop, test, "cancel-not-reported-spin", map[string]any{"outer": outer, "max_spin_ns": maxSpin}, "outer=%s: an async unlimited retry cancelled mid-flight reported %v instead of ErrExecutionCanceled", outer, e)
		}
		st.Count("spin_trials", per)
		key := fmt.Sprintf("%s/%d/%d", outer, maxSpin, seed)
		st.Case(key, true, "outer="+outer)
		st.Sample(key, func() any { return map[string]any{"outer": outer, "max_spin_ns": maxSpin, "trials": per} })
	})
}

type atomicErr struct {
	mu sync.Mutex
	e  error
}

func (a *atomicErr) set(e error) {
	a.mu.Lock()
	if a.e == nil {
		if e == nil {
			e = errors.New("nil error: the execution completed without error")
		}
		a.e = e
	}
	a.mu.Unlock()
}
func (a *atomicErr) get() error { a.mu.Lock(); defer a.mu.Unlock(); return a.e }

func timeoutWith(d time.Duration) failsafe.Policy[int] { return timeout.With[int](d) }
