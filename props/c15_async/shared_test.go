//go:build verif

package c15

import (
	"context"
	"encoding/json"
	"errors"
	"fmt"
	"testing"
	"time"

	"github.com/failsafe-go/failsafe-go"
	"github.com/failsafe-go/failsafe-go/retrypolicy"

	"pgregory.net/rapid"

	"verif/harness"
)

// TestCancelStaysWithItsExecution: several executions are started from ONE Executor value (with or without a configured
// context), asynchronously and synchronously, and parked in their functions. Some ExecutionResults are cancelled. Each
// execution's outcome is its own: a cancelled one reports ErrExecutionCanceled, every other one returns what its function
// returned, as the equivalent synchronous execution on a fresh executor would, whichever executions were started or
// cancelled before, between or after it.
func TestCancelStaysWithItsExecution(t *testing.T) {
	const test = "TestCancelStaysWithItsExecution"
	st := harness.NewStats(test)
	defer st.Flush()
	rapid.Check(t, func(t *rapid.T) {
		type exe struct {
			Entry  int  `json:"entry"`  // 2 Get 3 GetWithExecution 6 GetAsync 7 GetWithExecutionAsync
			Cancel bool `json:"cancel"` // its ExecutionResult is cancelled while it is parked (async only)
		}
		type scen struct {
			WithCtx bool  `json:"with_ctx"`
			Execs   []exe `json:"execs"`
			Order   []int `json:"order"` // order in which the parked executions are cancelled / released
		}
		sc := scen{WithCtx: rapid.Bool().Draw(t, "withCtx")}
		for i, n := 0, rapid.IntRange(2, 5).Draw(t, "n"); i < n; i++ {
			e := exe{Entry: rapid.SampledFrom([]int{2, 3, 6, 6, 7, 7}).Draw(t, "entry")}
			e.Cancel = e.Entry >= 6 && rapid.IntRange(0, 2).Draw(t, "cancel") == 0
			sc.Execs = append(sc.Execs, e)
		}
		sc.Order = rapid.Permutation(func() []int {
			o := make([]int, len(sc.Execs))
			for i := range o {
				o[i] = i
			}
			return o
		}()).Draw(t, "order")
		rp := retrypolicy.Builder[int]().WithMaxRetries(1).Build()
		var ex failsafe.Executor[int] = failsafe.NewExecutor[int](rp)
		ctx, cancelCtx := context.WithCancel(context.Background())
		defer cancelCtx()
		if sc.WithCtx {
			ex = ex.WithContext(ctx)
		}
		type running struct {
			gate chan struct{}
			er   failsafe.ExecutionResult[int]
			done chan struct{}
			v    int
			err  error
		}
		rs := make([]*running, len(sc.Execs))
		for i, e := range sc.Execs {
			r := &running{gate: make(chan struct{}), done: make(chan struct{})}
			rs[i] = r
			val := 100 + i
			plain := func() (int, error) { <-r.gate; return val, nil }
			withExec := func(x failsafe.Execution[int]) (int, error) {
				select {
				case <-r.gate:
				case <-x.Canceled():
					return 0, errX
				}
				return val, nil
			}
			switch e.Entry {
			case 2:
				go func() { r.v, r.err = ex.Get(plain); close(r.done) }()
			case 3:
				go func() { r.v, r.err = ex.GetWithExecution(withExec); close(r.done) }()
			case 6:
				r.er = ex.GetAsync(plain)
				go func() { r.v, r.err = r.er.Get(); close(r.done) }()
			default:
				r.er = ex.GetWithExecutionAsync(withExec)
				go func() { r.v, r.err = r.er.Get(); close(r.done) }()
			}
		}
		for _, i := range sc.Order {
			if sc.Execs[i].Cancel {
				rs[i].er.Cancel()
			}
			close(rs[i].gate)
			select {
			case <-rs[i].done:
			case <-harness.After(30 * time.Second):
				harness.Violation(t, prop, test, "never-done", sc, "%+v: execution %d had not finished 30s after it was released", sc, i)
			}
		}
		cancelled := 0
		for i, e := range sc.Execs {
			r := rs[i]
			if e.Cancel {
				cancelled++
				if !errors.Is(r.err, failsafe.ErrExecutionCanceled) {
					harness.Violation(t, prop, test, "cancel-not-reported", sc, "%+v: execution %d was cancelled while parked but returned (%d,%v)", sc, i, r.v, r.err)
				}
				continue
			}
			if r.v != 100+i || r.err != nil {
				harness.Violation(t, prop, test, "cancel-spread", sc, "%+v: execution %d, which nobody cancelled, returned (%d,%v) instead of (%d,<nil>)", sc, i, r.v, r.err, 100+i)
			}
		}
		// and the executor is as good as new afterwards
		if v, err := ex.Get(func() (int, error) { return 7, nil }); v != 7 || err != nil {
			harness.Violation(t, prop, test, "cancel-spread", sc, "%+v: a later synchronous execution through the same executor returned (%d,%v)", sc, v, err)
		}
		if v, err := ex.GetAsync(func() (int, error) { return 8, nil }).Get(); v != 8 || err != nil {
			harness.Violation(t, prop, test, "cancel-spread", sc, "%+v: a later asynchronous execution through the same executor returned (%d,%v)", sc, v, err)
		}
		b, _ := json.Marshal(sc)
		st.Case(string(b), cancelled > 0 && cancelled < len(sc.Execs), fmt.Sprintf("cancelled=%d", cancelled))
		st.Sample(string(b), func() any { return sc })
	})
}
