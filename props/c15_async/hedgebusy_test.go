//go:build verif

package c15

import (
	"encoding/json"
	"errors"
	"sync/atomic"
	"testing"
	"time"

	"github.com/failsafe-go/failsafe-go"
	"github.com/failsafe-go/failsafe-go/hedgepolicy"

	"pgregory.net/rapid"

	"verif/harness"
)

// TestCancelWhileHedgeBusy: the hedge policy's own goroutine is kept busy in user code (its delay function, or its OnHedge
// listener) while an attempt delivers an acceptable result AND the caller cancels the ExecutionResult. The execution cannot
// have completed at that moment (the goroutine that completes it is parked in the harness), so the Cancel took effect
// before completion and every reader must get ErrExecutionCanceled, whichever of the two pending events the policy looks
// at first when it continues.
func TestCancelWhileHedgeBusy(t *testing.T) {
	const test = "TestCancelWhileHedgeBusy"
	st := harness.NewStats(test)
	defer st.Flush()
	rapid.Check(t, func(t *rapid.T) {
		type scen struct {
			BusyIn      string `json:"busy_in"`      // delay-func | on-hedge
			Accept      string `json:"accept"`       // default (any result ends the hedging) | custom (CancelOnResult matches the result)
			Entry       int    `json:"entry"`        // 6 GetAsync 7 GetWithExecutionAsync
			CancelFirst bool   `json:"cancel_first"` // Cancel is issued before the attempt returns its result
		}
		sc := scen{BusyIn: rapid.SampledFrom([]string{"delay-func", "on-hedge"}).Draw(t, "busyIn"), Accept: rapid.SampledFrom([]string{"default", "custom"}).Draw(t, "accept"),
			Entry: rapid.IntRange(6, 7).Draw(t, "entry"), CancelFirst: rapid.Bool().Draw(t, "cancelFirst")}
		busy := make(chan struct{})    // closed when the policy goroutine is inside user code
		release := make(chan struct{}) // closed by the harness to let it continue
		var busyOnce atomic.Bool
		park := func() {
			if busyOnce.CompareAndSwap(false, true) {
				close(busy)
				select {
				case <-release:
				case <-harness.After(30 * time.Second):
				}
			}
		}
		hb := hedgepolicy.BuilderWithDelayFunc[int](func(failsafe.ExecutionAttempt[int]) time.Duration {
			if sc.BusyIn == "delay-func" {
				park()
				return time.Hour
			}
			return 0 // start the hedge at once; the listener parks
		}).WithMaxHedges(1)
		if sc.BusyIn == "on-hedge" {
			hb.OnHedge(func(failsafe.ExecutionEvent[int]) { park() })
		}
		if sc.Accept == "custom" {
			hb.CancelOnResult(7)
		}
		first := make(chan struct{}) // the first attempt may return
		returned := make(chan struct{})
		var calls atomic.Int32
		body := func(canceled <-chan struct{}) (int, error) {
			if calls.Add(1) == 1 {
				<-first
				defer close(returned)
				return 7, nil
			}
			if canceled != nil {
				<-canceled
			}
			return 0, errX
		}
		ex := failsafe.NewExecutor[int](hb.Build())
		var er failsafe.ExecutionResult[int]
		if sc.Entry == 6 {
			er = ex.GetAsync(func() (int, error) { return body(nil) })
		} else {
			er = ex.GetWithExecutionAsync(func(e failsafe.Execution[int]) (int, error) { return body(e.Canceled()) })
		}
		select {
		case <-busy:
		case <-harness.After(30 * time.Second):
			harness.Inconclusive(t, "%+v: the hedge policy never called into the user code", sc)
		}
		if sc.CancelFirst {
			er.Cancel()
			close(first)
		} else {
			close(first)
			select {
			case <-returned:
			case <-harness.After(30 * time.Second):
			}
			time.Sleep(100 * time.Microsecond) // the result is on its way to the policy
			er.Cancel()
		}
		doneBefore := er.IsDone()
		close(release)
		var v int
		var err error
		fin := make(chan struct{})
		go func() { v, err = er.Get(); close(fin) }()
		select {
		case <-fin:
		case <-harness.After(30 * time.Second):
			harness.Violation(t, prop, test, "never-done", sc, "%+v: Get still blocked 30s after Cancel", sc)
		}
		if doneBefore {
			harness.Violation(t, prop, test, "done-while-parked", sc, "%+v: IsDone was true while the goroutine that completes the execution was parked in user code", sc)
		}
		if !errors.Is(err, failsafe.ErrExecutionCanceled) {
			harness.Violation(t, prop, test, "cancel-not-reported", sc, "%+v: Cancel took effect while the hedge policy was busy in user code, before the execution completed, but the result is (%d,%v)", sc, v, err)
		}
		b, _ := json.Marshal(sc)
		st.Case(string(b), true, "busy-in="+sc.BusyIn, "accept="+sc.Accept)
		st.Sample(string(b), func() any { return sc })
	})
}
