//go:build verif

// Package c04 checks property C04: an open breaker admits nothing; a half-open breaker admits at most its trial capacity
// and every admitted trial gives its permit back.
package c04

import (
	"context"
	"encoding/json"
	"errors"
	"fmt"
	"math"
	"os"
	"strconv"
	"sync"
	"sync/atomic"
	"testing"
	"time"

	"github.com/failsafe-go/failsafe-go"
	"github.com/failsafe-go/failsafe-go/bulkhead"
	"github.com/failsafe-go/failsafe-go/circuitbreaker"
	"github.com/failsafe-go/failsafe-go/fallback"
	"github.com/failsafe-go/failsafe-go/retrypolicy"
	"github.com/failsafe-go/failsafe-go/timeout"
	"pgregory.net/rapid"

	"verif/harness"
	"verif/harness/cbmodel"
)

const prop = "C04"

var errX = errors.New("attempt failed")

const (
	okVal = 7
	fbVal = 55
)

type execSpec struct {
	Wrapper string `json:"wrapper"` // bare retry timeout-fires fallback inner-bulkhead-full
	Async   bool   `json:"async"`
	Fail    bool   `json:"fail"`
	Beh     string `json:"beh"` // instant | gate | cancel (parked until the harness cancels its context)
}

type scenario struct {
	CB      cbmodel.Config `json:"cb"`      // count / ratio thresholds, optional success threshold; delay on the frozen clock
	Racers  []execSpec     `json:"racers"`  // phase A: run concurrently against the closed breaker (instant behaviour)
	Blocked []execSpec     `json:"blocked"` // phase A2: submitted while the breaker is open: none may get through
	RaceB   bool           `json:"race_b"`  // phase B: trials are submitted concurrently (racing for permits) instead of one by one
	Trials  []execSpec     `json:"trials"`  // phase B: submitted after the delay elapsed
	Release []int          `json:"release"` // order in which parked trials are completed
	Rounds  int            `json:"rounds"`  // repeat phases A2/B this many times
	// the OnOpen listener takes a while, and executions are submitted while it runs
	SlowOpen bool `json:"slow_open"`
	// BurstRelease: parked trials with identical outcomes are completed all at once instead of one by one
	BurstRelease bool `json:"burst_release,omitempty"`
	// ReHalfOpen: HalfOpen() is called on the breaker while it is half-open with trials in flight
	ReHalfOpen bool `json:"re_half_open,omitempty"`
	// T0: the virtual clock's reading when the scenario starts
	T0 int64 `json:"t0,omitempty"`
	// BackStepNs: while the breaker is open the clock reads this much earlier than when it opened (the library reads the
	// wall clock, which gets set back now and then); the delay has not elapsed by any reading, nothing may get through
	BackStepNs int64 `json:"back_step_ns,omitempty"`
}

type execState struct {
	spec    execSpec
	gate    chan struct{}
	cancel  context.CancelFunc
	entered atomic.Int32
	done    chan struct{}
	val     int
	err     error
	sawOpen bool // OnOpen had been observed (and nothing else since) when the execution was submitted
}

type world struct {
	now     atomic.Int64
	cb      circuitbreaker.CircuitBreaker[int]
	openNow atomic.Bool // set by OnOpen, cleared by OnHalfOpen/OnClose; the listeners run under the breaker's lock
	meter   atomic.Int32
	maxIn   atomic.Int32
	fullBH  bulkhead.Bulkhead[int]
	// slow OnOpen listener
	slowOpen    chan struct{}
	slowRelease chan struct{}
	slowOnce    atomic.Bool
}

func newWorld(c cbmodel.Config, slowOpen bool) *world {
	w := &world{}
	if slowOpen {
		w.slowOpen, w.slowRelease = make(chan struct{}), make(chan struct{})
	}
	b := circuitbreaker.Builder[int]()
	switch c.Kind {
	case 0:
		b.WithFailureThreshold(c.FT)
	case 1:
		b.WithFailureThresholdRatio(c.FT, c.FCap)
	case 2:
		b.WithFailureThresholdPeriod(c.FT, time.Duration(c.Period))
	default:
		b.WithFailureRateThreshold(c.FRate, c.FExec, time.Duration(c.Period))
	}
	if c.ST != 0 {
		b.WithSuccessThresholdRatio(c.ST, c.SCap)
	}
	b.WithDelay(time.Duration(c.Delay))
	b.OnOpen(func(circuitbreaker.StateChangedEvent) {
		w.openNow.Store(true)
		// a listener that takes its time (once per scenario): the breaker is open from the moment the event is delivered,
		// whatever else the opening goroutine still has to do
		if w.slowOpen != nil && w.slowOnce.CompareAndSwap(false, true) {
			close(w.slowOpen)
			select {
			case <-w.slowRelease:
			case <-harness.After(5 * time.Second):
			}
		}
	})
	b.OnHalfOpen(func(circuitbreaker.StateChangedEvent) { w.openNow.Store(false) })
	b.OnClose(func(circuitbreaker.StateChangedEvent) { w.openNow.Store(false) })
	circuitbreaker.VerifWithClock[int](b, func() int64 { return w.now.Load() })
	w.cb = b.Build()
	w.fullBH = bulkhead.Builder[int](1).Build()
	w.fullBH.TryAcquirePermit() // held for the whole scenario: everything routed through it is refused at once
	return w
}

func (w *world) submit(sp execSpec) *execState {
	st := &execState{spec: sp, gate: make(chan struct{}), done: make(chan struct{})}
	ctx, cancel := context.WithCancel(context.Background())
	st.cancel = cancel
	fn := func(exec failsafe.Execution[int]) (int, error) {
		st.entered.Add(1)
		in := w.meter.Add(1)
		defer w.meter.Add(-1)
		for {
			m := w.maxIn.Load()
			if in <= m || w.maxIn.CompareAndSwap(m, in) {
				break
			}
		}
		switch {
		case sp.Wrapper == "timeout-fires":
			select {
			case <-exec.Canceled():
			case <-harness.After(40 * time.Second):
			}
			return 0, errX
		case sp.Beh == "gate":
			select {
			case <-st.gate:
			case <-exec.Canceled():
				return 0, exec.Context().Err()
			}
		case sp.Beh == "cancel":
			select {
			case <-exec.Canceled():
			case <-harness.After(40 * time.Second):
			}
			return 0, exec.Context().Err()
		}
		if sp.Fail {
			return 0, errX
		}
		return okVal, nil
	}
	var pols []failsafe.Policy[int]
	switch sp.Wrapper {
	case "retry":
		pols = []failsafe.Policy[int]{retrypolicy.Builder[int]().WithMaxRetries(1).ReturnLastFailure().Build(), w.cb}
	case "timeout-fires":
		pols = []failsafe.Policy[int]{timeout.With[int](2 * time.Millisecond), w.cb}
	case "fallback":
		pols = []failsafe.Policy[int]{fallback.BuilderWithResult[int](fbVal).HandleErrors(circuitbreaker.ErrOpen).Build(), w.cb}
	case "inner-bulkhead-full":
		pols = []failsafe.Policy[int]{w.cb, w.fullBH}
	default:
		pols = []failsafe.Policy[int]{w.cb}
	}
	ex := failsafe.NewExecutor[int](pols...).WithContext(ctx)
	if sp.Beh == "precancel" {
		cancel() // the caller had given up before the execution reached the breaker: an admitted trial is a trial all the same
	}
	st.sawOpen = w.openNow.Load()
	go func() {
		defer close(st.done)
		if sp.Async {
			st.val, st.err = ex.GetWithExecutionAsync(fn).Get()
		} else {
			st.val, st.err = ex.GetWithExecution(fn)
		}
	}()
	return st
}

func wait(st *execState) bool {
	select {
	case <-st.done:
		return true
	case <-harness.After(30 * time.Second):
		return false
	}
}

// rejectedProperly: an execution refused by the open breaker, as seen through its wrapper.
func rejectedProperly(st *execState) bool {
	if st.entered.Load() != 0 {
		return false
	}
	switch st.spec.Wrapper {
	case "fallback":
		return st.val == fbVal && st.err == nil
	case "timeout-fires":
		// the 2 ms timer may beat even an immediate rejection when the machine stalls: what matters is that the function
		// was never reached
		return errors.Is(st.err, circuitbreaker.ErrOpen) || errors.Is(st.err, timeout.ErrExceeded)
	default:
		return errors.Is(st.err, circuitbreaker.ErrOpen)
	}
}

// selfFinishing: the trial ends without the harness doing anything (and records a result on its own).
func selfFinishing(sp execSpec) bool {
	return sp.Wrapper == "timeout-fires" || sp.Wrapper == "inner-bulkhead-full" || sp.Beh == "instant" || sp.Beh == "precancel"
}

// recordsFailure: how the breaker (default conditions: any error is a failure) classifies the trial's result.
func recordsFailure(sp execSpec) bool {
	return sp.Wrapper == "timeout-fires" || sp.Wrapper == "inner-bulkhead-full" || sp.Beh == "cancel" || sp.Fail
}

type runOut struct {
	violation, sig, inconclusive string
	racedOpen                    bool // the breaker opened while at least 2 executions were in flight
	racedTrials                  bool // more than capacity executions raced for trial permits
	slowOpenHit                  bool
	hugeDelay                    bool
	burstCompleted               bool
	reHalfOpen                   bool
	paths                        map[string]bool
}

func toModel(s circuitbreaker.State) cbmodel.State {
	switch s {
	case circuitbreaker.ClosedState:
		return cbmodel.Closed
	case circuitbreaker.OpenState:
		return cbmodel.Open
	}
	return cbmodel.HalfOpen
}

func run(sc scenario) (out runOut) {
	out.paths = map[string]bool{}
	fail := func(sig, f string, a ...any) runOut {
		out.violation, out.sig = fmt.Sprintf(f, a...), sig
		return out
	}
	w := newWorld(sc.CB, sc.SlowOpen)
	w.now.Store(sc.T0)
	mc := sc.CB
	switch mc.Kind {
	case 0:
		mc.FCap = mc.FT
	case 2:
		mc.FCap, mc.FExec = mc.FT, mc.FT
	case 3:
		mc.FT, mc.FCap = 1, 1
	}
	m := cbmodel.New(mc)

	// ---- phase A: a batch races against the closed breaker; some of its failures trip it ----
	var racers []*execState
	start := make(chan struct{})
	var wg sync.WaitGroup
	var mu sync.Mutex
	for _, sp := range sc.Racers {
		wg.Add(1)
		go func(sp execSpec) {
			defer wg.Done()
			<-start
			st := w.submit(sp)
			mu.Lock()
			racers = append(racers, st)
			mu.Unlock()
		}(sp)
	}
	close(start)
	if sc.SlowOpen {
		// while the OnOpen listener is still running, more executions arrive: the open event has been delivered, so they
		// must be refused
		select {
		case <-w.slowOpen:
			var late []*execState
			for k := 0; k < 4; k++ {
				late = append(late, w.submit(execSpec{Wrapper: "bare", Beh: "instant", Async: k%2 == 0}))
			}
			time.Sleep(300 * time.Microsecond)
			close(w.slowRelease)
			mu.Lock()
			racers = append(racers, late...)
			mu.Unlock()
			out.slowOpenHit = true
		case <-time.After(20 * time.Millisecond):
			close(w.slowRelease) // the batch did not open the breaker
		}
	}
	wg.Wait()
	for i, st := range racers {
		if !wait(st) {
			out.inconclusive = fmt.Sprintf("racer %d (%+v) had not finished after 30s", i, st.spec)
			return out
		}
	}
	for i, st := range racers {
		// submitted after OnOpen was observed (delay not elapsed: the clock is frozen): must have been refused
		if st.sawOpen && !rejectedProperly(st) {
			return fail("admitted-while-open", "racer %d (%+v) was submitted after the breaker had opened, yet it entered the function %d times and returned (%d,%v)", i, st.spec, st.entered.Load(), st.val, st.err)
		}
		if st.entered.Load() == 0 && !errors.Is(st.err, circuitbreaker.ErrOpen) && !(st.spec.Wrapper == "fallback" && st.val == fbVal) && st.spec.Wrapper != "inner-bulkhead-full" {
			return fail("rejected-without-erropen", "racer %d (%+v) never entered the function but returned (%d,%v)", i, st.spec, st.val, st.err)
		}
	}
	if w.cb.IsOpen() && len(sc.Racers) >= 2 {
		out.racedOpen = true
	}
	if !w.cb.IsOpen() {
		w.cb.Open()
	}
	m.Manual(cbmodel.Open, w.now.Load())

	for round := 0; round < sc.Rounds; round++ {
		// ---- phase A2: the breaker is open and its delay has not elapsed: nothing gets through ----
		if got := w.cb.State(); got != circuitbreaker.OpenState {
			return fail("state", "round %d: expected the breaker to be open, it is %v", round, got)
		}
		back := sc.BackStepNs
		if back > w.now.Load() {
			back = w.now.Load()
		}
		w.now.Add(-back)
		var blocked []*execState
		for _, sp := range sc.Blocked {
			blocked = append(blocked, w.submit(sp))
		}
		for i, st := range blocked {
			if !wait(st) {
				return fail("open-breaker-blocks", "execution %d (%+v) submitted against the open breaker had not returned after 30s", i, st.spec)
			}
			if !rejectedProperly(st) {
				return fail("admitted-while-open", "round %d: execution %d (%+v) went through the open breaker: entered the function %d times, returned (%d,%v)", round, i, st.spec, st.entered.Load(), st.val, st.err)
			}
		}
		if w.cb.TryAcquirePermit() {
			return fail("admitted-while-open", "round %d: TryAcquirePermit succeeded on the open breaker before its delay elapsed", round)
		}
		w.now.Add(back) // the clock is right again

		if sc.CB.Delay > 1<<60 {
			// "open until closed by hand": the clock moves on (days), the breaker stays open; no trial phase
			w.now.Add(int64(100*time.Hour) * int64(round+1))
			out.hugeDelay = true
			continue
		}
		// ---- phase B: the delay elapses (nothing admitted earlier is still in flight); trials are submitted ----
		w.now.Add(sc.CB.Delay)
		now := w.now.Load()
		w.maxIn.Store(0)
		var trials []*execState
		hcap := int(mc.SCap)
		if hcap == 0 {
			hcap = int(mc.FExec)
		}
		if hcap == 0 {
			hcap = int(mc.FCap)
		}
		if sc.RaceB {
			// all parked kinds, submitted at once: exactly capacity of them may enter
			startB := make(chan struct{})
			var wgB sync.WaitGroup
			trials = make([]*execState, len(sc.Trials))
			for i, sp := range sc.Trials {
				sp := sp
				if selfFinishing(sp) {
					sp.Wrapper, sp.Beh = "bare", "gate"
				}
				wgB.Add(1)
				go func(i int) {
					defer wgB.Done()
					<-startB
					trials[i] = w.submit(sp)
				}(i)
			}
			close(startB)
			wgB.Wait()
			if len(sc.Trials) > hcap {
				out.racedTrials = true
			}
			// everyone either parks inside the function or is refused
			deadline := harness.Wait(30 * time.Second)
			for {
				settled := 0
				for _, st := range trials {
					select {
					case <-st.done:
						settled++
					default:
						if st.entered.Load() > 0 {
							settled++
						}
					}
				}
				if settled == len(trials) {
					break
				}
				if deadline.Expired() {
					out.inconclusive = "phase B: trials neither entered nor were refused within 30s"
					return out
				}
				time.Sleep(50 * time.Microsecond)
			}
			entered := 0
			for i, st := range trials {
				if st.entered.Load() > 0 {
					entered++
					if a, _ := m.TryAcquire(now); !a {
						return fail("half-open-over-admission", "round %d: %d trials entered the function, trial capacity is %d", round, entered, hcap)
					}
				} else {
					<-st.done
					if !rejectedProperly(st) {
						return fail("rejected-without-erropen", "round %d: trial %d (%+v) never entered but returned (%d,%v)", round, i, st.spec, st.val, st.err)
					}
				}
			}
			want := min(hcap, len(trials))
			if entered != want {
				return fail("half-open-admission-count", "round %d: %d of %d concurrent trials were admitted, trial capacity is %d", round, entered, len(trials), hcap)
			}
		} else {
			// one by one, the model in lock-step
			for i, sp := range sc.Trials {
				st := w.submit(sp)
				trials = append(trials, st)
				admit, checked := m.TryAcquire(now)
				// wait until the trial is inside the function, or finished
				deadline := harness.Wait(30 * time.Second)
				for st.entered.Load() == 0 {
					select {
					case <-st.done:
					default:
						if deadline.Expired() {
							out.inconclusive = "phase B: a trial neither entered nor finished within 30s"
							return out
						}
						time.Sleep(20 * time.Microsecond)
						continue
					}
					break
				}
				entered := st.entered.Load() > 0
				if sp.Wrapper == "inner-bulkhead-full" {
					<-st.done
					entered = st.err != nil && errors.Is(st.err, bulkhead.ErrFull) // admitted by the breaker, refused further in
				}
				if !checked {
					m.ObservedAcquire(entered)
				} else if entered != admit {
					return fail("half-open-admission", "round %d: trial %d (%+v) admitted=%v, the model says %v (model state %v)", round, i, sp, entered, admit, m.State())
				}
				if !entered {
					<-st.done
					if !rejectedProperly(st) {
						return fail("rejected-without-erropen", "round %d: trial %d (%+v) never entered but returned (%d,%v)", round, i, sp, st.val, st.err)
					}
					continue
				}
				out.paths[sp.Wrapper+"/"+sp.Beh] = true
				if selfFinishing(sp) {
					if !wait(st) {
						return fail("trial-stuck", "round %d: trial %d (%+v) had not finished after 30s", round, i, sp)
					}
					m.Record(!recordsFailure(sp), now, sc.CB.Delay)
					if got := toModel(w.cb.State()); got != m.State() {
						return fail("state-after-trial", "round %d: after trial %d (%+v) finished the breaker is %v, the model %v", round, i, sp, got, m.State())
					}
				}
			}
		}
		if v := int(w.maxIn.Load()); v > hcap && m.State() == cbmodel.HalfOpen {
			return fail("half-open-over-admission", "round %d: %d trial executions were in progress at once, trial capacity is %d", round, v, hcap)
		}
		// ---- a redundant manual HalfOpen() while trials are in flight changes nothing: no fresh set of permits ----
		if sc.ReHalfOpen && m.State() == cbmodel.HalfOpen && toModel(w.cb.State()) == cbmodel.HalfOpen {
			w.cb.HalfOpen()
			out.reHalfOpen = true
			if free, ok := m.FreePermits(); ok && free == 0 && w.cb.TryAcquirePermit() {
				return fail("half-open-over-admission", "round %d: HalfOpen() on the half-open breaker whose %d trial permits were all taken handed out another permit", round, hcap)
			}
		}
		// ---- or complete them all at once, when their outcomes are identical (any order then gives the same history) ----
		if sc.BurstRelease {
			var pend []*execState
			same := true
			for _, st := range trials {
				select {
				case <-st.done:
					continue
				default:
				}
				if st.entered.Load() == 0 {
					continue
				}
				if len(pend) > 0 && recordsFailure(st.spec) != recordsFailure(pend[0].spec) {
					same = false
				}
				pend = append(pend, st)
			}
			if same && len(pend) >= 2 {
				for _, st := range pend {
					if st.spec.Beh == "cancel" {
						st.cancel()
					} else {
						close(st.gate)
					}
				}
				for i, st := range pend {
					if !wait(st) {
						return fail("trial-stuck", "round %d: parked trial %d (%+v) had not finished 30s after all were completed at once", round, i, st.spec)
					}
					out.paths[st.spec.Wrapper+"/"+st.spec.Beh] = true
					m.Record(!recordsFailure(st.spec), now, sc.CB.Delay)
				}
				out.burstCompleted = true
				if got := toModel(w.cb.State()); got != m.State() {
					return fail("state-after-trial", "round %d: after %d parked trials with identical outcomes finished together the breaker is %v, the model %v", round, len(pend), got, m.State())
				}
			}
		}
		// ---- complete the parked trials in the generated order, the model in lock-step ----
		for _, idx := range sc.Release {
			if idx >= len(trials) {
				continue
			}
			st := trials[idx]
			select {
			case <-st.done:
				continue
			default:
			}
			if st.entered.Load() == 0 {
				continue
			}
			sp := st.spec
			if sp.Beh == "cancel" {
				st.cancel()
			} else {
				close(st.gate)
			}
			if !wait(st) {
				return fail("trial-stuck", "round %d: trial %d (%+v) had not finished 30s after it was completed", round, idx, sp)
			}
			out.paths[sp.Wrapper+"/"+sp.Beh] = true
			m.Record(!recordsFailure(sp), now, sc.CB.Delay)
			if got := toModel(w.cb.State()); got != m.State() {
				return fail("state-after-trial", "round %d: after trial %d (%+v) finished the breaker is %v, the model %v (a result was not recorded, or recorded twice)", round, idx, sp, got, m.State())
			}
		}
		for i, st := range trials {
			if !wait(st) {
				return fail("trial-stuck", "round %d: trial %d (%+v) never finished", round, i, st.spec)
			}
		}
		// ---- quiescent: every admitted trial has given its permit back ----
		if free, ok := m.FreePermits(); ok {
			got := 0
			for got <= hcap && w.cb.TryAcquirePermit() {
				got++
			}
			if got != free {
				return fail("trial-permits", "round %d: half-open and quiescent: %d permits could be acquired, %d of the capacity %d should be free", round, got, free, hcap)
			}
			return out // the probe consumed the permits: the scenario ends here
		}
		if m.State() != cbmodel.Open {
			w.cb.Open()
			m.Manual(cbmodel.Open, now)
		}
	}
	return out
}

func genSpec(t *rapid.T, parked bool) execSpec {
	sp := execSpec{
		Wrapper: rapid.SampledFrom([]string{"bare", "bare", "retry", "timeout-fires", "fallback", "inner-bulkhead-full"}).Draw(t, "wrapper"),
		Async:   rapid.Bool().Draw(t, "async"),
		Fail:    rapid.Bool().Draw(t, "fail"),
		Beh:     "instant",
	}
	if parked {
		sp.Beh = rapid.SampledFrom([]string{"gate", "gate", "cancel", "instant"}).Draw(t, "beh")
	}
	if sp.Wrapper == "retry" && parked {
		sp.Wrapper = "bare" // a retry would ask for a second permit after a failed trial: keep one trial per execution
	}
	if parked && sp.Wrapper == "bare" && rapid.IntRange(0, 5).Draw(t, "precancel") == 0 {
		sp.Beh = "precancel" // instant, with a context that is already cancelled
	}
	return sp
}

func genScenario(t *rapid.T) scenario {
	var c cbmodel.Config
	c.Kind = rapid.IntRange(0, 3).Draw(t, "kind")
	switch c.Kind {
	case 0:
		c.FT = uint(rapid.IntRange(1, 4).Draw(t, "ft"))
	case 1:
		c.FCap = uint(rapid.IntRange(1, 6).Draw(t, "fcap"))
		c.FT = uint(rapid.IntRange(1, int(c.FCap)).Draw(t, "ft"))
	case 2:
		c.FT = uint(rapid.IntRange(1, 4).Draw(t, "ft"))
		c.Period = 1_000_000_000 // far longer than the scenario's clock jumps: every result is well inside the window
	default:
		c.FRate = uint(rapid.SampledFrom([]int{1, 34, 50, 67, 100}).Draw(t, "frate"))
		c.FExec = uint(rapid.IntRange(1, 5).Draw(t, "fexec"))
		c.Period = 1_000_000_000
	}
	if rapid.Bool().Draw(t, "succ") {
		c.SCap = uint(rapid.IntRange(1, 5).Draw(t, "scap"))
		c.ST = uint(rapid.IntRange(1, int(c.SCap)).Draw(t, "st"))
	}
	c.Delay = 1000
	if rapid.IntRange(0, 7).Draw(t, "hugeDelay") == 0 {
		c.Delay = rapid.SampledFrom([]int64{math.MaxInt64, math.MaxInt64 - 1, 1 << 62}).Draw(t, "delayHuge")
	}
	sc := scenario{CB: c, RaceB: rapid.Bool().Draw(t, "raceB"), Rounds: rapid.IntRange(1, 3).Draw(t, "rounds"), SlowOpen: rapid.Bool().Draw(t, "slowOpen"), BurstRelease: rapid.Bool().Draw(t, "burstRelease"), ReHalfOpen: rapid.Bool().Draw(t, "reHalfOpen"), T0: rapid.SampledFrom([]int64{0, 1, 1700000000000000000}).Draw(t, "t0"),
		BackStepNs: rapid.SampledFrom([]int64{0, 0, 0, 1, 1000, 3_600_000_000_000}).Draw(t, "backStepNs")}
	maxG := 16
	if harness.Thorough() {
		maxG = 32
	}
	for i, n := 0, rapid.IntRange(2, maxG).Draw(t, "racers"); i < n; i++ {
		sp := genSpec(t, false)
		if sp.Wrapper == "timeout-fires" {
			sp.Wrapper = "bare"
		}
		sc.Racers = append(sc.Racers, sp)
	}
	for i, n := 0, rapid.IntRange(1, 6).Draw(t, "blocked"); i < n; i++ {
		sp := genSpec(t, false)
		if sp.Wrapper == "inner-bulkhead-full" {
			sp.Wrapper = "bare"
		}
		sc.Blocked = append(sc.Blocked, sp)
	}
	hcap := int(c.SCap)
	if hcap == 0 {
		switch c.Kind {
		case 0, 2:
			hcap = int(c.FT)
		case 1:
			hcap = int(c.FCap)
		default:
			hcap = int(c.FExec)
		}
	}
	n := rapid.IntRange(1, 2*hcap+2).Draw(t, "trials")
	for i := 0; i < n; i++ {
		sc.Trials = append(sc.Trials, genSpec(t, true))
	}
	sc.Release = rapid.Permutation(seq(n)).Draw(t, "release")
	return sc
}

func seq(n int) []int {
	s := make([]int, n)
	for i := range s {
		s[i] = i
	}
	return s
}

func TestBreakerConcurrent(t *testing.T) {
	const test = "TestBreakerConcurrent"
	st := harness.NewStats(test)
	defer st.Flush()
	rapid.Check(t, func(t *rapid.T) {
		sc := genScenario(t)
		o := run(sc)
		if o.inconclusive != "" {
			harness.Inconclusive(t, "%s", o.inconclusive)
		}
		if o.violation != "" {
			harness.Violation(t, prop, test, o.sig, sc, "%s: %s", sc.CB, o.violation)
		}
		nt := o.racedOpen || o.racedTrials
		classes := []string{fmt.Sprintf("raced-open=%v", o.racedOpen), fmt.Sprintf("raced-trials=%v", o.racedTrials), fmt.Sprintf("slow-open-listener-hit=%v", o.slowOpenHit), fmt.Sprintf("kind=%d", sc.CB.Kind), fmt.Sprintf("huge-delay=%v", o.hugeDelay), fmt.Sprintf("burst-completed=%v", o.burstCompleted), fmt.Sprintf("redundant-halfopen=%v", o.reHalfOpen)}
		for p := range o.paths {
			classes = append(classes, "trial-end="+p)
		}
		b, _ := json.Marshal(sc)
		st.Case(string(b), nt, classes...)
		if nt {
			st.Sample(string(b), func() any { return sc })
		}
	})
}

func TestRegress(t *testing.T) {
	st := harness.NewStats("TestRegress")
	defer st.Flush()
	var files []string
	if p := os.Getenv("VERIF_REPLAY"); p != "" {
		files = []string{p}
	} else {
		dir := os.Getenv("VERIF_REGRESS_DIR")
		if dir == "" {
			dir = "../../regress/c04"
		}
		ents, _ := os.ReadDir(dir)
		for _, e := range ents {
			files = append(files, dir+"/"+e.Name())
		}
	}
	reps := 50
	if r, err := strconv.Atoi(os.Getenv("VERIF_REPLAY_REPS")); err == nil && r > 1 {
		reps = r
	}
	for _, f := range files {
		b, err := os.ReadFile(f)
		if err != nil {
			continue
		}
		var sc scenario
		_ = json.Unmarshal(b, &sc)
		if len(sc.Trials) == 0 {
			var vr struct {
				Scenario scenario `json:"scenario"`
			}
			_ = json.Unmarshal(b, &vr)
			sc = vr.Scenario
		}
		if len(sc.Trials) == 0 {
			continue
		}
		for i := 0; i < reps; i++ {
			if o := run(sc); o.violation != "" {
				harness.Violation(t, prop, "TestRegress", o.sig, sc, "%s", o.violation)
			}
		}
		st.Case(f, true, "regress")
		st.Sample(f, func() any { return sc })
	}
}
