//go:build verif

// Package c11 checks property C11: a cache hit skips everything inside it; only cacheable results are stored.
package c11

import (
	"context"
	"encoding/json"
	"fmt"
	"strings"
	"testing"
	"time"

	"github.com/failsafe-go/failsafe-go"
	"github.com/failsafe-go/failsafe-go/cachepolicy"

	"pgregory.net/rapid"

	"verif/harness"
	"verif/harness/compose"
)

// Histories over one or two cache policies sharing one instrumented cache, stateful policies inside them, configured
// and context keys, pre-populated content and direct cache writes. Claimed: the outcome, the exact cache traffic and
// content, and that on a hit neither the state nor any listener of the policies inside moves.
var cfg = compose.PropCfg{
	Prop: "C11", Test: "TestCache",
	Opts: func(t *rapid.T) compose.GenOpts {
		o := compose.DefaultOpts()
		o.Kinds = []string{"cache", "cache", "cache", "breaker", "bulkhead", "limiter", "retry", "fallback"}
		o.MinStack = 1
		o.MaxSteps = 10
		o.FireOneIn = 0
		if harness.Thorough() {
			o.MaxSteps, o.MaxScript = 12, 8
		}
		return o
	},
	Want: func(cat string) bool {
		return cat == "cache" || cat == "state" || cat == "outcome" || strings.HasPrefix(cat, "events/")
	},
	Nontrivial: func(sc compose.Scenario, sr *compose.ScenarioResult) bool {
		// a hit that follows a store made by an earlier step; or a key-precedence conflict; or an error outcome stored
		storedEarlier, hitAfterStore, conflict, errStored := false, false, false, false
		for _, s := range sr.Steps {
			if s.Pred == nil || s.Discard != "" {
				continue
			}
			if s.Pred.Actions["cache-hit"] > 0 && storedEarlier {
				hitAfterStore = true
			}
			if s.Pred.Actions["cache-store"] > 0 {
				storedEarlier = true
				for _, e := range s.Pred.Log {
					if e.Name == "OnResultCached" && e.LE != nil {
						errStored = true
					}
				}
			}
			if strings.HasPrefix(s.Step.CtxKey, "s:") {
				for _, p := range sc.Stack {
					if in := sc.Pool[p]; in.Kind == "cache" && in.Key != "" && in.Key != s.Step.CtxKey[2:] {
						conflict = true
					}
				}
			}
		}
		return hitAfterStore || (conflict && storedEarlier) || errStored
	},
}

func TestCache(t *testing.T) {
	st := harness.NewStats("TestCache")
	defer st.Flush()
	rapid.Check(t, cfg.Run(st))
}

func TestRegress(t *testing.T) {
	st := harness.NewStats("TestRegress")
	defer st.Flush()
	cfg.Regress(t, st, "../../regress/c11")
}

// TestCacheOverlapping: executions that overlap inside one cache policy, each with its own key (configured, supplied by
// the context, or none). Every execution parks in the function after a miss; they are completed one by one in a generated
// order; each result must be stored under the key of the execution that produced it, and nothing else may be written.
func TestCacheOverlapping(t *testing.T) {
	const test = "TestCacheOverlapping"
	st := harness.NewStats(test)
	defer st.Flush()
	rapid.Check(t, func(t *rapid.T) {
		type exec struct {
			CtxKey string `json:"ctx_key"` // "" = none
			Val    int    `json:"val"`
		}
		type scen struct {
			CfgKey  string `json:"cfg_key"`
			Execs   []exec `json:"execs"`
			Release []int  `json:"release"`
		}
		sc := scen{CfgKey: rapid.SampledFrom([]string{"", "k0"}).Draw(t, "cfgKey")}
		n := rapid.IntRange(2, 6).Draw(t, "execs")
		for i := 0; i < n; i++ {
			sc.Execs = append(sc.Execs, exec{CtxKey: rapid.SampledFrom([]string{"", "a", "b", "c", "d"}).Draw(t, "ctxKey"), Val: 100 + i})
		}
		sc.Release = rapid.Permutation(seqN(n)).Draw(t, "release")

		cache := compose.NewMapCache()
		cp := cachepolicy.Builder[int](cache).WithKey(sc.CfgKey).Build()
		gates := make([]chan struct{}, n)
		entered := make(chan int, n)
		done := make([]chan struct{}, n)
		results := make([]int, n)
		for i := range sc.Execs {
			gates[i], done[i] = make(chan struct{}), make(chan struct{})
			i := i
			ctx := context.Background()
			if k := sc.Execs[i].CtxKey; k != "" {
				ctx = context.WithValue(ctx, cachepolicy.CacheKey, k)
			}
			go func() {
				defer close(done[i])
				results[i], _ = failsafe.NewExecutor[int](cp).WithContext(ctx).Get(func() (int, error) {
					entered <- i
					<-gates[i]
					return sc.Execs[i].Val, nil
				})
			}()
			select { // one after the other, so that every execution misses the still empty cache and parks
			case <-entered:
			case <-harness.After(30 * time.Second):
				harness.Inconclusive(t, "execution %d did not reach the function", i)
			}
		}
		cache.TakeOps()
		want := map[string]int{}
		var wantSets []compose.CacheOp
		for _, i := range sc.Release {
			close(gates[i])
			<-done[i]
			key := sc.CfgKey
			if sc.Execs[i].CtxKey != "" {
				key = sc.Execs[i].CtxKey
			}
			if key != "" {
				want[key] = sc.Execs[i].Val
				wantSets = append(wantSets, compose.CacheOp{Op: "set", Key: key, Val: sc.Execs[i].Val})
			}
			if results[i] != sc.Execs[i].Val {
				harness.Violation(t, "C11", test, "overlap-result", sc, "%+v: execution %d returned %d, its function returned %d", sc, i, results[i], sc.Execs[i].Val)
			}
		}
		ops := cache.TakeOps()
		var sets []compose.CacheOp
		for _, o := range ops {
			if o.Op == "set" {
				sets = append(sets, compose.CacheOp{Op: "set", Key: o.Key, Val: o.Val})
			}
		}
		if fmt.Sprint(sets) != fmt.Sprint(wantSets) {
			harness.Violation(t, "C11", test, "overlap-store", sc, "%+v: cache writes %v, expected %v (each result under the key of the execution that produced it)", sc, sets, wantSets)
		}
		if got := cache.Content(); fmt.Sprint(got) != fmt.Sprint(want) {
			harness.Violation(t, "C11", test, "overlap-store", sc, "%+v: cache content %v, expected %v", sc, got, want)
		}
		distinct := map[string]bool{}
		for _, e := range sc.Execs {
			distinct[e.CtxKey] = true
		}
		b, _ := json.Marshal(sc)
		st.Case(string(b), len(distinct) >= 2, fmt.Sprintf("distinct-keys=%d", len(distinct)))
		if len(distinct) >= 2 {
			st.Sample(string(b), func() any { return sc })
		}
	})
}

func seqN(n int) []int {
	s := make([]int, n)
	for i := range s {
		s[i] = i
	}
	return s
}
