//go:build verif

// Package c11 checks property C11: a cache hit skips everything inside it; only cacheable results are stored.
package c11

import (
	"strings"
	"testing"

	"pgregory.net/rapid"

	"verif/harness"
	"verif/harness/compose"
)

// Histories over one or two cache policies sharing one instrumented cache, stateful policies inside them, configured
// and context keys, pre-populated content and direct cache writes. Claimed: the outcome, the exact cache traffic and
// content, and that on a hit neither the state nor any listener of the policies inside moves.
var cfg = compose.PropCfg{
	Prop: "C11", Test: "TestCache",
	Opts: func(t *rapid.T) compose.GenOpts {
		o := compose.DefaultOpts()
		o.Kinds = []string{"cache", "cache", "cache", "breaker", "bulkhead", "limiter", "retry", "fallback"}
		o.MinStack = 1
		o.MaxSteps = 10
		o.FireOneIn = 0
		if harness.Thorough() {
			o.MaxSteps, o.MaxScript = 12, 8
		}
		return o
	},
	Want: func(cat string) bool {
		return cat == "cache" || cat == "state" || cat == "outcome" || strings.HasPrefix(cat, "events/")
	},
	Nontrivial: func(sc compose.Scenario, sr *compose.ScenarioResult) bool {
		// a hit that follows a store made by an earlier step; or a key-precedence conflict; or an error outcome stored
		storedEarlier, hitAfterStore, conflict, errStored := false, false, false, false
		for _, s := range sr.Steps {
			if s.Pred == nil || s.Discard != "" {
				continue
			}
			if s.Pred.Actions["cache-hit"] > 0 && storedEarlier {
				hitAfterStore = true
			}
			if s.Pred.Actions["cache-store"] > 0 {
				storedEarlier = true
				for _, e := range s.Pred.Log {
					if e.Name == "OnResultCached" && e.LE != nil {
						errStored = true
					}
				}
			}
			if strings.HasPrefix(s.Step.CtxKey, "s:") {
				for _, p := range sc.Stack {
					if in := sc.Pool[p]; in.Kind == "cache" && in.Key != "" && in.Key != s.Step.CtxKey[2:] {
						conflict = true
					}
				}
			}
		}
		return hitAfterStore || (conflict && storedEarlier) || errStored
	},
}

func TestCache(t *testing.T) {
	st := harness.NewStats("TestCache")
	defer st.Flush()
	rapid.Check(t, cfg.Run(st))
}

func TestRegress(t *testing.T) {
	st := harness.NewStats("TestRegress")
	defer st.Flush()
	cfg.Regress(t, st, "../../regress/c11")
}
