//go:build verif

package c11

import (
	"context"
	"encoding/json"
	"fmt"
	"testing"

	"github.com/failsafe-go/failsafe-go"
	"github.com/failsafe-go/failsafe-go/cachepolicy"
	"github.com/failsafe-go/failsafe-go/retrypolicy"

	"pgregory.net/rapid"

	"verif/harness"
)

type anyCache struct{ m map[string]any }

func (c *anyCache) Get(k string) (any, bool) { v, ok := c.m[k]; return v, ok }
func (c *anyCache) Set(k string, v any)      { c.m[k] = v }
func (c *anyCache) Delete(k string)          { delete(c.m, k) }

// TestCacheZeroValues: "when the cache holds an entry for the execution's key, the cached value is returned ... and neither
// the function nor any policy inside the cache policy is invoked" — whatever the value is. Result type any: the entries
// include nil (which is what Run stores), typed nils, zero numbers, empty strings and empty slices; histories of Get / Run
// executions, direct writes and deletions are compared with a map.
func TestCacheZeroValues(t *testing.T) {
	const test = "TestCacheZeroValues"
	st := harness.NewStats(test)
	defer st.Flush()
	values := []any{nil, (*int)(nil), 0, "", []int{}, false, 7, "x"}
	rapid.Check(t, func(t *rapid.T) {
		type step struct {
			Op  string `json:"op"`  // get | run | put | del
			Key string `json:"key"` // k1 | k2
			Val int    `json:"val"` // index into the value list (get: what the function returns; put: what is written)
			Ctx bool   `json:"ctx"` // the key comes through the context instead of the configuration
		}
		var steps []step
		for i, n := 0, rapid.IntRange(2, 8).Draw(t, "steps"); i < n; i++ {
			steps = append(steps, step{Op: rapid.SampledFrom([]string{"get", "get", "run", "put", "del"}).Draw(t, "op"), Key: rapid.SampledFrom([]string{"k1", "k2"}).Draw(t, "key"),
				Val: rapid.IntRange(0, len(values)-1).Draw(t, "val"), Ctx: rapid.Bool().Draw(t, "ctx")})
		}
		cache := &anyCache{m: map[string]any{}}
		model := map[string]any{}
		inner := retrypolicy.Builder[any]().WithMaxRetries(1).Build()
		for i, s := range steps {
			cp := cachepolicy.Builder[any](cache).WithKey("k1").Build()
			key := "k1"
			ctx := context.Background()
			if s.Ctx || s.Key != "k1" {
				key = s.Key
				ctx = context.WithValue(ctx, cachepolicy.CacheKey, s.Key)
			}
			ex := failsafe.NewExecutor[any](cp, inner).WithContext(ctx)
			calls := 0
			bad := func(f string, a ...any) {
				harness.Violation(t, "C11", test, "cache-zero-value", steps, "steps %+v, step %d: %s", steps, i, fmt.Sprintf(f, a...))
			}
			switch s.Op {
			case "get":
				v, err := ex.Get(func() (any, error) { calls++; return values[s.Val], nil })
				if cached, hit := model[key]; hit {
					if calls != 0 || err != nil || fmt.Sprintf("%#v", v) != fmt.Sprintf("%#v", cached) {
						bad("the cache holds %#v under %q, but the function ran %d times and Get returned (%#v,%v)", cached, key, calls, v, err)
					}
				} else {
					if calls != 1 || err != nil || fmt.Sprintf("%#v", v) != fmt.Sprintf("%#v", values[s.Val]) {
						bad("a miss under %q: the function ran %d times and Get returned (%#v,%v)", key, calls, v, err)
					}
					model[key] = values[s.Val]
				}
			case "run":
				err := ex.Run(func() error { calls++; return nil })
				if _, hit := model[key]; hit {
					if calls != 0 || err != nil {
						bad("the cache holds an entry under %q, but Run invoked the function %d times (err %v)", key, calls, err)
					}
				} else {
					if calls != 1 || err != nil {
						bad("a miss under %q: Run invoked the function %d times (err %v)", key, calls, err)
					}
					model[key] = nil
				}
			case "put":
				cache.Set(s.Key, values[s.Val])
				model[s.Key] = values[s.Val]
			case "del":
				cache.Delete(s.Key)
				delete(model, s.Key)
			}
			if len(cache.m) != len(model) {
				bad("the cache has %d entries, the model %d", len(cache.m), len(model))
			}
		}
		b, _ := json.Marshal(steps)
		zeroHit := false
		for _, v := range model {
			if v == nil {
				zeroHit = true
			}
		}
		st.Case(string(b), zeroHit, fmt.Sprintf("nil-entry=%v", zeroHit))
		st.Sample(string(b), func() any { return steps })
	})
}
