//go:build verif

// Package c01 checks property C01: policies compose as nested wrappers, in declaration order.
package c01

import (
	"fmt"
	"strings"
	"testing"

	"pgregory.net/rapid"

	"verif/harness"
	"verif/harness/compose"
)

const prop = "C01"

// C01 claims the caller-visible outcome (invocations, value, error, completion verdict and listeners), the post-state of
// the stateful instances, the cache content, and that nothing hangs. Listener payloads and statistics belong to C16/C17.
func wanted(cat string) bool {
	return cat == "outcome" || cat == "state" || cat == "cache" || cat == "liveness"
}

func opts() compose.GenOpts {
	o := compose.DefaultOpts()
	if harness.Thorough() {
		o.MaxStack, o.MaxPool, o.MaxSteps, o.MaxScript = 6, 6, 8, 8
	}
	return o
}

func property(test string, st *harness.Stats) func(*rapid.T) {
	return func(t *rapid.T) {
		sc := compose.GenScenario(t, opts())
		noListeners := rapid.IntRange(0, 5).Draw(t, "noListeners") == 0
		sr := compose.Check(t, prop, test, sc, noListeners, wanted)
		record(st, sc, sr)
	}
}

func record(st *harness.Stats, sc compose.Scenario, sr *compose.ScenarioResult) {
	for k, v := range sr.Discards {
		st.Count("discarded_"+k, v)
	}
	for k, v := range sr.Lenient {
		st.Count("lenient_"+k, v)
	}
	st.Count("executions_compared", sr.Execs)
	nt := len(sc.Stack) >= 2 && sr.MaxActions >= 1
	repeated := false
	seen := map[int]bool{}
	kinds := map[string]bool{}
	for _, p := range sc.Stack {
		if seen[p] {
			repeated = true
		}
		seen[p] = true
		kinds[sc.Pool[p].Kind] = true
	}
	classes := []string{fmt.Sprintf("stack-len=%d", len(sc.Stack))}
	for k := range kinds {
		classes = append(classes, "kind="+k)
	}
	if repeated {
		classes = append(classes, "repeated-instance")
	}
	if sr.Async {
		classes = append(classes, "async")
	}
	if sr.Cancelled {
		classes = append(classes, "self-cancel")
	}
	for k := range sr.Actions {
		classes = append(classes, "action="+k)
	}
	var scripts []string
	for _, s := range sc.Steps {
		if s.Op == "exec" {
			scripts = append(scripts, fmt.Sprint(s.Script))
		}
	}
	key := sc.KindString() + "|" + sr.ActionString() + "|" + strings.Join(scripts, ";")
	st.Case(key, nt, classes...)
	if nt {
		st.Sample(key, func() any { return sc.Sample() })
	}
}

func TestCompose(t *testing.T) {
	st := harness.NewStats("TestCompose")
	defer st.Flush()
	rapid.Check(t, property("TestCompose", st))
}

func TestRegress(t *testing.T) {
	st := harness.NewStats("TestRegress")
	defer st.Flush()
	for name, sc := range compose.LoadScenarios(t, "../../regress/c01") {
		sr := compose.Check(t, prop, "TestRegress", sc, false, wanted)
		record(st, sc, sr)
		st.Sample(name, func() any { return sc.Sample() })
	}
}
