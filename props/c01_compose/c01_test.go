//go:build verif

// Package c01 checks property C01: policies compose as nested wrappers, in declaration order.
package c01

import (
	"testing"

	"pgregory.net/rapid"

	"verif/harness"
	"verif/harness/compose"
)

// C01 claims the caller-visible outcome (invocations, value, error, completion verdict and completion listeners), the
// post-state of the stateful instances, the cache content and traffic, and that nothing hangs. Per-policy listener
// payloads and statistics belong to C16/C17.
var cfg = compose.PropCfg{
	Prop: "C01", Test: "TestCompose",
	Opts: func(t *rapid.T) compose.GenOpts {
		o := compose.DefaultOpts()
		if harness.Thorough() {
			o.MaxStack, o.MaxPool, o.MaxSteps, o.MaxScript = 6, 6, 8, 8
		}
		return o
	},
	Want: func(cat string) bool {
		return cat == "outcome" || cat == "state" || cat == "cache" || cat == "liveness" || cat == "events/executor"
	},
	Nontrivial: func(sc compose.Scenario, sr *compose.ScenarioResult) bool {
		return len(sc.Stack) >= 2 && sr.MaxActions >= 1
	},
}

func TestCompose(t *testing.T) {
	st := harness.NewStats("TestCompose")
	defer st.Flush()
	rapid.Check(t, cfg.Run(st))
}

func TestRegress(t *testing.T) {
	st := harness.NewStats("TestRegress")
	defer st.Flush()
	cfg.Regress(t, st, "../../regress/c01")
}
