//go:build verif

package c18

import (
	"context"
	"encoding/json"
	"errors"
	"fmt"
	"testing"
	"time"

	"github.com/failsafe-go/failsafe-go"
	"github.com/failsafe-go/failsafe-go/failsafegrpc"
	"github.com/failsafe-go/failsafe-go/hedgepolicy"
	"github.com/failsafe-go/failsafe-go/timeout"
	"google.golang.org/grpc"
	"google.golang.org/grpc/codes"
	"google.golang.org/grpc/metadata"
	"google.golang.org/grpc/status"
	"pgregory.net/rapid"

	"verif/harness"
)

// The interceptors are invoked directly with a recording fake invoker / handler: no network needed.

type grpcScenario struct {
	Side       string   `json:"side"`  // client | server
	Codes      []string `json:"codes"` // per attempt: OK or a status code name; "plain" = a non-status error
	MaxRetries int      `json:"max_retries"`
	CallCtx    string   `json:"call_ctx"` // background values deadline metadata values+deadline+metadata cancellable
	ExecCtx    string   `json:"exec_ctx"` // none cancellable values
	Stack      []string `json:"stack"`    // retry timeout hedge-1h
	CancelCall bool     `json:"cancel_call"`
	// ReplyWithError (server side): a failing handler call returns its reply object along with the error (a partial reply
	// plus a status), which a gRPC handler may do; both are the call's outcome and pass through together
	ReplyWithError bool `json:"reply_with_error,omitempty"`
}

var codeByName = map[string]codes.Code{
	"OK": codes.OK, "Unavailable": codes.Unavailable, "DeadlineExceeded": codes.DeadlineExceeded, "ResourceExhausted": codes.ResourceExhausted,
	"Internal": codes.Internal, "NotFound": codes.NotFound, "Canceled": codes.Canceled, "Unknown": codes.Unknown, "Aborted": codes.Aborted,
}

var errPlain = errors.New("plain non-status error")

func grpcRetryable(c string) bool {
	return c == "Unavailable" || c == "DeadlineExceeded" || c == "ResourceExhausted"
}

type reqMsg struct{ N int }
type replyMsg struct{ N int }

func runGRPC(sc grpcScenario) (violation, sig string) {
	fail := func(s, f string, a ...any) (string, string) { return fmt.Sprintf(f, a...), s }
	callCtx := context.Background()
	var cancelCall context.CancelFunc = func() {}
	var deadline time.Time
	hasValues, hasMD := false, false
	switch sc.CallCtx {
	case "values":
		hasValues = true
	case "deadline":
		deadline = time.Now().Add(time.Hour)
	case "metadata":
		hasMD = true
	case "values+deadline+metadata":
		hasValues, hasMD = true, true
		deadline = time.Now().Add(time.Hour)
	case "cancellable":
		callCtx, cancelCall = context.WithCancel(callCtx)
	}
	if hasValues {
		callCtx = context.WithValue(callCtx, ctxKey("caller"), "call-value")
	}
	if hasMD {
		if sc.Side == "client" {
			callCtx = metadata.NewOutgoingContext(callCtx, metadata.Pairs("x-trace", "t1", "x-user", "u1"))
		} else {
			callCtx = metadata.NewIncomingContext(callCtx, metadata.Pairs("x-trace", "t1", "x-user", "u1"))
		}
	}
	if !deadline.IsZero() {
		callCtx, cancelCall = context.WithDeadline(callCtx, deadline)
	}
	if sc.CancelCall && sc.CallCtx != "cancellable" && deadline.IsZero() {
		callCtx, cancelCall = context.WithCancel(callCtx)
	}
	defer cancelCall()

	var pols []failsafe.Policy[*replyMsg]
	for _, k := range sc.Stack {
		switch k {
		case "retry":
			pols = append(pols, failsafegrpc.RetryPolicyBuilder[*replyMsg]().WithMaxRetries(sc.MaxRetries).Build())
		case "timeout":
			pols = append(pols, timeout.With[*replyMsg](time.Hour))
		case "hedge-1h":
			pols = append(pols, hedgepolicy.WithDelay[*replyMsg](time.Hour))
		}
	}
	ex := failsafe.NewExecutor[*replyMsg](pols...)
	execCtx := context.Background()
	var cancelExec context.CancelFunc = func() {}
	switch sc.ExecCtx {
	case "cancellable":
		execCtx, cancelExec = context.WithCancel(execCtx)
		ex = ex.WithContext(execCtx)
	case "values":
		ex = ex.WithContext(context.WithValue(execCtx, ctxKey("executor"), "exec-value"))
	}
	defer cancelExec()

	attempts := 0
	var ctxProblem string
	req := &reqMsg{N: 41}
	reply := &replyMsg{}
	var lastErr error
	inspect := func(ctx context.Context) {
		if hasValues {
			if v, _ := ctx.Value(ctxKey("caller")).(string); v != "call-value" {
				ctxProblem = fmt.Sprintf("attempt %d: the context does not carry the caller's value", attempts)
			}
		}
		if hasMD {
			var md metadata.MD
			var ok bool
			if sc.Side == "client" {
				md, ok = metadata.FromOutgoingContext(ctx)
			} else {
				md, ok = metadata.FromIncomingContext(ctx)
			}
			if !ok || len(md.Get("x-trace")) != 1 || md.Get("x-trace")[0] != "t1" || len(md.Get("x-user")) != 1 {
				ctxProblem = fmt.Sprintf("attempt %d: the context lost the caller's gRPC metadata (found=%v %v)", attempts, ok, md)
			}
		}
		if !deadline.IsZero() {
			if d, ok := ctx.Deadline(); !ok || d.After(deadline) {
				ctxProblem = fmt.Sprintf("attempt %d: the context does not report the caller's deadline", attempts)
			}
		}
	}
	outcome := func(ctx context.Context) error {
		attempts++
		inspect(ctx)
		if sc.CancelCall {
			cancelCall()
			select {
			case <-ctx.Done():
				return status.Error(codes.Canceled, "caller went away")
			case <-harness.After(30 * time.Second):
				ctxProblem = "the attempt's context was not done 30s after the caller cancelled"
				return status.Error(codes.Internal, "never cancelled")
			}
		}
		c := "OK"
		if attempts-1 < len(sc.Codes) {
			c = sc.Codes[attempts-1]
		}
		switch c {
		case "OK":
			lastErr = nil
		case "plain":
			lastErr = errPlain
		default:
			lastErr = status.Error(codeByName[c], "scripted "+c)
		}
		return lastErr
	}
	var gotErr error
	var gotResp any
	switch sc.Side {
	case "client":
		ic := failsafegrpc.NewUnaryClientInterceptorWithExecutor[*replyMsg](ex)
		var cc *grpc.ClientConn
		opt := grpc.WaitForReady(true)
		gotErr = ic(callCtx, "/svc/Method", req, reply, cc, func(ctx context.Context, method string, rq, rp any, c *grpc.ClientConn, opts ...grpc.CallOption) error {
			if method != "/svc/Method" || rq != any(req) || rp != any(reply) || c != cc || len(opts) != 1 {
				ctxProblem = fmt.Sprintf("the invoker received altered arguments: method=%q sameReq=%v sameReply=%v opts=%d", method, rq == any(req), rp == any(reply), len(opts))
			}
			err := outcome(ctx)
			if err == nil {
				rp.(*replyMsg).N = 42
			}
			return err
		}, opt)
	default:
		ic := failsafegrpc.NewUnaryServerInterceptorWithExecutor[*replyMsg](ex)
		info := &grpc.UnaryServerInfo{FullMethod: "/svc/Method"}
		gotResp, gotErr = ic(callCtx, req, info, func(ctx context.Context, rq any) (any, error) {
			if rq != any(req) {
				ctxProblem = "the handler received a different request object"
			}
			if err := outcome(ctx); err != nil {
				if sc.ReplyWithError {
					return reply, err
				}
				return nil, err
			}
			return reply, nil
		})
	}
	if ctxProblem != "" {
		switch {
		case contains(ctxProblem, "metadata"):
			return fail("grpc-context-metadata", "%s", ctxProblem)
		case contains(ctxProblem, "value"):
			return fail("grpc-context-values", "%s", ctxProblem)
		case contains(ctxProblem, "deadline"):
			return fail("grpc-context-deadline", "%s", ctxProblem)
		case contains(ctxProblem, "not done"):
			return fail("grpc-cancel-not-propagated", "%s", ctxProblem)
		}
		return fail("grpc-arguments", "%s", ctxProblem)
	}
	if sc.CancelCall {
		if gotErr == nil {
			return fail("grpc-cancel", "the caller cancelled but the call returned no error")
		}
		return "", ""
	}
	hasRetry := false
	for _, k := range sc.Stack {
		if k == "retry" {
			hasRetry = true
		}
	}
	want := 1
	if hasRetry {
		for want <= sc.MaxRetries && want-1 < len(sc.Codes) && grpcRetryable(sc.Codes[want-1]) {
			want++
		}
	}
	if attempts != want {
		return fail("grpc-attempt-count", "%d attempts, the documented retryable codes (UNAVAILABLE, DEADLINE_EXCEEDED, RESOURCE_EXHAUSTED) give %d for %v with max retries %d", attempts, want, sc.Codes, sc.MaxRetries)
	}
	lastCode := "OK"
	if want-1 < len(sc.Codes) {
		lastCode = sc.Codes[want-1]
	}
	if lastCode == "OK" {
		if gotErr != nil {
			return fail("grpc-result", "the last attempt succeeded but the call returned %v", gotErr)
		}
		if sc.Side == "server" && gotResp != any(reply) {
			return fail("grpc-result", "the handler's response object was not passed through")
		}
		if sc.Side == "client" && reply.N != 42 {
			return fail("grpc-result", "the reply object was not filled in")
		}
	} else {
		exhausted := hasRetry && grpcRetryable(lastCode)
		if gotErr == nil {
			return fail("grpc-result", "the last attempt failed with %s but the call returned no error", lastCode)
		}
		if !exhausted && gotErr != lastErr {
			return fail("grpc-result", "the error %v was not passed through unchanged (got %v)", lastErr, gotErr)
		}
		if !exhausted && sc.Side == "server" && sc.ReplyWithError && gotResp != any(reply) {
			return fail("grpc-result", "the handler returned its reply object together with %v; the error was passed through, the reply was not (got %v)", lastErr, gotResp)
		}
		if exhausted && !errors.Is(gotErr, lastErr) && status.Code(errors.Unwrap(gotErr)) != codeByName[lastCode] {
			return fail("grpc-result", "retries exhausted on %s but the call returned %v", lastCode, gotErr)
		}
	}
	return "", ""
}

func TestGRPC(t *testing.T) {
	const test = "TestGRPC"
	st := harness.NewStats(test)
	defer st.Flush()
	rapid.Check(t, func(t *rapid.T) {
		sc := grpcScenario{
			Side:       rapid.SampledFrom([]string{"client", "server"}).Draw(t, "side"),
			MaxRetries: rapid.IntRange(0, 3).Draw(t, "maxRetries"),
			CallCtx:    rapid.SampledFrom([]string{"background", "values", "deadline", "metadata", "values+deadline+metadata", "cancellable"}).Draw(t, "callCtx"),
			ExecCtx:    rapid.SampledFrom([]string{"none", "none", "cancellable", "values"}).Draw(t, "execCtx"),
		}
		names := []string{"OK", "OK", "Unavailable", "DeadlineExceeded", "ResourceExhausted", "Internal", "NotFound", "Canceled", "Unknown", "Aborted", "plain"}
		for i, n := 0, rapid.IntRange(0, 5).Draw(t, "nCodes"); i < n; i++ {
			sc.Codes = append(sc.Codes, rapid.SampledFrom(names).Draw(t, "code"))
		}
		for i, n := 0, rapid.IntRange(0, 3).Draw(t, "nPols"); i < n; i++ {
			k := rapid.SampledFrom([]string{"retry", "retry", "timeout", "hedge-1h"}).Draw(t, "pol")
			dup := false
			for _, e := range sc.Stack {
				dup = dup || e == k
			}
			if !dup {
				sc.Stack = append(sc.Stack, k)
			}
		}
		sc.CancelCall = rapid.IntRange(0, 7).Draw(t, "cancelCall") == 0
		sc.ReplyWithError = sc.Side == "server" && rapid.Bool().Draw(t, "replyWithError")
		if v, sig := runGRPC(sc); v != "" {
			harness.Violation(t, prop, test, sig, sc, "%+v: %s", sc, v)
		}
		merged := false
		for _, k := range sc.Stack {
			merged = merged || k == "timeout" || k == "hedge-1h"
		}
		merged = (merged || sc.ExecCtx != "none") && sc.CallCtx != "background"
		nt := merged || sc.CallCtx != "background"
		b, _ := json.Marshal(sc)
		st.Case(string(b), nt, "side="+sc.Side, "callctx="+sc.CallCtx, fmt.Sprintf("merged-context=%v", merged))
		if nt {
			st.Sample(string(b), func() any { return sc })
		}
	})
}

func contains(s, sub string) bool {
	for i := 0; i+len(sub) <= len(s); i++ {
		if s[i:i+len(sub)] == sub {
			return true
		}
	}
	return false
}
