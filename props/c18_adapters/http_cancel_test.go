//go:build verif

package c18

import (
	"context"
	"encoding/json"
	"errors"
	"io"
	"net/http"
	"net/http/httptest"
	"sync/atomic"
	"syscall"
	"testing"
	"time"

	"github.com/failsafe-go/failsafe-go"
	"github.com/failsafe-go/failsafe-go/failsafehttp"
	"github.com/failsafe-go/failsafe-go/hedgepolicy"
	"github.com/failsafe-go/failsafe-go/timeout"

	"pgregory.net/rapid"

	"verif/harness"
)

// TestHTTPRequestObservesPolicyCancellation: the context an attempt's request runs under is the caller's context merged
// with the execution's: it "is done when the caller's context is" -- and it must also be done when the execution is
// cancelled by a policy (a Timeout firing, a hedge abandoning the loser), whatever the caller's contexts carry: values, a
// deadline far in the future, a cancel function nobody calls. The server keeps the first request open until it sees the
// client go away (an hour otherwise), so an attempt that does not observe the cancellation makes the call wait out the
// server, which is reported after 20 s of process time.
func TestHTTPRequestObservesPolicyCancellation(t *testing.T) {
	const test = "TestHTTPRequestObservesPolicyCancellation"
	st := harness.NewStats(test)
	defer st.Flush()
	rapid.Check(t, func(t *rapid.T) {
		type scen struct {
			Via     string `json:"via"`    // roundtripper | request
			Source  string `json:"source"` // timeout | hedge-loser
			ReqCtx  string `json:"req_ctx"`
			ExecCtx string `json:"exec_ctx"`
			LimitMs int    `json:"limit_ms"`
		}
		ctxKinds := []string{"background", "deadline-far", "values", "cancellable", "values+deadline"}
		sc := scen{Via: rapid.SampledFrom([]string{"roundtripper", "request"}).Draw(t, "via"), Source: rapid.SampledFrom([]string{"timeout", "timeout", "hedge-loser"}).Draw(t, "source"),
			ReqCtx: rapid.SampledFrom(ctxKinds).Draw(t, "reqCtx"), ExecCtx: rapid.SampledFrom(append([]string{"none"}, ctxKinds...)).Draw(t, "execCtx"),
			LimitMs: rapid.SampledFrom([]int{5, 20, 60}).Draw(t, "limitMs")}
		type key struct{}
		var cancels []context.CancelFunc
		defer func() {
			for _, c := range cancels {
				c()
			}
		}()
		mk := func(kind string) context.Context {
			ctx := context.Background()
			switch kind {
			case "deadline-far":
				c, cancel := context.WithTimeout(ctx, time.Hour)
				cancels = append(cancels, cancel)
				return c
			case "values":
				return context.WithValue(ctx, key{}, 1)
			case "cancellable":
				c, cancel := context.WithCancel(ctx)
				cancels = append(cancels, cancel)
				return c
			case "values+deadline":
				c, cancel := context.WithTimeout(context.WithValue(ctx, key{}, 1), time.Hour)
				cancels = append(cancels, cancel)
				return c
			}
			return ctx
		}
		var served atomic.Int32
		abandoned := make(chan struct{}, 1)
		stop := make(chan struct{})
		srv := httptest.NewServer(http.HandlerFunc(func(w http.ResponseWriter, r *http.Request) {
			n := served.Add(1)
			if n > 1 {
				w.WriteHeader(200)
				io.WriteString(w, "ok")
				return
			}
			select {
			case <-r.Context().Done():
				select {
				case abandoned <- struct{}{}:
				default:
				}
			case <-stop:
			}
		}))
		defer srv.Close()
		defer close(stop)
		tr := &http.Transport{DisableKeepAlives: true}
		defer tr.CloseIdleConnections()
		var pol failsafe.Policy[*http.Response]
		if sc.Source == "timeout" {
			pol = timeout.With[*http.Response](time.Duration(sc.LimitMs) * time.Millisecond)
		} else {
			pol = hedgepolicy.BuilderWithDelay[*http.Response](time.Duration(sc.LimitMs) * time.Millisecond).WithMaxHedges(1).
				CancelIf(func(r *http.Response, err error) bool { return err == nil && r != nil && r.StatusCode == 200 }).Build()
		}
		ex := failsafe.NewExecutor[*http.Response](pol)
		if sc.ExecCtx != "none" {
			ex = ex.WithContext(mk(sc.ExecCtx))
		}
		req, _ := http.NewRequestWithContext(mk(sc.ReqCtx), "GET", srv.URL, nil)
		var resp *http.Response
		var err error
		doneCh := make(chan struct{})
		go func() {
			defer close(doneCh)
			if sc.Via == "request" {
				resp, err = failsafehttp.NewRequestWithExecutor(req, &http.Client{Transport: tr}, ex).Do()
			} else {
				resp, err = (&http.Client{Transport: failsafehttp.NewRoundTripperWithExecutor(tr, ex)}).Do(req)
			}
		}()
		bad := func(sig, f string, a ...any) {
			harness.Violation(t, "C18", test, sig, sc, "%+v: "+f, append([]any{sc}, a...)...)
		}
		select {
		case <-doneCh:
		case <-harness.After(20 * time.Second):
			bad("request-ignores-policy-cancellation", "the call had not returned 20 s after the policy cancelled the attempt (limit / hedge delay %d ms); the server keeps that request open until the client goes away", sc.LimitMs)
			return
		}
		if err != nil && errors.Is(err, syscall.EADDRNOTAVAIL) {
			t.Skip("no free local port at the moment (many connections of earlier cases are still in TIME_WAIT)")
		}
		if sc.Source == "timeout" {
			if !errors.Is(err, timeout.ErrExceeded) {
				bad("policy-cancellation-result", "the call returned (%v, %v), the Timeout's limit elapsed while the server was holding the request", resp, err)
			}
		} else {
			if err != nil || resp == nil || resp.StatusCode != 200 {
				bad("policy-cancellation-result", "the call returned (%v, %v); the hedged attempt was answered with 200", resp, err)
			}
		}
		if resp != nil && resp.Body != nil {
			io.Copy(io.Discard, resp.Body)
			resp.Body.Close()
		}
		if served.Load() >= 1 {
			// (a limit of a few milliseconds can elapse before the request has left the client: then there is nothing for
			// the server to see)
			select {
			case <-abandoned:
			case <-harness.After(20 * time.Second):
				bad("request-ignores-policy-cancellation", "the call returned, but 20 s later the server still holds the cancelled attempt's request open: its context was never done")
			}
		}
		b, _ := json.Marshal(sc)
		st.Case(string(b), sc.ReqCtx != "background" || sc.ExecCtx != "none", "source="+sc.Source, "via="+sc.Via, "req="+sc.ReqCtx)
		st.Sample(string(b), func() any { return sc })
	})
}
