//go:build verif

// Package c18 checks property C18: the HTTP and gRPC adapters are transparent and replay requests faithfully.
package c18

import (
	"bytes"
	"context"
	"encoding/json"
	"errors"
	"fmt"
	"io"
	"net"
	"net/http"
	"net/http/cookiejar"
	"net/url"
	"reflect"
	"net/http/httptest"
	"os"
	"strconv"
	"strings"
	"sync"
	"sync/atomic"
	"testing"
	"time"

	"github.com/failsafe-go/failsafe-go"
	"github.com/failsafe-go/failsafe-go/circuitbreaker"
	"github.com/failsafe-go/failsafe-go/failsafehttp"
	"github.com/failsafe-go/failsafe-go/fallback"
	"github.com/failsafe-go/failsafe-go/hedgepolicy"
	"github.com/failsafe-go/failsafe-go/retrypolicy"
	"github.com/failsafe-go/failsafe-go/timeout"
	"pgregory.net/rapid"

	"verif/harness"
)

const prop = "C18"

type ctxKey string

type attemptScript struct {
	Status     int    `json:"status"`
	RetryAfter string `json:"retry_after,omitempty"` // "" | "0" | "1" | "soon" (non-numeric)
	RespSize   int    `json:"resp_size"`
	Mode       string `json:"mode"` // plain | flush-early | chunked | early-response | close-before | close-after-headers | slow
}

type httpScenario struct {
	Method     string          `json:"method"`
	Path       string          `json:"path"`
	Headers    [][2]string     `json:"headers"`
	BodyKind   string          `json:"body_kind"` // nil nobody buffer bytes-reader strings-reader seekable stream empty
	BodySize   int             `json:"body_size"`
	ReqCtx     string          `json:"req_ctx"`  // background todo cancellable values deadline values+deadline
	ExecCtx    string          `json:"exec_ctx"` // none background cancellable values deadline
	Stack      []string        `json:"stack"`    // retry timeout hedge-1h hedge-real breaker fallback
	MaxRetries int             `json:"max_retries"`
	Via        string          `json:"via"` // roundtripper | request
	Server     []attemptScript `json:"server"`
	CancelCall bool            `json:"cancel_call"` // the caller cancels the request context while an attempt is being served
	// HoldFirstUpload: the server does not start reading the first attempt's body before a second attempt has arrived (or
	// 30 ms have passed); with a body larger than the socket buffers the first upload is then still in progress when the
	// hedge starts its own
	HoldFirstUpload bool `json:"hold_first_upload,omitempty"`
	// Backoff: the retry policy from failsafehttp.RetryPolicyBuilder is given a backoff delay (1 ms .. 4 ms) as well
	Backoff bool `json:"backoff,omitempty"`
	// Jar (via request only): the caller's http.Client has a cookie jar holding one cookie for the server, which the client
	// adds to what it sends; every attempt must carry it exactly as a single plain client.Do would
	Jar bool `json:"jar,omitempty"`
}

func bodyBytes(n int) []byte {
	b := make([]byte, n)
	for i := range b {
		b[i] = byte('a' + (i*7+i/251)%26)
	}
	return b
}

func respBytes(attempt, n int) []byte {
	b := make([]byte, n)
	for i := range b {
		b[i] = byte('A' + (i+attempt*3)%26)
	}
	return b
}

// seekBody behaves like an *os.File handed over as a request body: seekable, and really closable (once closed, reading and
// seeking fail). The adapter must not let an attempt's transport close what later attempts still have to rewind.
type seekBody struct {
	r      *bytes.Reader
	closed *atomic.Bool
}

func newSeekBody(b []byte) seekBody { return seekBody{bytes.NewReader(b), new(atomic.Bool)} }

func (s seekBody) Read(p []byte) (int, error) {
	if s.closed.Load() {
		return 0, errors.New("read: file already closed")
	}
	return s.r.Read(p)
}

func (s seekBody) Seek(off int64, whence int) (int64, error) {
	if s.closed.Load() {
		return 0, errors.New("seek: file already closed")
	}
	return s.r.Seek(off, whence)
}

func (s seekBody) Close() error { s.closed.Store(true); return nil }

// streamBody is a plain streaming ReadCloser that returns short reads.
type streamBody struct {
	data []byte
	off  int
}

func (s *streamBody) Read(p []byte) (int, error) {
	if s.off >= len(s.data) {
		return 0, io.EOF
	}
	n := 1 + (s.off*31)%977
	if n > len(p) {
		n = len(p)
	}
	if n > len(s.data)-s.off {
		n = len(s.data) - s.off
	}
	copy(p, s.data[s.off:s.off+n])
	s.off += n
	return n, nil
}
func (s *streamBody) Close() error { return nil }

type received struct {
	method, uri string
	headers     http.Header
	body        []byte
	bodyErr     error
	bodyDone    bool // the handler finished reading the request body (a hedged loser's handler may still be at it)
	arrived     time.Time
	sent        time.Time
	respStart   time.Time
	length      int64 // the request's framing as the server saw it: declared length (-1: unknown) ...
	chunked     bool  // ... and chunked transfer encoding
}

// plainFraming tells how a request of this shape reaches a server when it is sent by a plain http.Client: the declared
// content length and whether the body is chunked. Only for bodies whose length net/http knows or that are absent/empty
// (for others the transport decides by probing the body against a timer). Answers are cached per process.
var framing struct {
	once sync.Once
	srv  *httptest.Server
	mu   sync.Mutex
	lmu  sync.Mutex
	last [2]int64
	memo map[string][2]int64
}

func makeBodyReader(kind string, body []byte) io.Reader {
	switch kind {
	case "nobody":
		return http.NoBody
	case "buffer":
		return bytes.NewBuffer(append([]byte(nil), body...))
	case "bytes-reader":
		return bytes.NewReader(body)
	case "strings-reader":
		return strings.NewReader(string(body))
	case "seekable":
		return newSeekBody(body)
	case "stream":
		return &streamBody{data: body}
	case "empty":
		return bytes.NewReader(nil)
	}
	return nil
}

func plainFraming(method, kind string, body []byte) (length int64, chunked bool, ok bool) {
	if kind == "seekable" || kind == "stream" {
		return 0, false, false
	}
	framing.once.Do(func() {
		framing.memo = map[string][2]int64{}
		framing.srv = httptest.NewServer(http.HandlerFunc(func(w http.ResponseWriter, r *http.Request) {
			c := int64(0)
			for _, te := range r.TransferEncoding {
				if te == "chunked" {
					c = 1
				}
			}
			framing.lmu.Lock()
			framing.last = [2]int64{r.ContentLength, c}
			framing.lmu.Unlock()
			io.Copy(io.Discard, r.Body)
			w.WriteHeader(200)
		}))
	})
	framing.mu.Lock()
	defer framing.mu.Unlock()
	key := fmt.Sprintf("%s|%s|%d", method, kind, len(body))
	if v, hit := framing.memo[key]; hit {
		return v[0], v[1] == 1, true
	}
	req, err := http.NewRequest(method, framing.srv.URL+"/", makeBodyReader(kind, body))
	if err != nil {
		return 0, false, false
	}
	resp, err := framing.srv.Client().Do(req)
	if err != nil {
		return 0, false, false
	}
	io.Copy(io.Discard, resp.Body)
	resp.Body.Close()
	framing.lmu.Lock()
	last := framing.last
	framing.lmu.Unlock()
	framing.memo[key] = last
	return last[0], last[1] == 1, true
}

type ctxObs struct {
	valueOK      bool
	deadlineOK   bool
	hadDeadline  bool
	doneAtReturn bool
}

type httpOut struct {
	violation, sig, inconclusive string
	attempts                     int
	class                        string
}

func retryable(a attemptScript) bool {
	if a.Mode == "close-before" {
		return true // a connection error
	}
	return a.Status == 429 || (a.Status >= 500 && a.Status != 501)
}

func runHTTP(sc httpScenario) (out httpOut) {
	fail := func(sig, f string, a ...any) httpOut {
		out.violation, out.sig = fmt.Sprintf(f, a...), sig
		return out
	}
	body := bodyBytes(sc.BodySize)
	var mu sync.Mutex
	var got []*received
	release := make(chan struct{}) // opens when the scenario is over: unblocks "slow" handlers
	var once sync.Once
	endScenario := func() { once.Do(func() { close(release) }) }
	defer endScenario()
	arrivedCh := make(chan int, 64)

	srv := httptest.NewUnstartedServer(http.HandlerFunc(func(w http.ResponseWriter, r *http.Request) {
		mu.Lock()
		idx := len(got)
		rc := &received{method: r.Method, uri: r.URL.RequestURI(), headers: r.Header.Clone(), arrived: time.Now(), length: r.ContentLength}
		for _, te := range r.TransferEncoding {
			rc.chunked = rc.chunked || te == "chunked"
		}
		got = append(got, rc)
		mu.Unlock()
		var a attemptScript
		if idx < len(sc.Server) {
			a = sc.Server[idx]
		} else {
			a = attemptScript{Status: 200, Mode: "plain", RespSize: 3}
		}
		readBody := func() {
			if sc.HoldFirstUpload && idx == 0 {
				w := harness.Wait(30 * time.Millisecond)
				for !w.Expired() {
					mu.Lock()
					n := len(got)
					mu.Unlock()
					if n >= 2 {
						break
					}
					time.Sleep(100 * time.Microsecond)
				}
			}
			b, err := io.ReadAll(r.Body)
			mu.Lock()
			rc.body, rc.bodyErr, rc.bodyDone = b, err, true
			mu.Unlock()
		}
		if a.RetryAfter != "" {
			w.Header().Set("Retry-After", a.RetryAfter)
		}
		markStart := func() {
			mu.Lock()
			rc.respStart = time.Now() // nothing of the response is on the wire before this instant
			mu.Unlock()
		}
		w.Header().Set("X-Attempt", strconv.Itoa(idx))
		resp := respBytes(idx, a.RespSize)
		switch a.Mode {
		case "close-before":
			readBody()
			arrivedCh <- idx
			if hj, ok := w.(http.Hijacker); ok {
				c, _, _ := hj.Hijack()
				c.Close()
			}
			return
		case "close-after-headers":
			readBody()
			arrivedCh <- idx
			if hj, ok := w.(http.Hijacker); ok {
				c, bw, _ := hj.Hijack()
				fmt.Fprintf(bw, "HTTP/1.1 %d X\r\nContent-Length: %d\r\nX-Attempt: %d\r\n\r\n", a.Status, a.RespSize+10, idx)
				bw.Flush()
				c.Close()
			}
			return
		case "early-response":
			// answer before the request body has been read
			arrivedCh <- idx
			markStart()
			w.Header().Set("Content-Length", strconv.Itoa(len(resp)))
			w.WriteHeader(a.Status)
			w.Write(resp)
			mu.Lock()
			rc.sent = time.Now()
			rc.bodyErr = errors.New("not read (early response)")
			mu.Unlock()
			return
		case "slow":
			readBody()
			arrivedCh <- idx
			select {
			case <-r.Context().Done():
			case <-release:
			}
			w.WriteHeader(a.Status)
			return
		}
		readBody()
		arrivedCh <- idx
		markStart()
		switch a.Mode {
		case "flush-early":
			w.WriteHeader(a.Status)
			if f, ok := w.(http.Flusher); ok {
				f.Flush()
			}
			time.Sleep(300 * time.Microsecond)
			w.Write(resp)
		case "chunked":
			w.WriteHeader(a.Status)
			for off := 0; off < len(resp); {
				n := min(1+off%700+97, len(resp)-off)
				w.Write(resp[off : off+n])
				if f, ok := w.(http.Flusher); ok {
					f.Flush()
				}
				off += n
				if off%3 == 0 {
					time.Sleep(50 * time.Microsecond)
				}
			}
		default:
			w.Header().Set("Content-Length", strconv.Itoa(len(resp)))
			w.WriteHeader(a.Status)
			w.Write(resp)
		}
		mu.Lock()
		rc.sent = time.Now()
		mu.Unlock()
	}))
	srv.Start()
	defer srv.Close()

	// ---- the request ----
	rdr := makeBodyReader(sc.BodyKind, body)
	hasBody := sc.BodyKind != "nil" && sc.BodyKind != "nobody" && sc.BodyKind != "empty" && sc.BodySize > 0
	wantBody := []byte{}
	if hasBody {
		wantBody = body
	}
	reqCtx := context.Background()
	var cancelReq context.CancelFunc = func() {}
	var reqDeadline time.Time
	switch sc.ReqCtx {
	case "todo":
		reqCtx = context.TODO()
	case "cancellable":
		reqCtx, cancelReq = context.WithCancel(reqCtx)
	case "values":
		reqCtx = context.WithValue(reqCtx, ctxKey("caller"), "req-value")
	case "deadline":
		reqDeadline = time.Now().Add(time.Hour)
		reqCtx, cancelReq = context.WithDeadline(reqCtx, reqDeadline)
	case "values+deadline":
		reqDeadline = time.Now().Add(time.Hour)
		reqCtx, cancelReq = context.WithDeadline(context.WithValue(reqCtx, ctxKey("caller"), "req-value"), reqDeadline)
	}
	if sc.CancelCall && sc.ReqCtx != "cancellable" && sc.ReqCtx != "deadline" && sc.ReqCtx != "values+deadline" {
		reqCtx, cancelReq = context.WithCancel(reqCtx)
	}
	defer cancelReq()
	req, err := http.NewRequestWithContext(reqCtx, sc.Method, srv.URL+sc.Path, rdr)
	if err != nil {
		out.inconclusive = "cannot build request: " + err.Error()
		return out
	}
	for _, h := range sc.Headers {
		req.Header.Add(h[0], h[1])
	}

	// ---- policies ----
	var pols []failsafe.Policy[*http.Response]
	realHedge := false
	for _, k := range sc.Stack {
		switch k {
		case "retry":
			rb := failsafehttp.RetryPolicyBuilder().WithMaxRetries(sc.MaxRetries)
			if sc.Backoff {
				// further delay configuration on the adapter's builder: a Retry-After still has to be waited for
				rb.WithBackoff(time.Millisecond, 4*time.Millisecond)
			}
			pols = append(pols, rb.Build())
		case "timeout":
			pols = append(pols, timeout.With[*http.Response](time.Hour))
		case "hedge-1h":
			pols = append(pols, hedgepolicy.WithDelay[*http.Response](time.Hour))
		case "hedge-real":
			realHedge = true
			pols = append(pols, hedgepolicy.BuilderWithDelay[*http.Response](2*time.Millisecond).WithMaxHedges(2).Build())
		case "breaker":
			pols = append(pols, circuitbreaker.Builder[*http.Response]().WithFailureThreshold(50).Build())
		case "fallback":
			pols = append(pols, fallback.BuilderWithError[*http.Response](errors.New("never")).HandleErrors(errors.New("never matches")).Build())
		}
	}
	ex := failsafe.NewExecutor[*http.Response](pols...)
	execCtx := context.Background()
	var cancelExec context.CancelFunc = func() {}
	switch sc.ExecCtx {
	case "background":
		ex = ex.WithContext(execCtx)
	case "cancellable":
		execCtx, cancelExec = context.WithCancel(execCtx)
		ex = ex.WithContext(execCtx)
	case "values":
		execCtx = context.WithValue(execCtx, ctxKey("executor"), "exec-value")
		ex = ex.WithContext(execCtx)
	case "deadline":
		execCtx, cancelExec = context.WithTimeout(execCtx, time.Hour)
		ex = ex.WithContext(execCtx)
	}
	defer cancelExec()

	// inner transport: records the context each attempt runs under
	// no keep-alive: net/http itself re-sends idempotent requests whose reused connection dies before a response, which
	// would add attempts that are not the adapter's doing
	tr := &http.Transport{DisableKeepAlives: true}
	defer tr.CloseIdleConnections()
	var ctxs []ctxObs
	inner := roundTripFunc(func(r *http.Request) (*http.Response, error) {
		c := r.Context()
		o := ctxObs{valueOK: true, deadlineOK: true}
		if strings.HasPrefix(sc.ReqCtx, "values") {
			v, _ := c.Value(ctxKey("caller")).(string)
			o.valueOK = v == "req-value"
		}
		if !reqDeadline.IsZero() {
			o.hadDeadline = true
			d, ok := c.Deadline()
			o.deadlineOK = ok && !d.After(reqDeadline)
		}
		resp, err := tr.RoundTrip(r)
		o.doneAtReturn = c.Err() != nil
		mu.Lock()
		ctxs = append(ctxs, o)
		mu.Unlock()
		return resp, err
	})

	type result struct {
		resp *http.Response
		err  error
		body []byte
		rerr error
	}
	resCh := make(chan result, 1)
	go func() {
		var resp *http.Response
		var err error
		if sc.Via == "request" {
			client := &http.Client{Transport: inner}
			if sc.Jar {
				client.Jar, _ = cookiejar.New(nil)
				if u, uerr := url.Parse(srv.URL); uerr == nil {
					client.Jar.SetCookies(u, []*http.Cookie{{Name: "sid", Value: "1"}})
				}
			}
			resp, err = failsafehttp.NewRequestWithExecutor(req, client, ex).Do()
		} else {
			client := &http.Client{Transport: failsafehttp.NewRoundTripperWithExecutor(inner, ex)}
			resp, err = client.Do(req)
		}
		r := result{resp: resp, err: err}
		if err == nil && resp != nil {
			r.body, r.rerr = io.ReadAll(resp.Body)
			resp.Body.Close()
		}
		resCh <- r
	}()
	if sc.CancelCall {
		select {
		case <-arrivedCh:
			cancelReq()
		case <-harness.After(30 * time.Second):
			out.inconclusive = "no attempt reached the server within 30s"
			return out
		}
	}
	var res result
	select {
	case res = <-resCh:
	case <-harness.After(60 * time.Second):
		return fail("call-hung", "the call had not returned after 60s (cancel_call=%v)", sc.CancelCall)
	}
	endScenario()
	time.Sleep(200 * time.Microsecond)
	mu.Lock()
	recv := make([]*received, len(got))
	for i, rc := range got {
		c := *rc // a copy taken under the lock: handlers of abandoned attempts may still be running
		recv[i] = &c
	}
	obs := append([]ctxObs(nil), ctxs...)
	mu.Unlock()
	out.attempts = len(recv)

	// ---- every attempt that reached the server is the original request ----
	for i, rc := range recv {
		if rc.method != sc.Method || rc.uri != sc.Path {
			return fail("attempt-differs", "attempt %d reached the server as %s %s, the original is %s %s", i+1, rc.method, rc.uri, sc.Method, sc.Path)
		}
		for _, h := range sc.Headers {
			vals := rc.headers.Values(h[0])
			found := false
			for _, v := range vals {
				if v == h[1] {
					found = true
				}
			}
			if !found {
				return fail("attempt-differs", "attempt %d lost the header %s: %s (got %v)", i+1, h[0], h[1], vals)
			}
			var want []string
			for _, h2 := range sc.Headers {
				if h2[0] == h[0] {
					want = append(want, h2[1])
				}
			}
			if !reflect.DeepEqual(vals, want) {
				return fail("attempt-differs", "attempt %d carries the header %s as %q, the original request has %q", i+1, h[0], vals, want)
			}
		}
		if wl, wc, ok := plainFraming(sc.Method, sc.BodyKind, body); ok && (rc.length != wl || rc.chunked != wc) {
			return fail("attempt-differs", "attempt %d reached the server with content length %d chunked=%v; the same request sent by a plain http.Client arrives with content length %d chunked=%v", i+1, rc.length, rc.chunked, wl, wc)
		}
		if sc.Jar && sc.Via == "request" {
			if vals := rc.headers.Values("Cookie"); !reflect.DeepEqual(vals, []string{"sid=1"}) {
				return fail("attempt-differs", "attempt %d carries the cookie header %q; a plain client with this cookie jar sends [\"sid=1\"]", i+1, vals)
			}
		}
		early := i < len(sc.Server) && sc.Server[i].Mode == "early-response"
		aborted := sc.CancelCall || realHedge // the client may abandon an attempt while its body is in flight
		if !early && !(aborted && (rc.bodyErr != nil || !rc.bodyDone)) {
			if rc.bodyErr != nil && !aborted {
				return fail("attempt-body", "attempt %d: the server could not read the request body: %v", i+1, rc.bodyErr)
			}
			if rc.bodyErr == nil && !bytes.Equal(rc.body, wantBody) {
				return fail("attempt-body", "attempt %d reached the server with a body of %d bytes (equal=%v), the original has %d", i+1, len(rc.body), bytes.Equal(rc.body, wantBody), len(wantBody))
			}
		}
	}
	// ---- contexts ----
	for i, o := range obs {
		if !o.valueOK {
			return fail("context-values", "attempt %d ran under a context that does not carry the request context's value", i+1)
		}
		if o.hadDeadline && !o.deadlineOK {
			return fail("context-deadline", "attempt %d ran under a context that does not report the request context's deadline", i+1)
		}
	}
	if sc.CancelCall {
		out.class = "caller-cancelled"
		if res.err == nil {
			// the response may have won the race only if the attempt was not a blocking one
			return fail("cancel-ignored", "the caller cancelled the request context while the server was holding the response, yet the call returned status %d", res.resp.StatusCode)
		}
		if !errors.Is(res.err, context.Canceled) {
			return fail("cancel-error", "the caller cancelled the request context; the call returned %v", res.err)
		}
		return out
	}
	// ---- how many attempts, and which response ----
	hasRetry := false
	for _, k := range sc.Stack {
		if k == "retry" {
			hasRetry = true
		}
	}
	if !realHedge {
		want := 1
		if hasRetry {
			for want <= sc.MaxRetries && want-1 < len(sc.Server) && retryable(sc.Server[want-1]) {
				want++
			}
		}
		if len(recv) != want {
			return fail("attempt-count", "%d attempts reached the server, the documented retry rules give %d (script %+v, max retries %d)", len(recv), want, sc.Server, sc.MaxRetries)
		}
		// Retry-After in seconds is honoured as a lower bound
		for i := 0; i+1 < len(recv); i++ {
			if i < len(sc.Server) && sc.Server[i].RetryAfter == "1" && (sc.Server[i].Status == 429 || sc.Server[i].Status == 503) && sc.Server[i].Mode != "close-before" && sc.Server[i].Mode != "close-after-headers" {
				if gap := recv[i+1].arrived.Sub(recv[i].respStart); !recv[i].respStart.IsZero() && gap < time.Second {
					return fail("retry-after", "attempt %d arrived %v after a response with Retry-After: 1", i+2, gap)
				}
			}
		}
		last := len(recv) - 1
		var a attemptScript
		if last < len(sc.Server) {
			a = sc.Server[last]
		} else {
			a = attemptScript{Status: 200, Mode: "plain", RespSize: 3}
		}
		switch {
		case a.Mode == "close-after-headers":
			out.class = "truncated-response"
			if res.err == nil && res.resp.StatusCode != a.Status {
				return fail("final-response", "the call returned status %d, the last attempt was answered with %d", res.resp.StatusCode, a.Status)
			}
		case a.Mode == "close-before":
			out.class = "connection-error"
			if res.err == nil && a.Mode == "close-before" {
				return fail("final-response", "the last attempt's connection was closed before any response, yet the call returned status %d", res.resp.StatusCode)
			}
		case hasRetry && retryable(a) && a.Mode != "close-before":
			// the retries are used up on a retryable status: the retry policy reports ExceededError carrying the last response
			out.class = "retries-exceeded"
			var ee retrypolicy.ExceededError
			if !errors.As(res.err, &ee) {
				return fail("final-response", "retries exhausted on status %d: expected ExceededError carrying the last response, got (%v, %v)", a.Status, res.resp, res.err)
			}
			lr, _ := ee.LastResult.(*http.Response)
			if lr == nil || lr.StatusCode != a.Status || lr.Header.Get("X-Attempt") != strconv.Itoa(last) {
				return fail("final-response", "ExceededError does not carry the last attempt's response (attempt %d, status %d): %+v", last, a.Status, lr)
			}
			if a.Mode != "close-after-headers" {
				b, rerr := io.ReadAll(lr.Body)
				lr.Body.Close()
				if rerr != nil {
					return fail("response-body-unreadable", "reading the last response's body (carried by ExceededError) failed after %d bytes: %v", len(b), rerr)
				}
				if !bytes.Equal(b, respBytes(last, a.RespSize)) {
					return fail("response-body", "the last response's body has %d bytes, the server sent %d", len(b), a.RespSize)
				}
			}
		default:
			out.class = fmt.Sprintf("status-%d", a.Status)
			if res.err != nil {
				return fail("final-response", "the last attempt was answered with %d but the call returned the error %v", a.Status, res.err)
			}
			if res.resp.StatusCode != a.Status || res.resp.Header.Get("X-Attempt") != strconv.Itoa(last) {
				return fail("final-response", "the call returned status %d of attempt %s, the last attempt (%d) was answered with %d", res.resp.StatusCode, res.resp.Header.Get("X-Attempt"), last, a.Status)
			}
			if a.Mode != "slow" {
				if res.rerr != nil {
					return fail("response-body-unreadable", "reading the returned response body failed after %d bytes: %v", len(res.body), res.rerr)
				}
				if !bytes.Equal(res.body, respBytes(last, a.RespSize)) {
					return fail("response-body", "the returned body has %d bytes, the server sent %d", len(res.body), a.RespSize)
				}
			}
		}
	} else {
		out.class = "hedged"
		if res.err == nil {
			idx, _ := strconv.Atoi(res.resp.Header.Get("X-Attempt"))
			size, truncated := 3, false
			if idx < len(sc.Server) {
				size = sc.Server[idx].RespSize
				truncated = sc.Server[idx].Mode == "close-after-headers"
			}
			if truncated {
				return out
			}
			if res.rerr != nil {
				return fail("response-body-unreadable", "reading the returned response body failed after %d bytes: %v", len(res.body), res.rerr)
			}
			if !bytes.Equal(res.body, respBytes(idx, size)) {
				return fail("response-body", "the returned body (%d bytes) is not what the server sent for attempt %d", len(res.body), idx)
			}
		}
	}
	return out
}

type roundTripFunc func(*http.Request) (*http.Response, error)

func (f roundTripFunc) RoundTrip(r *http.Request) (*http.Response, error) { return f(r) }

var _ = net.Dial

func genHTTP(t *rapid.T) httpScenario {
	sc := httpScenario{
		Method: rapid.SampledFrom([]string{"GET", "POST", "PUT", "PATCH", "DELETE"}).Draw(t, "method"),
		Path:   rapid.SampledFrom([]string{"/", "/a/b", "/x?q=1&r=two", "/p%20q?z="}).Draw(t, "path"),
		Via:    rapid.SampledFrom([]string{"roundtripper", "request"}).Draw(t, "via"),
	}
	for i, n := 0, rapid.IntRange(0, 4).Draw(t, "nHeaders"); i < n; i++ {
		sc.Headers = append(sc.Headers, [2]string{rapid.SampledFrom([]string{"X-One", "X-Two", "Accept", "X-Trace"}).Draw(t, "hk"), rapid.SampledFrom([]string{"a", "b c", "1"}).Draw(t, "hv")})
	}
	sc.BodyKind = rapid.SampledFrom([]string{"nil", "nobody", "buffer", "bytes-reader", "strings-reader", "seekable", "stream", "empty"}).Draw(t, "bodyKind")
	sizes := []int{0, 1, 4096, 65537}
	if harness.Thorough() {
		sizes = append(sizes, 1<<20)
	}
	sc.BodySize = rapid.SampledFrom(sizes).Draw(t, "bodySize")
	if sc.Method == "GET" && rapid.Bool().Draw(t, "getNoBody") {
		sc.BodyKind = "nil"
	}
	sc.ReqCtx = rapid.SampledFrom([]string{"background", "todo", "cancellable", "values", "deadline", "values+deadline"}).Draw(t, "reqCtx")
	sc.ExecCtx = rapid.SampledFrom([]string{"none", "none", "background", "cancellable", "values", "deadline"}).Draw(t, "execCtx")
	kinds := []string{"retry", "retry", "timeout", "hedge-1h", "hedge-real", "breaker", "fallback"}
	for i, n := 0, rapid.IntRange(0, 4).Draw(t, "nPols"); i < n; i++ {
		k := rapid.SampledFrom(kinds).Draw(t, "pol")
		dup := false
		for _, e := range sc.Stack {
			if e == k {
				dup = true
			}
		}
		if !dup {
			sc.Stack = append(sc.Stack, k)
		}
	}
	sc.MaxRetries = rapid.IntRange(0, 3).Draw(t, "maxRetries")
	sc.Backoff = rapid.IntRange(0, 2).Draw(t, "backoff") == 0
	sc.Jar = sc.Via == "request" && rapid.IntRange(0, 2).Draw(t, "jar") == 0
	statuses := []int{200, 201, 204, 400, 404, 429, 500, 501, 502, 503, 511, 520, 599} // "5xx" has no upper end below 600
	for i, n := 0, rapid.IntRange(1, 5).Draw(t, "nAttempts"); i < n; i++ {
		a := attemptScript{Status: rapid.SampledFrom(statuses).Draw(t, "status")}
		a.Mode = rapid.SampledFrom([]string{"plain", "plain", "flush-early", "chunked", "early-response", "close-before", "close-after-headers"}).Draw(t, "mode")
		a.RespSize = rapid.SampledFrom([]int{0, 1, 4096, 70000}).Draw(t, "respSize")
		if a.Status == 204 {
			a.RespSize = 0
		}
		switch rapid.IntRange(0, 40).Draw(t, "retryAfter") {
		case 0:
			a.RetryAfter = "1" // a real second of waiting: rare
		case 1, 2, 3:
			a.RetryAfter = "0"
		case 4, 5:
			a.RetryAfter = "soon"
		}
		sc.Server = append(sc.Server, a)
	}
	real := false
	for _, k := range sc.Stack {
		if k == "hedge-real" {
			real = true
		}
	}
	if real {
		// answers take a few ms so that hedged attempts overlap
		for i := range sc.Server {
			if sc.Server[i].Mode == "plain" || sc.Server[i].Mode == "early-response" {
				sc.Server[i].Mode = "chunked"
			}
			sc.Server[i].RetryAfter = ""
		}
	}
	for i := range sc.Server {
		// a response sent before the request body was read: only with bodies small enough to be on the wire already
		if sc.Server[i].Mode == "early-response" && sc.BodySize > 4096 {
			sc.Server[i].Mode = "plain"
		}
	}
	if real && sc.BodyKind != "nil" && sc.BodyKind != "nobody" && sc.BodyKind != "empty" && sc.Method != "GET" && rapid.IntRange(0, 3).Draw(t, "holdFirstUpload") == 0 {
		// overlapping uploads: every attempt must still deliver the complete original body
		sc.HoldFirstUpload = true
		sc.BodySize = 6 << 20
	}
	if rapid.IntRange(0, 9).Draw(t, "cancelCall") == 0 && !real {
		sc.CancelCall = true
		sc.Server = []attemptScript{{Status: 200, Mode: "slow"}}
	}
	return sc
}

// excludedKnown: the one open finding (D9) is excluded by construction: a seekable request body whose attempts' body
// reads can overlap (real hedging, or a retry after a response that was sent before the body was read).
func excludedKnown(sc *httpScenario) bool {
	if sc.BodyKind != "seekable" {
		return false
	}
	overlap := false
	for _, k := range sc.Stack {
		if k == "hedge-real" {
			overlap = true
		}
	}
	for _, a := range sc.Server {
		if a.Mode == "early-response" {
			overlap = true
		}
	}
	if overlap {
		sc.BodyKind = "stream"
	}
	return overlap
}

func TestHTTP(t *testing.T) {
	const test = "TestHTTP"
	st := harness.NewStats(test)
	defer st.Flush()
	rapid.Check(t, func(t *rapid.T) {
		sc := genHTTP(t)
		if excludedKnown(&sc) {
			st.Count("excluded_known_D9", 1)
		}
		o := runHTTP(sc)
		if o.inconclusive != "" {
			harness.Inconclusive(t, "%s", o.inconclusive)
		}
		if o.violation != "" {
			harness.Violation(t, prop, test, o.sig, sc, "%+v: %s", sc, o.violation)
		}
		ctxMerge := false
		for _, k := range sc.Stack {
			if k == "timeout" || k == "hedge-1h" || k == "hedge-real" {
				ctxMerge = true
			}
		}
		ctxMerge = (ctxMerge || (sc.ExecCtx != "none" && sc.ExecCtx != "background")) && sc.ReqCtx != "background"
		nt := (o.attempts >= 2 && sc.BodySize > 0 && sc.BodyKind != "nil" && sc.BodyKind != "nobody") || ctxMerge || strings.Contains(sc.ReqCtx, "values") || strings.Contains(sc.ReqCtx, "deadline")
		b, _ := json.Marshal(sc)
		st.Case(string(b), nt, "outcome="+o.class, "body="+sc.BodyKind, "reqctx="+sc.ReqCtx, fmt.Sprintf("merged-context=%v", ctxMerge), fmt.Sprintf("attempts>=2=%v", o.attempts >= 2), "via="+sc.Via, fmt.Sprintf("overlapping-upload=%v", sc.HoldFirstUpload))
		if nt {
			st.Sample(string(b), func() any { return sc })
		}
	})
}

// TestKnownFindingD9 reproduces the open finding so that the check can say whether it is still there.
func TestKnownFindingD9(t *testing.T) {
	st := harness.NewStats("TestKnownFindingD9")
	defer st.Flush()
	bad := 0
	for i := 0; i < 6; i++ {
		sc := httpScenario{Method: "POST", Path: "/", BodyKind: "seekable", BodySize: 1 << 20, ReqCtx: "background", ExecCtx: "none", Stack: []string{"hedge-real"}, Via: "roundtripper",
			Server: []attemptScript{{Status: 200, Mode: "chunked", RespSize: 70000}, {Status: 200, Mode: "chunked", RespSize: 70000}, {Status: 200, Mode: "chunked", RespSize: 70000}}}
		if o := runHTTP(sc); o.violation != "" {
			bad++
		}
	}
	st.Count("d9_reproduced_of_6", bad)
	st.Case("d9", bad > 0, "known-finding-D9")
	t.Logf("D9 reproduced in %d of 6 runs", bad)
}

func TestRegress(t *testing.T) {
	st := harness.NewStats("TestRegress")
	defer st.Flush()
	var files []string
	if p := os.Getenv("VERIF_REPLAY"); p != "" {
		files = []string{p}
	} else {
		dir := os.Getenv("VERIF_REGRESS_DIR")
		if dir == "" {
			dir = "../../regress/c18"
		}
		ents, _ := os.ReadDir(dir)
		for _, e := range ents {
			files = append(files, dir+"/"+e.Name())
		}
	}
	reps := 5
	if r, err := strconv.Atoi(os.Getenv("VERIF_REPLAY_REPS")); err == nil && r > 1 {
		reps = r
	}
	for _, f := range files {
		b, err := os.ReadFile(f)
		if err != nil {
			continue
		}
		if strings.Contains(f, "grpc") {
			var gs grpcScenario
			_ = json.Unmarshal(b, &gs)
			if gs.Side == "" {
				var vr struct {
					Scenario grpcScenario `json:"scenario"`
				}
				_ = json.Unmarshal(b, &vr)
				gs = vr.Scenario
			}
			if gs.Side != "" {
				if v, sig := runGRPC(gs); v != "" {
					harness.Violation(t, prop, "TestRegress", sig, gs, "%s", v)
				}
				st.Case(f, true, "regress")
			}
			continue
		}
		var sc httpScenario
		_ = json.Unmarshal(b, &sc)
		if sc.Method == "" {
			var vr struct {
				Scenario httpScenario `json:"scenario"`
			}
			_ = json.Unmarshal(b, &vr)
			sc = vr.Scenario
		}
		if sc.Method == "" {
			continue
		}
		for i := 0; i < reps; i++ {
			if o := runHTTP(sc); o.violation != "" {
				harness.Violation(t, prop, "TestRegress", o.sig, sc, "%s", o.violation)
			}
		}
		st.Case(f, true, "regress")
		st.Sample(f, func() any { return sc })
	}
}
