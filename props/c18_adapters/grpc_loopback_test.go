//go:build verif

package c18

import (
	"context"
	"encoding/json"
	"errors"
	"fmt"
	"net"
	"strings"
	"sync"
	"testing"
	"time"

	"github.com/failsafe-go/failsafe-go"
	"github.com/failsafe-go/failsafe-go/bulkhead"
	"github.com/failsafe-go/failsafe-go/failsafegrpc"
	"github.com/failsafe-go/failsafe-go/hedgepolicy"
	"github.com/failsafe-go/failsafe-go/timeout"
	"google.golang.org/grpc"
	"google.golang.org/grpc/codes"
	"google.golang.org/grpc/credentials/insecure"
	"google.golang.org/grpc/metadata"
	"google.golang.org/grpc/status"
	"google.golang.org/grpc/test/bufconn"
	"google.golang.org/protobuf/types/known/wrapperspb"
	"pgregory.net/rapid"

	"verif/harness"
)

// End to end over an in-memory connection (bufconn): a real grpc.ClientConn with the failsafe client interceptor and a real
// grpc.Server with the failsafe server interceptor. What the server handler sees on the wire (metadata, deadline) is what
// the caller's context carried; status codes are scripted per attempt.

type loopScenario struct {
	Codes       []string `json:"codes"`
	MaxRetries  int      `json:"max_retries"`
	ClientStack []string `json:"client_stack"` // retry timeout hedge-1h
	ServerStack []string `json:"server_stack"` // timeout
	Metadata    bool     `json:"metadata"`
	Deadline    bool     `json:"deadline"`
	ExecCtx     string   `json:"exec_ctx"` // none | cancellable
	CancelCall  bool     `json:"cancel_call"`
	// Tap: the server also installs failsafegrpc.NewServerInHandle with a bulkhead of one permit: "" none | "free" the
	// permit is available | "full" the permit is held elsewhere, so every call is refused before the handler runs
	Tap string `json:"tap,omitempty"`
}

type echoServer interface {
	Call(context.Context, *wrapperspb.StringValue) (*wrapperspb.StringValue, error)
}

func runLoopback(sc loopScenario) (violation, sig string) {
	fail := func(s, f string, a ...any) (string, string) { return fmt.Sprintf(f, a...), s }
	var mu sync.Mutex
	attempts := 0
	var problems []string
	arrived := make(chan struct{}, 16)
	release := make(chan struct{})
	handler := func(ctx context.Context, in *wrapperspb.StringValue) (*wrapperspb.StringValue, error) {
		mu.Lock()
		attempts++
		n := attempts
		mu.Unlock()
		md, _ := metadata.FromIncomingContext(ctx)
		if sc.Metadata {
			if v := md.Get("x-trace"); len(v) != 1 || v[0] != "t1" {
				mu.Lock()
				problems = append(problems, fmt.Sprintf("attempt %d reached the server without the caller's metadata (x-trace=%v)", n, v))
				mu.Unlock()
			}
		}
		if _, ok := ctx.Deadline(); sc.Deadline && !ok {
			mu.Lock()
			problems = append(problems, fmt.Sprintf("attempt %d reached the server without the caller's deadline", n))
			mu.Unlock()
		}
		if in.GetValue() != "payload" {
			mu.Lock()
			problems = append(problems, fmt.Sprintf("attempt %d carried the request %q", n, in.GetValue()))
			mu.Unlock()
		}
		if sc.CancelCall {
			arrived <- struct{}{}
			select {
			case <-ctx.Done():
				return nil, status.Error(codes.Canceled, "client went away")
			case <-release:
				return nil, status.Error(codes.Internal, "the caller's cancellation never reached the server")
			}
		}
		c := "OK"
		if n-1 < len(sc.Codes) {
			c = sc.Codes[n-1]
		}
		if c != "OK" {
			return nil, status.Error(codeByName[c], "scripted "+c)
		}
		return wrapperspb.String(fmt.Sprintf("reply-%d", n)), nil
	}
	var spols []failsafe.Policy[any]
	for _, k := range sc.ServerStack {
		if k == "timeout" {
			spols = append(spols, timeout.With[any](time.Hour))
		}
	}
	desc := grpc.ServiceDesc{
		ServiceName: "verif.Echo", HandlerType: (*echoServer)(nil),
		Methods: []grpc.MethodDesc{{MethodName: "Call", Handler: func(srv any, ctx context.Context, dec func(any) error, ic grpc.UnaryServerInterceptor) (any, error) {
			in := new(wrapperspb.StringValue)
			if err := dec(in); err != nil {
				return nil, err
			}
			h := func(ctx context.Context, req any) (any, error) { return handler(ctx, req.(*wrapperspb.StringValue)) }
			if ic == nil {
				return h(ctx, in)
			}
			return ic(ctx, in, &grpc.UnaryServerInfo{Server: srv, FullMethod: "/verif.Echo/Call"}, h)
		}}},
	}
	lis := bufconn.Listen(1 << 20)
	sopts := []grpc.ServerOption{grpc.UnaryInterceptor(failsafegrpc.NewUnaryServerInterceptor[any](spols...))}
	var tapBH bulkhead.Bulkhead[any]
	if sc.Tap != "" {
		tapBH = bulkhead.With[any](1)
		if sc.Tap == "full" {
			tapBH.TryAcquirePermit()
		}
		sopts = append(sopts, grpc.InTapHandle(failsafegrpc.NewServerInHandle[any](tapBH)))
	}
	srv := grpc.NewServer(sopts...)
	srv.RegisterService(&desc, echoImpl{})
	go srv.Serve(lis)
	defer srv.Stop()

	var cpols []failsafe.Policy[any]
	for _, k := range sc.ClientStack {
		switch k {
		case "retry":
			cpols = append(cpols, failsafegrpc.RetryPolicyBuilder[any]().WithMaxRetries(sc.MaxRetries).Build())
		case "timeout":
			cpols = append(cpols, timeout.With[any](time.Hour))
		case "hedge-1h":
			cpols = append(cpols, hedgepolicy.WithDelay[any](time.Hour))
		}
	}
	ex := failsafe.NewExecutor[any](cpols...)
	execCtx, cancelExec := context.WithCancel(context.Background())
	defer cancelExec()
	if sc.ExecCtx == "cancellable" {
		ex = ex.WithContext(execCtx)
	}
	clientInterceptor := failsafegrpc.NewUnaryClientInterceptorWithExecutor[any](ex)
	if sc.ExecCtx != "cancellable" {
		clientInterceptor = failsafegrpc.NewUnaryClientInterceptor[any](cpols...) // the constructor that takes the policies
	}
	conn, err := grpc.NewClient("passthrough:///bufnet",
		grpc.WithContextDialer(func(ctx context.Context, _ string) (net.Conn, error) { return lis.DialContext(ctx) }),
		grpc.WithTransportCredentials(insecure.NewCredentials()),
		grpc.WithUnaryInterceptor(clientInterceptor))
	if err != nil {
		return fail("harness", "cannot create client: %v", err)
	}
	defer conn.Close()
	callCtx, cancelCall := context.WithCancel(context.Background())
	defer cancelCall()
	if sc.Metadata {
		callCtx = metadata.NewOutgoingContext(callCtx, metadata.Pairs("x-trace", "t1"))
	}
	if sc.Deadline {
		var c context.CancelFunc
		callCtx, c = context.WithTimeout(callCtx, time.Hour)
		defer c()
	}
	reply := new(wrapperspb.StringValue)
	done := make(chan error, 1)
	go func() { done <- conn.Invoke(callCtx, "/verif.Echo/Call", wrapperspb.String("payload"), reply) }()
	if sc.CancelCall {
		select {
		case <-arrived:
			cancelCall()
		case <-harness.After(30 * time.Second):
			return fail("harness", "the call never reached the server")
		}
	}
	var callErr error
	select {
	case callErr = <-done:
	case <-harness.After(30 * time.Second):
		close(release)
		return fail("grpc-cancel-not-propagated", "the call had not returned 30s after the caller cancelled its context")
	}
	close(release)
	mu.Lock()
	defer mu.Unlock()
	if len(problems) > 0 {
		s := "grpc-wire-context"
		if strings.Contains(problems[0], "metadata") {
			s = "grpc-wire-metadata"
		}
		return fail(s, "%s", problems[0])
	}
	if sc.Tap == "full" {
		// refused by the load limiting policy before any handler runs, whatever the client does about it
		if attempts != 0 {
			return fail("grpc-tap-admitted", "the tap handle's bulkhead was full, yet %d attempts reached the handler", attempts)
		}
		if callErr == nil {
			return fail("grpc-tap-admitted", "the tap handle's bulkhead was full, yet the call succeeded")
		}
		return "", ""
	}
	if sc.Tap == "free" {
		// the tap execution is over once the handle returned: its permit is free again
		if !tapBH.TryAcquirePermit() {
			return fail("grpc-tap-permit", "the tap handle's bulkhead permit was not released after the call")
		}
	}
	if sc.CancelCall {
		if status.Code(callErr) != codes.Canceled && !errors.Is(callErr, context.Canceled) {
			return fail("grpc-cancel", "the caller cancelled; the call returned %v", callErr)
		}
		return "", ""
	}
	hasRetry := false
	for _, k := range sc.ClientStack {
		hasRetry = hasRetry || k == "retry"
	}
	want := 1
	if hasRetry {
		for want <= sc.MaxRetries && want-1 < len(sc.Codes) && grpcRetryable(sc.Codes[want-1]) {
			want++
		}
	}
	if attempts != want {
		return fail("grpc-attempt-count", "%d attempts reached the server, the documented retryable codes give %d for %v with max retries %d", attempts, want, sc.Codes, sc.MaxRetries)
	}
	last := "OK"
	if want-1 < len(sc.Codes) {
		last = sc.Codes[want-1]
	}
	if last == "OK" {
		if callErr != nil || reply.GetValue() != fmt.Sprintf("reply-%d", want) {
			return fail("grpc-result", "the last attempt succeeded with reply-%d; the call returned (%q, %v)", want, reply.GetValue(), callErr)
		}
	} else if callErr == nil {
		return fail("grpc-result", "the last attempt failed with %s but the call returned no error", last)
	} else if !(hasRetry && grpcRetryable(last)) && status.Code(callErr) != codeByName[last] {
		return fail("grpc-result", "the last attempt failed with %s; the call returned %v", last, callErr)
	}
	return "", ""
}

type echoImpl struct{}

func (echoImpl) Call(context.Context, *wrapperspb.StringValue) (*wrapperspb.StringValue, error) {
	return nil, nil
}

func TestGRPCLoopback(t *testing.T) {
	const test = "TestGRPCLoopback"
	st := harness.NewStats(test)
	defer st.Flush()
	rapid.Check(t, func(t *rapid.T) {
		sc := loopScenario{MaxRetries: rapid.IntRange(0, 3).Draw(t, "maxRetries"), Metadata: rapid.Bool().Draw(t, "metadata"), Deadline: rapid.Bool().Draw(t, "deadline"),
			ExecCtx: rapid.SampledFrom([]string{"none", "cancellable"}).Draw(t, "execCtx"), CancelCall: rapid.IntRange(0, 7).Draw(t, "cancelCall") == 0}
		names := []string{"OK", "OK", "Unavailable", "DeadlineExceeded", "ResourceExhausted", "Internal", "NotFound", "Aborted"}
		for i, n := 0, rapid.IntRange(0, 4).Draw(t, "nCodes"); i < n; i++ {
			sc.Codes = append(sc.Codes, rapid.SampledFrom(names).Draw(t, "code"))
		}
		for i, n := 0, rapid.IntRange(0, 3).Draw(t, "nPols"); i < n; i++ {
			k := rapid.SampledFrom([]string{"retry", "retry", "timeout", "hedge-1h"}).Draw(t, "pol")
			dup := false
			for _, e := range sc.ClientStack {
				dup = dup || e == k
			}
			if !dup {
				sc.ClientStack = append(sc.ClientStack, k)
			}
		}
		if rapid.Bool().Draw(t, "serverTimeout") {
			sc.ServerStack = []string{"timeout"}
		}
		sc.Tap = rapid.SampledFrom([]string{"", "", "free", "full"}).Draw(t, "tap")
		if sc.Tap == "full" {
			sc.CancelCall = false // the handler that would wait for the cancellation is never reached
		}
		if v, sig := runLoopback(sc); v != "" {
			harness.Violation(t, prop, test, sig, sc, "%+v: %s", sc, v)
		}
		merged := len(sc.ServerStack) > 0 || sc.ExecCtx != "none"
		for _, k := range sc.ClientStack {
			merged = merged || k == "timeout" || k == "hedge-1h"
		}
		nt := merged && (sc.Metadata || sc.Deadline)
		b, _ := json.Marshal(sc)
		st.Case(string(b), nt, fmt.Sprintf("merged-context=%v", merged), fmt.Sprintf("metadata=%v", sc.Metadata), fmt.Sprintf("deadline=%v", sc.Deadline), "tap="+sc.Tap)
		if nt {
			st.Sample(string(b), func() any { return sc })
		}
	})
}
