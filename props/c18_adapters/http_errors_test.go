//go:build verif

package c18

import (
	"bytes"
	"crypto/tls"
	"encoding/json"
	"fmt"
	"io"
	"log"
	"net/http"
	"net/http/httptest"
	"sync/atomic"
	"syscall"
	"testing"
	"time"

	"github.com/failsafe-go/failsafe-go"
	"github.com/failsafe-go/failsafe-go/failsafehttp"

	"pgregory.net/rapid"

	"verif/harness"
)

// TestHTTPErrorClasses: "attempts are retried exactly for the documented retryable errors". The adapter's retry policy
// documents (failsafehttp.RetryPolicyBuilder) that it does not retry an unsupported protocol scheme, an untrusted
// certificate / unknown authority, or a redirect loop the client gave up on, and retries every other transport error.
// Oracle: the number of attempts (OnRetry + 1, and requests seen by the server where there is one) is exactly 1 for the
// terminal classes and exactly 1 + maxRetries for the retryable ones.
func TestHTTPErrorClasses(t *testing.T) {
	const test = "TestHTTPErrorClasses"
	st := harness.NewStats(test)
	defer st.Flush()
	rapid.Check(t, func(t *rapid.T) {
		type scen struct {
			Class      string `json:"class"` // unsupported-scheme | redirect-loop | unknown-authority | refused | reset | client-timeout
			Via        string `json:"via"`
			MaxRetries int    `json:"max_retries"`
			Method     string `json:"method"`
			BodySize   int    `json:"body_size"`
		}
		sc := scen{Class: rapid.SampledFrom([]string{"unsupported-scheme", "redirect-loop", "unknown-authority", "refused", "reset", "client-timeout"}).Draw(t, "class"),
			Via: rapid.SampledFrom([]string{"roundtripper", "request"}).Draw(t, "via"), MaxRetries: rapid.IntRange(0, 3).Draw(t, "maxRetries"),
			Method: rapid.SampledFrom([]string{"GET", "POST", "PUT"}).Draw(t, "method"), BodySize: rapid.SampledFrom([]int{0, 10, 3000}).Draw(t, "bodySize")}
		var served atomic.Int32
		var retries atomic.Int32
		url := ""
		tr := &http.Transport{DisableKeepAlives: true}
		defer tr.CloseIdleConnections()
		terminal := false
		perAttempt := int32(1) // requests the server sees per attempt
		clientTimeout := time.Duration(0)
		switch sc.Class {
		case "unsupported-scheme":
			url, terminal = "ftp://127.0.0.1:1/x", true
		case "redirect-loop":
			srv := httptest.NewServer(http.HandlerFunc(func(w http.ResponseWriter, r *http.Request) {
				served.Add(1)
				http.Redirect(w, r, "/again", http.StatusFound)
			}))
			defer srv.Close()
			url = srv.URL
			// only a client follows redirects; a bare round trip returns the 302, which is a success
			terminal, perAttempt = true, 10
		case "unknown-authority":
			srv := httptest.NewUnstartedServer(http.HandlerFunc(func(w http.ResponseWriter, r *http.Request) { served.Add(1) }))
			srv.Config.ErrorLog = log.New(io.Discard, "", 0) // the failed handshakes are the point
			srv.StartTLS()
			defer srv.Close()
			url, terminal = srv.URL, true
			tr.TLSClientConfig = &tls.Config{} // the test server's certificate is signed by nobody this client trusts
		case "refused":
			// a port that is bound but not listening: connections are refused, and nobody else can take the port meanwhile
			fd, err := syscall.Socket(syscall.AF_INET, syscall.SOCK_STREAM, 0)
			if err != nil {
				harness.Inconclusive(t, "socket: %v", err)
			}
			defer syscall.Close(fd)
			syscall.SetsockoptInt(fd, syscall.SOL_SOCKET, syscall.SO_REUSEADDR, 1) // ports of connections in TIME_WAIT are fine
			if err := syscall.Bind(fd, &syscall.SockaddrInet4{Addr: [4]byte{127, 0, 0, 1}}); err != nil {
				t.Skip("no free local port at the moment (many connections of earlier cases are still in TIME_WAIT)")
			}
			sa, _ := syscall.Getsockname(fd)
			url = fmt.Sprintf("http://127.0.0.1:%d/x", sa.(*syscall.SockaddrInet4).Port)
		case "client-timeout":
			// the caller's http.Client gives up on every attempt after its own Timeout (10 ms) while the caller's context
			// stays alive: an ordinary transient error, retried like the others ("retry on all other url errors"). Only through
			// failsafehttp.Request does the client's timeout apply to one attempt.
			sc.Via = "request"
			srv := httptest.NewServer(http.HandlerFunc(func(w http.ResponseWriter, r *http.Request) {
				served.Add(1)
				select {
				case <-r.Context().Done():
				case <-time.After(2 * time.Second):
				}
			}))
			defer srv.Close()
			url = srv.URL
			clientTimeout = 10 * time.Millisecond
		case "reset":
			srv := httptest.NewServer(http.HandlerFunc(func(w http.ResponseWriter, r *http.Request) {
				served.Add(1)
				if hj, ok := w.(http.Hijacker); ok {
					c, _, _ := hj.Hijack()
					c.Close()
				}
			}))
			defer srv.Close()
			url = srv.URL
		}
		rp := failsafehttp.RetryPolicyBuilder().WithMaxRetries(sc.MaxRetries).WithDelay(0).
			OnRetry(func(failsafe.ExecutionEvent[*http.Response]) { retries.Add(1) }).Build()
		newReq := func() *http.Request {
			var req *http.Request
			if sc.BodySize > 0 && sc.Method != "GET" {
				req, _ = http.NewRequest(sc.Method, url, bytes.NewReader(bodyBytes(sc.BodySize)))
			} else {
				req, _ = http.NewRequest(sc.Method, url, nil)
			}
			return req
		}
		var resp *http.Response
		var err error
		done := make(chan struct{})
		go func() {
			defer close(done)
			if sc.Via == "request" {
				resp, err = failsafehttp.NewRequest(newReq(), &http.Client{Transport: tr, Timeout: clientTimeout}, rp).Do()
			} else {
				resp, err = (&http.Client{Transport: failsafehttp.NewRoundTripper(tr, rp)}).Do(newReq())
			}
		}()
		select {
		case <-done:
		case <-harness.After(60 * time.Second):
			harness.Inconclusive(t, "%+v: the call had not returned after 60s", sc)
		}
		if resp != nil && resp.Body != nil {
			resp.Body.Close()
		}
		bad := func(sig, f string, a ...any) {
			harness.Violation(t, prop, test, sig, sc, "%+v (error %v): %s", sc, err, fmt.Sprintf(f, a...))
		}
		attempts := int(retries.Load()) + 1
		want := 1 + sc.MaxRetries
		if terminal {
			want = 1
		}
		if sc.Class == "redirect-loop" && sc.Via == "roundtripper" {
			// the client follows the redirects outside the adapter: each hop is its own successful round trip
			want = 1
			if attempts != 1 {
				bad("terminal-error-retried", "a 302 answer was retried %d times", attempts-1)
			}
		} else {
			if err == nil {
				bad("error-swallowed", "the call returned no error")
			}
			if attempts != want {
				sig := "retryable-error-attempts"
				if terminal {
					sig = "terminal-error-retried"
				}
				bad(sig, "%d attempts were made, the documented rule gives %d", attempts, want)
			}
			if sc.Class == "redirect-loop" && int(served.Load()) != int(perAttempt)*want {
				bad("terminal-error-retried", "the server saw %d requests, one redirect chain of %d was expected", served.Load(), perAttempt)
			}
			if sc.Class == "reset" && int(served.Load()) < want {
				bad("retryable-error-attempts", "the server saw %d requests, at least %d attempts were expected", served.Load(), want)
			}
		}
		b, _ := json.Marshal(sc)
		st.Case(string(b), sc.MaxRetries > 0, "class="+sc.Class, "via="+sc.Via)
		st.Sample(string(b), func() any { return sc })
	})
}
