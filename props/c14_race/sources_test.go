//go:build verif

package c14

import (
	"context"
	"encoding/json"
	"sync"
	"testing"
	"time"

	"github.com/failsafe-go/failsafe-go"
	"github.com/failsafe-go/failsafe-go/bulkhead"
	"github.com/failsafe-go/failsafe-go/ratelimiter"
	"github.com/failsafe-go/failsafe-go/retrypolicy"
	"github.com/failsafe-go/failsafe-go/timeout"

	"pgregory.net/rapid"

	"verif/harness"
)

// TestTwoCancellationSources: an execution that is cancelled from two sides at about the same instant — its context's
// deadline and an enclosing Timeout with (almost) the same limit — while something inside the Timeout waits (rate limiter,
// bulkhead, retry delay). Eight goroutines repeat the scenario 500 times each on shared policy instances; the oracle is the race detector
// (this is how D18 was reproduced on the unchanged tree: the limiter read LastError while the timer goroutine wrote it).
func TestTwoCancellationSources(t *testing.T) {
	const test = "TestTwoCancellationSources"
	st := harness.NewStats(test)
	defer st.Flush()
	rapid.Check(t, func(t *rapid.T) {
		type scen struct {
			Waiter  string `json:"waiter"` // limiter | bulkhead | retry-delay
			LimitUs int    `json:"limit_us"`
			SkewUs  int    `json:"skew_us"` // the context deadline is the limit plus -skew..+skew
			Async   bool   `json:"async"`
		}
		sc := scen{Waiter: rapid.SampledFrom([]string{"limiter", "limiter", "limiter", "bulkhead", "retry-delay"}).Draw(t, "waiter"),
			LimitUs: rapid.SampledFrom([]int{100, 200}).Draw(t, "limitUs"), SkewUs: rapid.SampledFrom([]int{5, 10}).Draw(t, "skewUs"), Async: rapid.Bool().Draw(t, "async")}
		rl := ratelimiter.SmoothBuilderWithMaxRate[int](time.Hour).WithMaxWaitTime(2 * time.Hour).Build()
		rl.TryAcquirePermit()
		bh := bulkhead.Builder[int](1).WithMaxWaitTime(time.Hour).Build()
		bh.TryAcquirePermit()
		rp := retrypolicy.Builder[int]().WithDelay(time.Hour).Build()
		to := timeout.With[int](time.Duration(sc.LimitUs) * time.Microsecond)
		var inner failsafe.Policy[int]
		switch sc.Waiter {
		case "limiter":
			inner = rl
		case "bulkhead":
			inner = bh
		default:
			inner = rp
		}
		var wg sync.WaitGroup
		for g := 0; g < 8; g++ {
			wg.Add(1)
			go func(g int) {
				defer wg.Done()
				for i := 0; i < 500; i++ {
					d := time.Duration(sc.LimitUs-sc.SkewUs+(i*7+g)%(2*sc.SkewUs+1)) * time.Microsecond
					ctx, cancel := context.WithTimeout(context.Background(), d)
					pol := inner
					if sc.Waiter == "limiter" && i%4 != 0 {
						// mostly a limiter of its own: on a shared smooth limiter the reservations pile up until new arrivals are
						// refused at once instead of waiting
						l := ratelimiter.SmoothBuilderWithMaxRate[int](time.Hour).WithMaxWaitTime(2 * time.Hour).Build()
						l.TryAcquirePermit()
						pol = l
					}
					ex := failsafe.NewExecutor[int](to, pol).WithContext(ctx)
					fn := func() (int, error) { return 0, errX }
					if sc.Async {
						ex.GetAsync(fn).Get()
					} else {
						ex.Get(fn)
					}
					cancel()
				}
			}(g)
		}
		done := make(chan struct{})
		go func() { wg.Wait(); close(done) }()
		select {
		case <-done:
		case <-harness.After(60 * time.Second):
			harness.Inconclusive(t, "%+v: the executions had not finished after 60s", sc)
		}
		b, _ := json.Marshal(sc)
		st.Case(string(b), true, "waiter="+sc.Waiter)
		st.Sample(string(b), func() any { return sc })
	})
}
