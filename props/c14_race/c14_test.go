//go:build verif

// Package c14 checks property C14: shared policies and executors are safe for concurrent use. The test binary is built
// with the race detector; the verdict on data races comes from the detector's reports (happens-before, not manifestation),
// which the driver parses and attributes to frames of the module. Panics crash the process; hangs are caught by a watchdog.
package c14

import (
	"context"
	"encoding/json"
	"errors"
	"fmt"
	"os"
	"runtime"
	"strconv"
	"strings"
	"sync"
	"sync/atomic"
	"testing"
	"time"

	"github.com/failsafe-go/failsafe-go"
	"github.com/failsafe-go/failsafe-go/bulkhead"
	"github.com/failsafe-go/failsafe-go/cachepolicy"
	"github.com/failsafe-go/failsafe-go/circuitbreaker"
	"github.com/failsafe-go/failsafe-go/fallback"
	"github.com/failsafe-go/failsafe-go/hedgepolicy"
	"github.com/failsafe-go/failsafe-go/ratelimiter"
	"github.com/failsafe-go/failsafe-go/retrypolicy"
	"github.com/failsafe-go/failsafe-go/timeout"
	"pgregory.net/rapid"

	"verif/harness"
)

const prop = "C14"

var errX = errors.New("x")

type syncCache struct {
	mu sync.Mutex
	m  map[string]int
}

func (c *syncCache) Get(k string) (int, bool) {
	c.mu.Lock()
	defer c.mu.Unlock()
	v, ok := c.m[k]
	return v, ok
}
func (c *syncCache) Set(k string, v int) { c.mu.Lock(); defer c.mu.Unlock(); c.m[k] = v }

var sink atomic.Int64

// touch reads every accessor of what a listener or the function is handed, as user code may.
func touch(e failsafe.ExecutionAttempt[int]) {
	sink.Add(int64(e.Attempts() + e.Executions() + e.Retries() + e.Hedges() + e.LastResult()))
	if e.LastError() != nil {
		sink.Add(1)
	}
	_ = e.IsFirstAttempt()
	_ = e.IsRetry()
	_ = e.IsHedge()
	_ = e.StartTime()
	_ = e.ElapsedTime()
	_ = e.AttemptStartTime()
	_ = e.ElapsedAttemptTime()
	_ = e.Context()
}

func touchInfo(e failsafe.ExecutionInfo) {
	sink.Add(int64(e.Attempts() + e.Executions() + e.Retries() + e.Hedges()))
	_ = e.StartTime()
	_ = e.ElapsedTime()
	_ = e.Context()
}

type polSpec struct {
	Kind string `json:"kind"` // retry breaker bulkhead limiter timeout hedge fallback cache
	P    int    `json:"p"`    // kind-specific parameter
}

type gSpec struct {
	Mode  string `json:"mode"` // sync | async | async-cancel | ctx-cancel | run
	DurUs int    `json:"dur_us"`
	Fails int    `json:"fails"`
}

type program struct {
	Pols        []polSpec `json:"pols"`
	Goroutines  []gSpec   `json:"goroutines"`
	Standalone  int       `json:"standalone"` // goroutines hammering the standalone APIs of the shared instances
	HedgedRetry bool      `json:"hedged_retry_allowed"`
}

type runOut struct {
	hang         string
	sharedState  bool
	policyGorout bool
}

func run(pr program) (out runOut) {
	cache := &syncCache{m: map[string]int{}}
	var cb circuitbreaker.CircuitBreaker[int]
	var bh bulkhead.Bulkhead[int]
	var rl ratelimiter.RateLimiter[int]
	mk := func(ps polSpec) failsafe.Policy[int] {
		switch ps.Kind {
		case "retry":
			b := retrypolicy.Builder[int]().WithMaxRetries(1 + ps.P%4)
			if ps.P%3 == 0 {
				b.WithBackoff(5*time.Microsecond, 80*time.Microsecond)
			}
			if ps.P%5 == 0 {
				b.WithJitter(3 * time.Microsecond)
			}
			return b.OnRetry(func(e failsafe.ExecutionEvent[int]) { touch(e) }).
				OnRetryScheduled(func(e failsafe.ExecutionScheduledEvent[int]) { touch(e) }).
				OnRetriesExceeded(func(e failsafe.ExecutionEvent[int]) { touch(e) }).
				OnSuccess(func(e failsafe.ExecutionEvent[int]) { touch(e) }).
				OnFailure(func(e failsafe.ExecutionEvent[int]) { touch(e) }).Build()
		case "breaker":
			if cb == nil {
				b := circuitbreaker.Builder[int]().WithDelay(time.Duration(20+ps.P%60) * time.Microsecond)
				if ps.P%2 == 0 {
					b.WithFailureThresholdRatio(2, 4)
				} else {
					b.WithFailureRateThreshold(50, 3, 500*time.Microsecond)
				}
				cb = b.OnStateChanged(func(e circuitbreaker.StateChangedEvent) {
					m := e.Metrics()
					sink.Add(int64(m.Executions() + m.Failures() + m.Successes() + m.FailureRate() + m.SuccessRate()))
				}).OnOpen(func(circuitbreaker.StateChangedEvent) {}).
					OnFailure(func(e failsafe.ExecutionEvent[int]) { touch(e) }).
					OnSuccess(func(e failsafe.ExecutionEvent[int]) { touch(e) }).Build()
			}
			return cb
		case "bulkhead":
			if bh == nil {
				bh = bulkhead.Builder[int](uint(1 + ps.P%3)).WithMaxWaitTime(time.Duration(ps.P%4) * 100 * time.Microsecond).
					OnFull(func(e failsafe.ExecutionEvent[int]) { touch(e) }).Build()
			}
			return bh
		case "limiter":
			if rl == nil {
				var b ratelimiter.RateLimiterBuilder[int]
				if ps.P%2 == 0 {
					b = ratelimiter.BurstyBuilder[int](uint(2+ps.P%5), 100*time.Microsecond)
				} else {
					b = ratelimiter.SmoothBuilderWithMaxRate[int](20 * time.Microsecond)
				}
				rl = b.WithMaxWaitTime(time.Duration(ps.P%3) * 50 * time.Microsecond).
					OnRateLimitExceeded(func(e failsafe.ExecutionEvent[int]) { touch(e) }).Build()
			}
			return rl
		case "timeout":
			return timeout.Builder[int](time.Duration(40+ps.P%400) * time.Microsecond).
				OnTimeoutExceeded(func(e failsafe.ExecutionDoneEvent[int]) { touchInfo(e.ExecutionInfo) }).Build()
		case "hedge":
			b := hedgepolicy.BuilderWithDelay[int](time.Duration(ps.P%150) * time.Microsecond).WithMaxHedges(1 + ps.P%3).
				OnHedge(func(e failsafe.ExecutionEvent[int]) { touch(e) })
			if ps.P%2 == 0 {
				b.CancelOnResult(1)
			}
			return b.Build()
		case "fallback":
			return fallback.BuilderWithFunc(func(e failsafe.Execution[int]) (int, error) { touch(e); _ = e.IsCanceled(); return 9, nil }).
				OnFallbackExecuted(func(e failsafe.ExecutionDoneEvent[int]) { touchInfo(e.ExecutionInfo) }).
				OnFailure(func(e failsafe.ExecutionEvent[int]) { touch(e) }).Build()
		default:
			return cachepolicy.Builder[int](cache).WithKey([]string{"k", "k2", ""}[ps.P%3]).
				OnCacheMiss(func(e failsafe.ExecutionEvent[int]) { touch(e) }).
				OnCacheHit(func(e failsafe.ExecutionDoneEvent[int]) { touchInfo(e.ExecutionInfo) }).
				OnResultCached(func(e failsafe.ExecutionEvent[int]) { touch(e) }).Build()
		}
	}
	var pols []failsafe.Policy[int]
	for _, ps := range pr.Pols {
		pols = append(pols, mk(ps))
		switch ps.Kind {
		case "breaker", "bulkhead", "limiter", "cache":
			out.sharedState = true
		case "hedge", "timeout":
			out.policyGorout = true
		}
	}
	ex := failsafe.NewExecutor[int](pols...).
		OnDone(func(e failsafe.ExecutionDoneEvent[int]) { touchInfo(e.ExecutionInfo) }).
		OnSuccess(func(e failsafe.ExecutionDoneEvent[int]) { touchInfo(e.ExecutionInfo) }).
		OnFailure(func(e failsafe.ExecutionDoneEvent[int]) { touchInfo(e.ExecutionInfo) })
	var wg sync.WaitGroup
	for _, gs := range pr.Goroutines {
		gs := gs
		if gs.Mode != "sync" && gs.Mode != "run" && gs.Mode != "ctx-cancel" {
			out.policyGorout = true
		}
		wg.Add(1)
		go func() {
			defer wg.Done()
			dur := time.Duration(gs.DurUs) * time.Microsecond
			var calls atomic.Int32
			fn := func(e failsafe.Execution[int]) (int, error) {
				touch(e)
				_ = e.IsCanceled()
				c := calls.Add(1)
				select {
				case <-time.After(dur):
				case <-e.Canceled():
				}
				if int(c) <= gs.Fails {
					return 0, errX
				}
				return int(c % 3), nil
			}
			switch gs.Mode {
			case "sync":
				ex.GetWithExecution(fn)
			case "run":
				ex.Run(func() error { time.Sleep(dur); return nil })
			case "async":
				r := ex.GetWithExecutionAsync(fn)
				_ = r.IsDone()
				<-r.Done()
				r.Get()
				_ = r.Result()
				_ = r.Error()
			case "async-cancel":
				r := ex.GetWithExecutionAsync(fn)
				time.Sleep(dur / 2)
				r.Cancel()
				r.Get()
				_ = r.IsDone()
			case "ctx-cancel":
				ctx, cancel := context.WithCancel(context.Background())
				go func() { time.Sleep(dur / 2); cancel() }()
				ex.WithContext(ctx).GetWithExecution(fn)
				cancel()
			}
		}()
	}
	for s := 0; s < pr.Standalone; s++ {
		wg.Add(1)
		go func(s int) {
			defer wg.Done()
			for i := 0; i < 25; i++ {
				if cb != nil {
					m := cb.Metrics()
					sink.Add(int64(m.Failures() + m.Executions() + m.SuccessRate()))
					_ = cb.State()
					_ = cb.IsOpen()
					_ = cb.RemainingDelay()
					if cb.TryAcquirePermit() {
						if i%2 == 0 {
							cb.RecordResult(i)
						} else {
							cb.RecordError(errX)
						}
					}
					switch (i + s) % 11 {
					case 0:
						cb.Open()
					case 1:
						cb.Close()
					case 2:
						cb.HalfOpen()
					case 3:
						cb.RecordSuccess()
					case 4:
						cb.RecordFailure()
					}
				}
				if bh != nil && bh.TryAcquirePermit() {
					bh.ReleasePermit()
				}
				if rl != nil {
					rl.TryAcquirePermit()
					_ = rl.TryReservePermit(time.Microsecond)
					_ = rl.TryAcquirePermits(2)
				}
			}
		}(s)
	}
	done := make(chan struct{})
	go func() { wg.Wait(); close(done) }()
	select {
	case <-done:
	case <-harness.After(60 * time.Second):
		buf := make([]byte, 2<<20)
		out.hang = string(buf[:runtime.Stack(buf, true)])
	}
	return out
}

func genProgram(t *rapid.T, hedgedRetry bool) program {
	pr := program{HedgedRetry: hedgedRetry}
	kinds := []string{"retry", "retry", "breaker", "bulkhead", "limiter", "timeout", "hedge", "hedge", "fallback", "cache"}
	n := rapid.IntRange(1, 5).Draw(t, "pols")
	sawHedge := false
	for i := 0; i < n; i++ {
		ps := polSpec{Kind: rapid.SampledFrom(kinds).Draw(t, "kind"), P: rapid.IntRange(0, 999).Draw(t, "p")}
		pr.Pols = append(pr.Pols, ps)
		if ps.Kind == "hedge" {
			sawHedge = true
		}
		_ = sawHedge
	}
	maxG := 8
	if harness.Thorough() {
		maxG = 32
	}
	g := rapid.IntRange(2, maxG).Draw(t, "goroutines")
	for i := 0; i < g; i++ {
		pr.Goroutines = append(pr.Goroutines, gSpec{
			Mode:  rapid.SampledFrom([]string{"sync", "async", "async-cancel", "ctx-cancel", "run"}).Draw(t, "mode"),
			DurUs: rapid.IntRange(0, 300).Draw(t, "durUs"),
			Fails: rapid.IntRange(0, 4).Draw(t, "fails"),
		})
	}
	pr.Standalone = rapid.IntRange(0, 3).Draw(t, "standalone")
	return pr
}

func TestGeneratedPrograms(t *testing.T) {
	const test = "TestGeneratedPrograms"
	st := harness.NewStats(test)
	defer st.Flush()
	rapid.Check(t, func(t *rapid.T) {
		pr := genProgram(t, true)
		o := run(pr)
		if o.hang != "" {
			if strings.Contains(o.hang, "failsafe-go/failsafe-go") {
				harness.Violation(t, prop, test, "deadlock", pr, "program still running after 60s; goroutines with module frames are blocked:\n%s", tailStr(o.hang, 6000))
			}
			harness.Inconclusive(t, "program still running after 60s without module frames blocked")
		}
		nt := o.sharedState && o.policyGorout
		b, _ := json.Marshal(pr)
		kinds := ""
		for _, p := range pr.Pols {
			kinds += p.Kind[:2] + ","
		}
		st.Case(string(b), nt, "kinds="+kinds, fmt.Sprintf("shared-state=%v", o.sharedState), fmt.Sprintf("policy-goroutines=%v", o.policyGorout))
		if nt {
			st.Sample(string(b), func() any { return pr })
		}
	})
}

func tailStr(s string, n int) string {
	if len(s) > n {
		return s[len(s)-n:]
	}
	return s
}

func TestRegress(t *testing.T) {
	st := harness.NewStats("TestRegress")
	defer st.Flush()
	var files []string
	if p := os.Getenv("VERIF_REPLAY"); p != "" {
		files = []string{p}
	} else {
		dir := os.Getenv("VERIF_REGRESS_DIR")
		if dir == "" {
			dir = "../../regress/c14"
		}
		ents, _ := os.ReadDir(dir)
		for _, e := range ents {
			files = append(files, dir+"/"+e.Name())
		}
	}
	reps := 200
	if r, err := strconv.Atoi(os.Getenv("VERIF_REPLAY_REPS")); err == nil && r > 1 {
		reps = r
	}
	for _, f := range files {
		b, err := os.ReadFile(f)
		if err != nil {
			continue
		}
		var pr program
		_ = json.Unmarshal(b, &pr)
		if len(pr.Pols) == 0 && len(pr.Goroutines) == 0 {
			var vr struct {
				Scenario program `json:"scenario"`
			}
			_ = json.Unmarshal(b, &vr)
			pr = vr.Scenario
		}
		if len(pr.Goroutines) == 0 {
			continue
		}
		for i := 0; i < reps; i++ {
			if o := run(pr); o.hang != "" {
				harness.Violation(t, prop, "TestRegress", "deadlock", pr, "program still running after 60s")
			}
		}
		st.Case(f, true, "regress")
		st.Sample(f, func() any { return pr })
	}
}
