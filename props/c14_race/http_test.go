//go:build verif

package c14

import (
	"bytes"
	"encoding/json"
	"fmt"
	"io"
	"net/http"
	"net/http/httptest"
	"sync"
	"testing"
	"time"

	"github.com/failsafe-go/failsafe-go"
	"github.com/failsafe-go/failsafe-go/failsafehttp"
	"github.com/failsafe-go/failsafe-go/hedgepolicy"

	"pgregory.net/rapid"

	"verif/harness"
)

// TestHTTPHedgedRace: the HTTP adapter under the race detector. Hedged requests through one shared executor and transport,
// from several goroutines; the server answers the attempts of one request at (almost) the same moment, so that losing
// attempts obtain their responses while the winner is being returned and the adapter tidies up.
func TestHTTPHedgedRace(t *testing.T) {
	const test = "TestHTTPHedgedRace"
	st := harness.NewStats(test)
	defer st.Flush()
	rapid.Check(t, func(t *rapid.T) {
		type scen struct {
			Via       string `json:"via"`
			HedgeUs   int    `json:"hedge_us"`
			ServeUs   int    `json:"serve_us"`
			MaxHedges int    `json:"max_hedges"`
			Callers   int    `json:"callers"`
			// BodyKiB: the requests carry a body of that size from a plain (non-seekable) reader; with 4 MiB the first
			// attempt is still uploading when the hedge starts its own upload (the server answers without reading)
			BodyKiB int `json:"body_kib"`
		}
		sc := scen{Via: rapid.SampledFrom([]string{"roundtripper", "request"}).Draw(t, "via"), HedgeUs: rapid.SampledFrom([]int{50, 200}).Draw(t, "hedgeUs"),
			ServeUs: rapid.SampledFrom([]int{100, 300, 600}).Draw(t, "serveUs"), MaxHedges: rapid.IntRange(1, 2).Draw(t, "maxHedges"), Callers: rapid.IntRange(2, 4).Draw(t, "callers"),
			BodyKiB: rapid.SampledFrom([]int{0, 0, 64, 4096}).Draw(t, "bodyKiB")}
		payload := bytes.Repeat([]byte("0123456789abcdef"), sc.BodyKiB*64)
		rounds := 25
		if sc.BodyKiB >= 1024 {
			rounds = 4
		}
		var mu sync.Mutex
		waiting := map[string][]chan struct{}{}
		srv := httptest.NewServer(http.HandlerFunc(func(w http.ResponseWriter, r *http.Request) {
			// all attempts of one request (same X-Req) are answered together, a moment after the first arrived
			id := r.Header.Get("X-Req")
			ch := make(chan struct{})
			mu.Lock()
			first := len(waiting[id]) == 0
			waiting[id] = append(waiting[id], ch)
			mu.Unlock()
			if first {
				go func() {
					time.Sleep(time.Duration(sc.ServeUs) * time.Microsecond)
					mu.Lock()
					for _, c := range waiting[id] {
						close(c)
					}
					waiting[id] = nil
					mu.Unlock()
				}()
			}
			select {
			case <-ch:
			case <-r.Context().Done():
			case <-time.After(time.Second):
			}
			w.WriteHeader(200)
			w.Write([]byte("0123456789"))
		}))
		defer srv.Close()
		tr := &http.Transport{MaxIdleConnsPerHost: 16}
		defer tr.CloseIdleConnections()
		hp := hedgepolicy.BuilderWithDelay[*http.Response](time.Duration(sc.HedgeUs) * time.Microsecond).WithMaxHedges(sc.MaxHedges).Build()
		ex := failsafe.NewExecutor[*http.Response](hp)
		var wg sync.WaitGroup
		for c := 0; c < sc.Callers; c++ {
			wg.Add(1)
			go func(c int) {
				defer wg.Done()
				for i := 0; i < rounds; i++ {
					req, _ := http.NewRequest("GET", srv.URL, nil)
					if sc.BodyKiB > 0 {
						req, _ = http.NewRequest("POST", srv.URL, bytes.NewBuffer(append([]byte(nil), payload...)))
					}
					req.Header.Set("X-Req", string(rune('a'+c))+"-"+string(rune('0'+i%10))+string(rune('0'+i/10)))
					var resp *http.Response
					var err error
					if sc.Via == "request" {
						resp, err = failsafehttp.NewRequestWithExecutor(req, &http.Client{Transport: tr}, ex).Do()
					} else {
						resp, err = (&http.Client{Transport: failsafehttp.NewRoundTripperWithExecutor(tr, ex)}).Do(req)
					}
					if err == nil {
						io.Copy(io.Discard, resp.Body)
						resp.Body.Close()
					}
				}
			}(c)
		}
		done := make(chan struct{})
		go func() { wg.Wait(); close(done) }()
		select {
		case <-done:
		case <-harness.After(60 * time.Second):
			harness.Inconclusive(t, "%+v: the requests had not finished after 60s", sc)
		}
		b, _ := json.Marshal(sc)
		st.Case(string(b), true, "via="+sc.Via, fmt.Sprintf("body-kib=%d", sc.BodyKiB))
		st.Sample(string(b), func() any { return sc })
	})
}
