//go:build verif

// Package c09 checks property C09 (hedge: bounded attempts, spaced by the delay, one winner, losers cancelled) and the
// hedged part of C17 (statistics while attempts overlap).
package c09

import (
	"context"
	"encoding/json"
	"errors"
	"fmt"
	"os"
	"sort"
	"strconv"
	"sync"
	"sync/atomic"
	"testing"
	"time"

	"github.com/failsafe-go/failsafe-go"
	"github.com/failsafe-go/failsafe-go/fallback"
	"github.com/failsafe-go/failsafe-go/hedgepolicy"
	"github.com/failsafe-go/failsafe-go/retrypolicy"
	"github.com/failsafe-go/failsafe-go/timeout"
	"pgregory.net/rapid"

	"verif/harness"
)

var (
	errC     = errors.New("cancel-matching error")
	errN     = errors.New("plain error")
	errLoser = errors.New("attempt was cancelled")
	// an attempt that fails on its own with an error that looks like a cancellation (a downstream call that gave up on a
	// context of its own): nobody cancelled the attempt, its result counts like any other
	errK      = fmt.Errorf("downstream call gave up: %w", context.Canceled)
	errLoser2 = errors.New("another error that is never produced")
)

const fbVal = 999999

// scenario: one hedged execution. Attempts are identified by the order in which they enter the function (goroutines of
// hedge k and k+1 may enter in either order); outcomes are assigned by entry order.
type scenario struct {
	MaxHedges int     `json:"max_hedges"`
	DelaysUs  []int64 `json:"delays_us"` // per hedge; -1 = one hour
	Cancel    string  `json:"cancel"`    // default | result | errors | if
	Outcomes  []outc  `json:"outcomes"`  // per attempt in entry order
	Mode      string  `json:"mode"`      // gated: the harness releases attempts in Release order | auto: attempts finish by themselves
	Release   []int   `json:"release"`   // gated: permutation of the attempts that can start
	Placement string  `json:"placement"` // alone | retry(hedge) | timeout(hedge) | fallback(hedge) | hedge(timeout)
	// AlignAccept (cancel "if"): attempts with acceptable results wait for each other inside the predicate (up to 300 us), so
	// that two results are accepted at the same instant
	AlignAccept bool `json:"align_accept,omitempty"`
	// SlowReject (cancel "if"): the predicate takes 300 us to say no to a result it does not accept; an acceptable result
	// that is produced meanwhile by another attempt is still accepted, at once
	SlowReject bool `json:"slow_reject,omitempty"`
	// SharedBuilder: the builder is used again (more hedges, another listener) after the policy under test was built
	SharedBuilder bool `json:"shared_builder,omitempty"`
	Async         bool `json:"async"`
}

type outc struct {
	Kind  string `json:"kind"`   // match | nomatch
	Err   string `json:"err"`    // "" | C | N | K (an error of the attempt's own that wraps context.Canceled)
	DurUs int64  `json:"dur_us"` // auto mode: how long the attempt takes; -1 = until cancelled
}

func delay(us int64) time.Duration {
	if us < 0 {
		return time.Hour
	}
	return time.Duration(us) * time.Microsecond
}

// value of attempt i: unique per attempt; the last digit says whether CancelOnResult / CancelIf match it
func (sc scenario) value(i int) int {
	v := 100 * (i + 1)
	if sc.Outcomes[i].Kind == "match" && (sc.Cancel == "result" || sc.Cancel == "if") {
		v++
	}
	return v
}

func (sc scenario) errOf(i int) error {
	o := sc.Outcomes[i]
	switch {
	case sc.Cancel == "errors" && o.Kind == "match":
		return errC
	case o.Kind == "match" && (sc.Cancel == "result" || sc.Cancel == "if"):
		return nil // result conditions are stated for outcomes without an error
	case o.Err == "N":
		return errN
	case o.Err == "K":
		return errK
	}
	return nil
}

// cancellable is the documented rule restated by the harness for its own outcome encoding.
func (sc scenario) cancellable(i int) bool {
	switch sc.Cancel {
	case "default":
		return true
	default:
		return sc.Outcomes[i].Kind == "match"
	}
}

type attemptRec struct {
	id               int
	exec             failsafe.Execution[int]
	isHedge          bool
	gate             chan struct{}
	entered          time.Time
	finished         time.Time
	cancelled        bool // left because its execution was cancelled
	cancelledAtEntry bool
	statsOK          string
}

type evt struct {
	kind string
	id   int
	at   time.Time
}

type result struct {
	v   int
	err error
}

type runOut struct {
	violation    string
	sig          string
	inconclusive string
	attempts     int
	overlapped   bool
	winner       int
	finalPath    bool
	endedByCtx   bool
}

func run(sc scenario, propID string) (out runOut) {
	H := sc.MaxHedges
	fail := func(sig, f string, a ...any) runOut {
		out.violation, out.sig = fmt.Sprintf(f, a...), sig
		return out
	}
	expectStart := 1
	for _, d := range sc.DelaysUs {
		if d < 0 {
			break
		}
		expectStart++
	}

	var mu sync.Mutex
	var log []evt
	var attempts []*attemptRec
	var onHedgeAt []time.Time
	var onHedgeStats []string
	add := func(k string, id int) { log = append(log, evt{k, id, time.Now()}) }
	startedCh := make(chan int, 64)

	b := hedgepolicy.BuilderWithDelayFunc[int](func(e failsafe.ExecutionAttempt[int]) time.Duration {
		h := e.Hedges()
		if h < 0 || h >= len(sc.DelaysUs) {
			return 0 // asked for a delay beyond the configured hedges: let the extra attempt start so the bound check sees it
		}
		return delay(sc.DelaysUs[h])
	}).WithMaxHedges(H)
	switch sc.Cancel {
	case "result":
		for i := range sc.Outcomes {
			if sc.Outcomes[i].Kind == "match" {
				b.CancelOnResult(sc.value(i))
			}
		}
		b.CancelOnResult(-12345) // the list is never empty, so "cancel on any result" does not apply
	case "errors":
		b.CancelOnErrors(errors.New("never produced"), errC, errLoser2) // several targets in one call
	case "if":
		var inPredicate atomic.Int32
		b.CancelIf(func(v int, err error) bool {
			match := err == nil && v%100 == 1
			if sc.AlignAccept && match {
				// two attempts with acceptable results leave the predicate at the same instant: exactly one of them is the
				// winner, and it is the one whose result the caller gets
				inPredicate.Add(1)
				for end := time.Now().Add(300 * time.Microsecond); inPredicate.Load() < 2 && time.Now().Before(end); {
				}
			}
			if sc.SlowReject && !match {
				for end := time.Now().Add(300 * time.Microsecond); time.Now().Before(end); {
				}
			}
			return match
		})
	}
	b.OnHedge(func(e failsafe.ExecutionEvent[int]) {
		mu.Lock()
		onHedgeAt = append(onHedgeAt, time.Now())
		if !e.IsHedge() {
			onHedgeStats = append(onHedgeStats, "OnHedge event is not marked IsHedge")
		}
		mu.Unlock()
	})
	hp := b.Build()
	if sc.SharedBuilder {
		// the builder goes on to build another policy with more hedges and its own listener: the one under test keeps the
		// configuration it was built with
		b.WithMaxHedges(H + 3).OnHedge(func(failsafe.ExecutionEvent[int]) {
			mu.Lock()
			onHedgeStats = append(onHedgeStats, "the OnHedge listener of another policy built later from the same builder was called")
			mu.Unlock()
		})
		_ = b.Build()
	}

	ctx, cancel := context.WithCancel(context.Background())
	defer cancel()
	retryable := errors.New("retry me")
	_ = retryable
	fn := func(exec failsafe.Execution[int]) (int, error) {
		// C17 (hedged): the counters are separate atomics; read Hedges before and after Attempts
		h1, r1 := exec.Hedges(), exec.Retries()
		a := exec.Attempts()
		h2, r2 := exec.Hedges(), exec.Retries()
		mu.Lock()
		rec := &attemptRec{id: len(attempts), exec: exec, isHedge: exec.IsHedge(), gate: make(chan struct{}), entered: time.Now()}
		if a < 1+r1+h1 || a > 1+r2+h2+1 {
			rec.statsOK = fmt.Sprintf("Attempts=%d with Retries in [%d,%d] and Hedges in [%d,%d]", a, r1, r2, h1, h2)
		}
		rec.cancelledAtEntry = exec.IsCanceled()
		attempts = append(attempts, rec)
		add("enter", rec.id)
		mu.Unlock()
		startedCh <- rec.id
		if rec.id >= len(sc.Outcomes) {
			<-exec.Canceled() // more attempts than maxHedges+1: reported by the bound check
			return -1, errLoser
		}
		o := sc.Outcomes[rec.id]
		var timer <-chan time.Time
		gate := rec.gate
		if sc.Mode == "auto" {
			gate = nil
			if o.DurUs >= 0 {
				timer = time.After(time.Duration(o.DurUs) * time.Microsecond)
			}
		}
		wasCancelled := false
		select {
		case <-gate:
		case <-timer:
		case <-exec.Canceled():
			wasCancelled = true
		}
		// C17: the flags agree with the counters at any moment, not only on entry (read between two equal readings of
		// Attempts, so that a hedge starting in between cannot be blamed)
		if a1 := exec.Attempts(); true {
			first, retry := exec.IsFirstAttempt(), exec.IsRetry()
			if a2 := exec.Attempts(); a1 == a2 && (first != (a1 == 1) || retry != (a1 > 1)) {
				mu.Lock()
				rec.statsOK = fmt.Sprintf("before returning: Attempts=%d but IsFirstAttempt=%v IsRetry=%v", a1, first, retry)
				mu.Unlock()
			}
		}
		if wasCancelled {
			mu.Lock()
			rec.cancelled, rec.finished = true, time.Now()
			add("cancelled", rec.id)
			mu.Unlock()
			return -1, errLoser
		}
		mu.Lock()
		rec.finished = time.Now()
		add("finish", rec.id)
		mu.Unlock()
		return sc.value(rec.id), sc.errOf(rec.id)
	}

	var policies []failsafe.Policy[int]
	switch sc.Placement {
	case "retry(hedge)":
		// the retry policy never handles what the hedge returns here (its only handled error is never produced): it must be
		// transparent for the hedge beneath it
		policies = []failsafe.Policy[int]{retrypolicy.Builder[int]().HandleErrors(retryable).WithMaxRetries(2).Build(), hp}
	case "timeout(hedge)":
		policies = []failsafe.Policy[int]{timeout.With[int](time.Hour), hp}
	case "fallback(hedge)":
		policies = []failsafe.Policy[int]{fallback.BuilderWithResult[int](fbVal).HandleErrors(errN).Build(), hp}
	case "hedge(timeout)":
		// a Timeout that never fires between the hedge policy and the function: every attempt runs on a further copy
		policies = []failsafe.Policy[int]{hp, timeout.With[int](time.Hour)}
	default:
		policies = []failsafe.Policy[int]{hp}
	}
	resCh := make(chan result, 1)
	var returnedAt time.Time
	begin := time.Now()
	go func() {
		var v int
		var err error
		ex := failsafe.NewExecutor[int](policies...).WithContext(ctx)
		if sc.Async {
			v, err = ex.GetWithExecutionAsync(fn).Get()
		} else {
			v, err = ex.GetWithExecution(fn)
		}
		mu.Lock()
		returnedAt = time.Now()
		add("return", -1)
		mu.Unlock()
		resCh <- result{v, err}
	}()

	var got *result
	if sc.Mode == "gated" {
		// every attempt that can start does start, and blocks on its gate
		for i := 0; i < expectStart; i++ {
			select {
			case <-startedCh:
			case <-harness.After(30 * time.Second):
				out.inconclusive = fmt.Sprintf("only %d of %d attempts started within 30s", i, expectStart)
				return out
			}
		}
		mu.Lock()
		// quiescent: all started attempts are parked. Exact statistics and exact spacing bounds can be read now.
		var hedgeEntries []time.Time
		nonHedge := 0
		for _, a := range attempts {
			if a.isHedge {
				hedgeEntries = append(hedgeEntries, a.entered)
			} else {
				nonHedge++
			}
		}
		sort.Slice(hedgeEntries, func(i, j int) bool { return hedgeEntries[i].Before(hedgeEntries[j]) })
		nOnHedge := len(onHedgeAt)
		any := attempts[0].exec
		mu.Unlock()
		if nonHedge != 1 {
			return fail("first-attempt-marking", "%d attempts are not marked IsHedge, expected exactly 1", nonHedge)
		}
		if len(hedgeEntries) != expectStart-1 || nOnHedge != expectStart-1 {
			return fail("hedge-count", "%d hedge attempts entered and OnHedge was called %d times; delays %v allow exactly %d", len(hedgeEntries), nOnHedge, sc.DelaysUs, expectStart-1)
		}
		if a, h, e := any.Attempts(), any.Hedges(), any.Executions(); a != expectStart || h != expectStart-1 || e != 0 {
			return fail("hedged-stats", "with %d attempts parked: Attempts=%d Hedges=%d Executions=%d", expectStart, a, h, e)
		}
		var sum time.Duration
		for k := 1; k < expectStart; k++ {
			sum += delay(sc.DelaysUs[k-1])
			if d := hedgeEntries[k-1].Sub(begin); d < sum {
				return fail("hedge-early", "the %d-th hedge entered the function %v after the start, before the first %d delays (%v) had elapsed", k, d, k, sum)
			}
			mu.Lock()
			d := onHedgeAt[k-1].Sub(begin)
			mu.Unlock()
			if d < sum {
				return fail("hedge-early", "OnHedge %d was called %v after the start, before the first %d delays (%v) had elapsed", k, d, k, sum)
			}
		}
		out.overlapped = expectStart >= 2
		released := 0
		for _, id := range sc.Release {
			if id >= expectStart {
				continue
			}
			mu.Lock()
			a := attempts[id]
			mu.Unlock()
			close(a.gate)
			released++
			final := expectStart == H+1 && released == H+1
			if sc.cancellable(id) || final {
				select {
				case r := <-resCh:
					got = &r
				case <-harness.After(30 * time.Second):
					return fail("accepted-result-not-delivered", "attempt %d finished with an accepted result (cancel-matching=%v, last of all=%v) but the call had not returned 30s later; %d other attempts still parked", id, sc.cancellable(id), final, expectStart-released)
				}
				out.finalPath = final && !sc.cancellable(id)
				break
			}
			select {
			case r := <-resCh:
				return fail("returned-unaccepted-result", "the call returned (%d,%v) after attempt %d finished with a result that matches no cancel condition while %d of %d attempts had not finished", r.v, r.err, id, H+1-released, H+1)
			case <-time.After(300 * time.Microsecond):
			}
		}
		if got == nil {
			// every started attempt finished without an accepted result and the next hedge is an hour away: the scenario
			// ends by cancelling the context, which must be reported promptly (C08's subject; here only the cleanup)
			out.endedByCtx = true
			cancel()
			select {
			case r := <-resCh:
				if !errors.Is(r.err, context.Canceled) {
					return fail("result-after-cancel", "after cancelling the context the call returned (%d,%v)", r.v, r.err)
				}
			case <-harness.After(30 * time.Second):
				return fail("D10-hedge-wait-ignores-cancel", "context cancelled while the hedge executor waits for a pending 1h hedge delay: the call had not returned 30s later")
			}
			mu.Lock()
			out.attempts = len(attempts)
			mu.Unlock()
			return out
		}
	} else {
		select {
		case r := <-resCh:
			got = &r
		case <-harness.After(40 * time.Second):
			// possible only if nothing is accepted and a 1h delay is pending; the generator gives auto scenarios finite
			// delays and at least one attempt that finishes, so this is a real hang
			return fail("call-never-returned", "no result 40s after the start although attempts finish on their own and all hedge delays are finite")
		}
	}

	// ---- judge the returned result against the log ----
	time.Sleep(500 * time.Microsecond)
	mu.Lock()
	defer mu.Unlock()
	out.attempts = len(attempts)
	if len(attempts) > H+1 {
		return fail("too-many-attempts", "%d attempts entered the function, maxHedges=%d allows %d", len(attempts), H, H+1)
	}
	for _, a := range attempts {
		if a.statsOK != "" {
			out.violation, out.sig = "attempt "+strconv.Itoa(a.id)+": "+a.statsOK, "hedged-stats"
			return out
		}
	}
	for _, s := range onHedgeStats {
		return fail("hedge-event", "%s", s)
	}
	// which attempt produced the returned result? (values are unique per attempt; behind a fallback the replaced result
	// is identified as the one attempt that finished with the handled error and was left un-cancelled)
	winner := -1
	if sc.Placement == "fallback(hedge)" && got.v == fbVal && got.err == nil {
		var cands []int
		for i, a := range attempts {
			if i < len(sc.Outcomes) && sc.errOf(i) == errN && !a.finished.IsZero() && !a.cancelled {
				cands = append(cands, i)
			}
		}
		if len(cands) == 0 {
			return fail("result-not-produced", "the fallback result was returned but no attempt finished with the error it handles")
		}
		winner = cands[0]
		for _, i := range cands {
			if !attempts[i].exec.IsCanceled() {
				winner = i
			}
		}
	} else {
		for i := range attempts {
			if i < len(sc.Outcomes) && got.v == sc.value(i) && got.err == sc.errOf(i) {
				winner = i
			}
		}
		if winner == -1 {
			return fail("result-not-produced", "the call returned (%d,%v), which no attempt produced (attempt values are 100*(i+1)[+1])", got.v, got.err)
		}
	}
	out.winner = winner
	w := attempts[winner]
	if w.finished.IsZero() || w.cancelled || w.finished.After(returnedAt) {
		return fail("result-not-produced", "the call returned attempt %d's result but that attempt had not finished (cancelled=%v)", winner, w.cancelled)
	}
	if !sc.cancellable(winner) {
		// a result that matches no cancel condition may only be delivered after all maxHedges+1 attempts have finished
		finished := 0
		for _, a := range attempts {
			if !a.finished.IsZero() && !a.cancelled && !a.finished.After(returnedAt) {
				finished++
			}
		}
		if finished != H+1 {
			return fail("unaccepted-result-returned-early", "attempt %d's result matches no cancel condition, yet the call returned when only %d of %d attempts had finished", winner, finished, H+1)
		}
		out.finalPath = true
	}
	// spacing (auto mode: lower bounds on order statistics of the hedge entries)
	var hedgeEntries []time.Time
	nonHedge := 0
	for _, a := range attempts {
		if a.isHedge {
			hedgeEntries = append(hedgeEntries, a.entered)
		} else {
			nonHedge++
		}
	}
	// (auto mode: the goroutine of the first attempt may not have reached the function yet when a hedge launched right
	// after it has already delivered the result -- seen on an oversubscribed machine; it then enters later, as a cancelled
	// attempt. Exactly one unmarked entry is required once every launched attempt has entered, never more than one.)
	if nonHedge > 1 || (nonHedge != 1 && len(attempts) >= 1+len(onHedgeAt)) {
		return fail("first-attempt-marking", "%d attempts are not marked IsHedge, expected exactly 1", nonHedge)
	}
	sort.Slice(hedgeEntries, func(i, j int) bool { return hedgeEntries[i].Before(hedgeEntries[j]) })
	var sum time.Duration
	for k := range hedgeEntries {
		sum += delay(sc.DelaysUs[k])
		if d := hedgeEntries[k].Sub(begin); d < sum {
			return fail("hedge-early", "the %d-th hedge entered the function %v after the start, before the first %d delays (%v) had elapsed", k+1, d, k+1, sum)
		}
	}
	if len(onHedgeAt) < len(hedgeEntries) {
		return fail("hedge-event", "%d hedge attempts entered the function but OnHedge was called %d times", len(hedgeEntries), len(onHedgeAt))
	}
	overl := 0
	for _, a := range attempts {
		if a.entered.Before(w.finished) {
			overl++
		}
	}
	out.overlapped = out.overlapped || overl >= 2
	// at the moment the call returned: every other started attempt cancelled, the winner not
	for i, a := range attempts {
		if i == winner {
			if a.exec.IsCanceled() {
				return fail("winner-cancelled", "the winning attempt %d is cancelled after the call returned", i)
			}
		} else if !a.exec.IsCanceled() {
			return fail("loser-not-cancelled", "attempt %d (finished on its own: %v) is not cancelled although the call returned attempt %d's result", i, !a.finished.IsZero() && !a.cancelled, winner)
		}
	}
	mu.Unlock()
	// nothing is started once a result has been accepted: a hedge whose goroutine was launched just before may still enter
	// the function afterwards, but then as a cancelled loser; no OnHedge call may come after the return
	time.Sleep(3 * time.Millisecond)
	mu.Lock()
	for _, a := range attempts {
		if a.entered.After(returnedAt) && !a.cancelledAtEntry {
			return fail("attempt-after-return", "attempt %d entered the function after the call had returned, with an execution that was not cancelled", a.id)
		}
	}
	for _, at := range onHedgeAt {
		if at.After(returnedAt) {
			return fail("attempt-after-return", "OnHedge was called after the call had returned")
		}
	}
	if len(attempts) > H+1 {
		return fail("too-many-attempts", "%d attempts entered the function, maxHedges=%d allows %d", len(attempts), H, H+1)
	}
	if len(onHedgeAt) < len(attempts)-1 || len(onHedgeAt) > H {
		return fail("hedge-event", "OnHedge was called %d times for %d hedge attempts (maxHedges %d)", len(onHedgeAt), len(attempts)-1, H)
	}
	return out
}

func genScenario(t *rapid.T) scenario {
	sc := scenario{MaxHedges: rapid.IntRange(0, 4).Draw(t, "maxHedges")}
	sc.Mode = rapid.SampledFrom([]string{"gated", "gated", "auto"}).Draw(t, "mode")
	sc.Cancel = rapid.SampledFrom([]string{"default", "result", "errors", "if"}).Draw(t, "cancel")
	sc.Placement = rapid.SampledFrom([]string{"alone", "alone", "retry(hedge)", "timeout(hedge)", "fallback(hedge)", "hedge(timeout)"}).Draw(t, "placement")
	sc.SharedBuilder = rapid.IntRange(0, 3).Draw(t, "sharedBuilder") == 0
	sc.AlignAccept = sc.Cancel == "if" && rapid.Bool().Draw(t, "alignAccept")
	sc.SlowReject = sc.Cancel == "if" && rapid.Bool().Draw(t, "slowReject")
	sc.Async = rapid.Bool().Draw(t, "async")
	for i := 0; i < sc.MaxHedges; i++ {
		ds := []int64{0, 200, 1000, 3000, 5000}
		if sc.Mode == "gated" {
			ds = append(ds, -1)
		}
		sc.DelaysUs = append(sc.DelaysUs, rapid.SampledFrom(ds).Draw(t, "delayUs"))
	}
	anyFinishes := false
	for i := 0; i <= sc.MaxHedges; i++ {
		o := outc{Kind: rapid.SampledFrom([]string{"match", "nomatch", "nomatch"}).Draw(t, "kind"), Err: rapid.SampledFrom([]string{"", "", "N", "K"}).Draw(t, "err")}
		if sc.Mode == "auto" {
			o.DurUs = rapid.SampledFrom([]int64{0, 100, 1000, 4000, 8000, -1}).Draw(t, "durUs")
			if o.DurUs >= 0 {
				anyFinishes = true
			}
		}
		sc.Outcomes = append(sc.Outcomes, o)
	}
	if sc.Mode == "auto" {
		if !anyFinishes {
			sc.Outcomes[0].DurUs = 500
		}
		// something must be acceptable: either an attempt that finishes with a matching result, or all attempts finish
		ok := sc.Cancel == "default"
		all := true
		for i, o := range sc.Outcomes {
			if o.DurUs >= 0 && sc.cancellable(i) {
				ok = true
			}
			if o.DurUs < 0 {
				all = false
			}
		}
		if !ok && !all {
			for i := range sc.Outcomes {
				if sc.Outcomes[i].DurUs < 0 {
					sc.Outcomes[i].DurUs = 2000
				}
			}
		}
	} else {
		sc.Release = rapid.Permutation(seq(sc.MaxHedges+1)).Draw(t, "release")
	}
	return sc
}

func seq(n int) []int {
	s := make([]int, n)
	for i := range s {
		s[i] = i
	}
	return s
}

func classify(st *harness.Stats, sc scenario, o runOut) {
	nt := o.overlapped && (o.winner != 0 || o.finalPath)
	b, _ := json.Marshal(sc)
	st.Case(string(b), nt, "mode="+sc.Mode, "placement="+sc.Placement, "cancel="+sc.Cancel,
		fmt.Sprintf("final-path=%v", o.finalPath), fmt.Sprintf("overlapped=%v", o.overlapped), fmt.Sprintf("ended-by-cancel=%v", o.endedByCtx))
	if nt {
		st.Sample(string(b), func() any {
			return map[string]any{"scenario": sc, "winner": o.winner, "attempts": o.attempts, "final_path": o.finalPath}
		})
	}
}

func hedgeProperty(propID, test string, st *harness.Stats, onlySig func(string) bool) func(*rapid.T) {
	return func(t *rapid.T) {
		sc := genScenario(t)
		o := run(sc, propID)
		if o.inconclusive != "" {
			harness.Inconclusive(t, "%s", o.inconclusive)
		}
		if o.violation != "" && onlySig(o.sig) {
			harness.Violation(t, propID, test, o.sig, sc, "%+v: %s", sc, o.violation)
		}
		classify(st, sc, o)
	}
}

// C09 claims everything except the statistics signatures, which belong to C17 (registered there through this package).
func isStats(sig string) bool { return sig == "hedged-stats" }

func TestHedge(t *testing.T) {
	st := harness.NewStats("TestHedge")
	defer st.Flush()
	rapid.Check(t, hedgeProperty("C09", "TestHedge", st, func(s string) bool { return !isStats(s) }))
}

// TestHedgedStats is the hedged part of C17, run by the C17 check from this package.
func TestHedgedStats(t *testing.T) {
	st := harness.NewStats("TestHedgedStats")
	defer st.Flush()
	// (IsHedge marking is named by both properties: it is reported by both checks)
	rapid.Check(t, hedgeProperty("C17", "TestHedgedStats", st, func(s string) bool { return isStats(s) || s == "first-attempt-marking" || s == "hedge-event" }))
}

func TestRegress(t *testing.T) {
	st := harness.NewStats("TestRegress")
	defer st.Flush()
	var files []string
	if p := os.Getenv("VERIF_REPLAY"); p != "" {
		files = []string{p}
	} else {
		dir := os.Getenv("VERIF_REGRESS_DIR")
		if dir == "" {
			dir = "../../regress/c09"
		}
		ents, _ := os.ReadDir(dir)
		for _, e := range ents {
			files = append(files, dir+"/"+e.Name())
		}
	}
	reps := 50
	if r, err := strconv.Atoi(os.Getenv("VERIF_REPLAY_REPS")); err == nil && r > 1 {
		reps = r
	}
	for _, f := range files {
		b, err := os.ReadFile(f)
		if err != nil {
			continue
		}
		var head struct {
			Test     string    `json:"test"`
			Scenario innerScen `json:"scenario"`
		}
		if json.Unmarshal(b, &head) == nil && head.Test == "TestHedgeInnerTimeout" {
			for i := 0; i < reps; i++ {
				runInnerTimeout(t, "TestRegress", st, head.Scenario)
			}
			continue
		}
		var fhead struct {
			Test     string    `json:"test"`
			Scenario finalScen `json:"scenario"`
		}
		if json.Unmarshal(b, &fhead) == nil && fhead.Test == "TestHedgeFinalPathRounds" {
			for i := 0; i < reps; i++ {
				runFinalRounds(t, "TestRegress", st, fhead.Scenario)
			}
			continue
		}
		var sc scenario
		_ = json.Unmarshal(b, &sc)
		if len(sc.Outcomes) == 0 {
			var vr struct {
				Scenario scenario `json:"scenario"`
			}
			_ = json.Unmarshal(b, &vr)
			sc = vr.Scenario
		}
		if len(sc.Outcomes) == 0 {
			continue
		}
		for i := 0; i < reps; i++ {
			o := run(sc, "C09")
			if o.violation != "" {
				harness.Violation(t, "C09", "TestRegress", o.sig, sc, "%+v: %s", sc, o.violation)
			}
			if i == 0 {
				classify(st, sc, o)
			}
		}
	}
}

// TestHedgedRetryStats (run by the C17 check): Retry(Hedge(fn)) where whole hedged rounds fail and are retried. Retries only
// change between rounds, when nothing else of the execution runs, so every function entry of round k must see exactly
// Retries() == k-1, and Attempts() within the bounds the concurrently starting hedges allow.
func TestHedgedRetryStats(t *testing.T) {
	const test = "TestHedgedRetryStats"
	st := harness.NewStats(test)
	defer st.Flush()
	rapid.Check(t, func(t *rapid.T) {
		type scen struct {
			MaxHedges  int   `json:"max_hedges"`
			DelayUs    int   `json:"delay_us"`
			FailRounds int   `json:"fail_rounds"`
			DurUs      []int `json:"dur_us"`
			Async      bool  `json:"async"`
		}
		sc := scen{MaxHedges: rapid.IntRange(1, 3).Draw(t, "maxHedges"), DelayUs: rapid.SampledFrom([]int{0, 50, 300}).Draw(t, "delayUs"),
			FailRounds: rapid.IntRange(1, 3).Draw(t, "failRounds"), Async: rapid.Bool().Draw(t, "async")}
		for i := 0; i < 16; i++ {
			sc.DurUs = append(sc.DurUs, rapid.SampledFrom([]int{0, 100, 500, 1500}).Draw(t, "durUs"))
		}
		var mu sync.Mutex
		round := 0 // completed rounds, advanced by OnRetry (between rounds)
		entries, hedgesSeen := 0, 0
		var problems []string
		hp := hedgepolicy.BuilderWithDelay[int](time.Duration(sc.DelayUs) * time.Microsecond).WithMaxHedges(sc.MaxHedges).CancelOnResult(-1).Build()
		rp := retrypolicy.Builder[int]().WithMaxRetries(sc.FailRounds).HandleErrors(errN).OnRetry(func(e failsafe.ExecutionEvent[int]) {
			mu.Lock()
			round++
			if e.Retries() != round {
				problems = append(problems, fmt.Sprintf("OnRetry %d sees Retries()=%d", round, e.Retries()))
			}
			mu.Unlock()
		}).Build()
		fn := func(exec failsafe.Execution[int]) (int, error) {
			h1 := exec.Hedges()
			r, a := exec.Retries(), exec.Attempts()
			h2 := exec.Hedges()
			mu.Lock()
			k := round
			i := entries
			entries++
			if exec.IsHedge() {
				hedgesSeen++
			}
			if r != k {
				problems = append(problems, fmt.Sprintf("an attempt of round %d sees Retries()=%d (Attempts=%d Hedges=%d)", k+1, r, a, h2))
			}
			if a < 1+r+h1 || a > 1+r+h2+1 {
				problems = append(problems, fmt.Sprintf("round %d: Attempts=%d with Retries=%d and Hedges in [%d,%d]", k+1, a, r, h1, h2))
			}
			mu.Unlock()
			select {
			case <-time.After(time.Duration(sc.DurUs[i%len(sc.DurUs)]) * time.Microsecond):
			case <-exec.Canceled():
			}
			if k < sc.FailRounds {
				return 0, errN
			}
			return 7, nil
		}
		var doneA, doneR, doneH int
		ex := failsafe.NewExecutor[int](rp, hp).OnDone(func(e failsafe.ExecutionDoneEvent[int]) { doneA, doneR, doneH = e.Attempts(), e.Retries(), e.Hedges() })
		var v int
		var err error
		if sc.Async {
			v, err = ex.GetWithExecutionAsync(fn).Get()
		} else {
			v, err = ex.GetWithExecution(fn)
		}
		mu.Lock()
		defer mu.Unlock()
		if len(problems) > 0 {
			harness.Violation(t, "C17", test, "hedged-retry-stats", sc, "%+v: %s", sc, problems[0])
		}
		if v != 7 || err != nil {
			harness.Violation(t, "C17", test, "hedged-retry-result", sc, "%+v: returned (%d,%v) after %d failing rounds of at most %d", sc, v, err, sc.FailRounds, sc.FailRounds)
		}
		if doneR != sc.FailRounds || doneA != 1+doneR+doneH {
			harness.Violation(t, "C17", test, "hedged-retry-stats", sc, "%+v: the done event reports Attempts=%d Retries=%d Hedges=%d after %d retried rounds", sc, doneA, doneR, doneH, sc.FailRounds)
		}
		b, _ := json.Marshal(sc)
		st.Case(string(b), hedgesSeen > 0, fmt.Sprintf("hedges-started=%v", hedgesSeen > 0))
		if hedgesSeen > 0 {
			st.Sample(string(b), func() any { return sc })
		}
	})
}

// TestHedgeRounds: the same hedge policy is applied several times within one execution: Retry(Timeout(Hedge(fn))). In the
// first round every attempt waits for its cancellation, so the round ends by the Timeout while hedged attempts are still
// running (they finish only afterwards, as abandoned attempts); the retry starts a second round whose attempts answer
// quickly. The caller must get a result produced by an attempt of the last round: nothing of an abandoned round may leak
// into a later one.
func TestHedgeRounds(t *testing.T) {
	const test = "TestHedgeRounds"
	st := harness.NewStats(test)
	defer st.Flush()
	rapid.Check(t, func(t *rapid.T) {
		type scen struct {
			MaxHedges int    `json:"max_hedges"`
			DelayUs   int    `json:"delay_us"`
			LimitUs   int    `json:"limit_us"`
			Rounds    int    `json:"abandoned_rounds"`
			Cancel    string `json:"cancel"`
			Async     bool   `json:"async"`
			LateUs    int    `json:"late_us"` // abandoned attempts return this long after their cancellation
		}
		sc := scen{MaxHedges: rapid.IntRange(1, 3).Draw(t, "maxHedges"), DelayUs: rapid.SampledFrom([]int{0, 100, 400}).Draw(t, "delayUs"),
			LimitUs: rapid.SampledFrom([]int{800, 2000}).Draw(t, "limitUs"), Rounds: rapid.IntRange(1, 2).Draw(t, "rounds"),
			Cancel: rapid.SampledFrom([]string{"default", "if"}).Draw(t, "cancel"), Async: rapid.Bool().Draw(t, "async"), LateUs: rapid.SampledFrom([]int{0, 50, 300}).Draw(t, "lateUs")}
		hb := hedgepolicy.BuilderWithDelay[int](time.Duration(sc.DelayUs) * time.Microsecond).WithMaxHedges(sc.MaxHedges)
		if sc.Cancel == "if" {
			hb.CancelIf(func(v int, err error) bool { return err == nil && v > 0 })
		}
		var mu sync.Mutex
		roundStart := map[int]time.Time{} // round -> an instant that precedes the hedge policy's start in that round
		var early []string
		rp := retrypolicy.Builder[int]().WithMaxRetries(sc.Rounds).HandleErrors(timeout.ErrExceeded).OnRetry(func(e failsafe.ExecutionEvent[int]) {
			mu.Lock()
			roundStart[e.Retries()] = time.Now()
			mu.Unlock()
		}).Build()
		to := timeout.With[int](time.Duration(sc.LimitUs) * time.Microsecond)
		produced := map[int]int{} // value -> round that produced it
		entries := map[int]int{}
		next := 0
		fn := func(exec failsafe.Execution[int]) (int, error) {
			now := time.Now()
			round := exec.Retries()
			mu.Lock()
			next++
			id := next
			entries[round]++
			// spacing applies afresh to every hedged execution: a hedge of a later round starts no earlier than the delay
			// after that round began (the OnRetry listener runs before the round's hedge policy starts)
			if t0, ok := roundStart[round]; ok && exec.IsHedge() && !exec.IsCanceled() && sc.DelayUs > 0 {
				if d := now.Sub(t0); d < time.Duration(sc.DelayUs)*time.Microsecond {
					early = append(early, fmt.Sprintf("a hedge of round %d entered the function %v after the round began, the hedge delay is %dus", round+1, d, sc.DelayUs))
				}
			}
			mu.Unlock()
			if round < sc.Rounds || exec.IsCanceled() {
				// an abandoned round ends by the Timeout. (A hedge launched just before its round was abandoned can enter
				// late, when Retries() already counts the next round: it is recognised by its cancelled execution.)
				<-exec.Canceled()
				time.Sleep(time.Duration(sc.LateUs) * time.Microsecond)
				return -id, errLoser
			}
			mu.Lock()
			produced[1000+id] = round
			mu.Unlock()
			return 1000 + id, nil
		}
		ex := failsafe.NewExecutor[int](rp, to, hb.Build())
		var v int
		var err error
		doneCh := make(chan struct{})
		go func() {
			defer close(doneCh)
			if sc.Async {
				v, err = ex.GetWithExecutionAsync(fn).Get()
			} else {
				v, err = ex.GetWithExecution(fn)
			}
		}()
		select {
		case <-doneCh:
		case <-harness.After(30 * time.Second):
			harness.Violation(t, "C09", test, "rounds-hang", sc, "%+v: the call had not returned after 30s", sc)
		}
		mu.Lock()
		r, ok := produced[v]
		ent := map[int]int{}
		for k, n := range entries {
			ent[k] = n
		}
		mu.Unlock()
		if errors.Is(err, timeout.ErrExceeded) {
			// a stall can let the last round time out as well: then the retries are exhausted and this is the outcome
			st.Count("last_round_timed_out", 1)
		} else if err != nil || !ok || r != sc.Rounds {
			harness.Violation(t, "C09", test, "stale-result-from-abandoned-round", sc, "%+v: the call returned (%d,%v); only an attempt of round %d can have produced the result (values produced there: %v)", sc, v, err, sc.Rounds+1, produced)
		}
		mu.Lock()
		if len(early) > 0 {
			msg := early[0]
			mu.Unlock()
			harness.Violation(t, "C09", test, "hedge-before-delay", sc, "%+v: %s", sc, msg)
		} else {
			mu.Unlock()
		}
		total := 0
		for _, n := range ent {
			total += n
		}
		if total > (sc.Rounds+1)*(sc.MaxHedges+1) {
			harness.Violation(t, "C09", test, "too-many-attempts", sc, "%+v: %d attempts over %d rounds, maxHedges allows %d per round", sc, total, sc.Rounds+1, sc.MaxHedges+1)
		}
		b, _ := json.Marshal(sc)
		st.Case(string(b), true, fmt.Sprintf("abandoned-rounds=%d", sc.Rounds))
		st.Sample(string(b), func() any { return sc })
	})
}
