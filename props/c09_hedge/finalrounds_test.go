package c09

import (
	"encoding/json"
	"errors"
	"fmt"
	"sync"
	"testing"
	"time"

	"github.com/failsafe-go/failsafe-go"
	"github.com/failsafe-go/failsafe-go/hedgepolicy"
	"github.com/failsafe-go/failsafe-go/retrypolicy"

	"pgregory.net/rapid"

	"verif/harness"
)

// TestHedgeFinalPathRounds: the "no result matches the cancel conditions" path -- a result is delivered only after all
// maxHedges+1 attempts have finished -- when the function runs more often within one execution than one hedged execution
// has attempts:
//
//	retry(hedge): 1..3 rounds in which every attempt of the hedged execution fails with an error the hedge does not accept
//	  and the retry policy handles, then a round whose attempts all return values the hedge does not accept either (or one
//	  it accepts). Every round must come to an end once its attempts have finished, no round starts more than maxHedges+1
//	  attempts, and the caller gets a value produced in the last round, not before that round's attempts have all finished
//	  when none is acceptable.
//	hedge(retry): every attempt of the hedged execution runs the function several times (an inner retry policy) and ends
//	  in a failure the hedge does not accept: the result is delivered only after all hedges have been started (OnHedge
//	  called maxHedges times, no earlier than the sum of the hedge delays after the start).
func TestHedgeFinalPathRounds(t *testing.T) {
	const test = "TestHedgeFinalPathRounds"
	st := harness.NewStats(test)
	defer st.Flush()
	rapid.Check(t, func(t *rapid.T) {
		sc := finalScen{Placement: rapid.SampledFrom([]string{"retry(hedge)", "retry(hedge)", "hedge(retry)"}).Draw(t, "placement"),
			MaxHedges: rapid.IntRange(1, 3).Draw(t, "maxHedges"), DelayUs: rapid.SampledFrom([]int{0, 100, 500, 2000}).Draw(t, "delayUs"),
			Cancel: rapid.SampledFrom([]string{"if", "result"}).Draw(t, "cancel"), Async: rapid.Bool().Draw(t, "async")}
		if sc.Placement == "retry(hedge)" {
			sc.FailRounds = rapid.IntRange(1, 3).Draw(t, "failRounds")
			sc.LastRoundAccepts = rapid.IntRange(-1, sc.MaxHedges).Draw(t, "lastRoundAccepts")
			sc.Together = rapid.Bool().Draw(t, "together")
		} else {
			sc.InnerRetries = rapid.IntRange(0, 3).Draw(t, "innerRetries")
		}
		runFinalRounds(t, test, st, sc)
	})
}

type finalScen struct {
	Placement string `json:"placement"`
	MaxHedges int    `json:"max_hedges"`
	DelayUs   int    `json:"delay_us"`
	Cancel    string `json:"cancel"` // if: accepts (v > 0, nil) | result: accepts the value 7
	Async     bool   `json:"async"`
	// retry(hedge)
	FailRounds       int  `json:"fail_rounds,omitempty"`
	LastRoundAccepts int  `json:"last_round_accepts"` // index (by entry) of the attempt of the last round whose value is acceptable; -1 none
	Together         bool `json:"together,omitempty"` // the attempts of a round wait for each other before they return
	// hedge(retry)
	InnerRetries int `json:"inner_retries,omitempty"`
}

var errRound = errors.New("this round's attempts all fail")

func runFinalRounds(t harness.TB, test string, st *harness.Stats, sc finalScen) {
	const acceptable = 7
	hb := hedgepolicy.BuilderWithDelay[int](time.Duration(sc.DelayUs) * time.Microsecond).WithMaxHedges(sc.MaxHedges)
	if sc.Cancel == "if" {
		hb.CancelIf(func(v int, err error) bool { return err == nil && v > 0 })
	} else {
		hb.CancelOnResult(acceptable)
	}
	var mu sync.Mutex
	onHedge := 0
	hb.OnHedge(func(failsafe.ExecutionEvent[int]) {
		mu.Lock()
		onHedge++
		mu.Unlock()
	})
	entries := map[int]int{}  // retry round -> attempts entered
	finished := map[int]int{} // retry round -> attempts returned
	produced := map[int]int{} // value -> round
	total := 0
	var pols []failsafe.Policy[int]
	var fn func(exec failsafe.Execution[int]) (int, error)
	if sc.Placement == "retry(hedge)" {
		rp := retrypolicy.Builder[int]().WithMaxRetries(sc.FailRounds).HandleErrors(errRound).Build()
		pols = []failsafe.Policy[int]{rp, hb.Build()}
		fn = func(exec failsafe.Execution[int]) (int, error) {
			round := exec.Retries()
			mu.Lock()
			idx := entries[round]
			entries[round]++
			total++
			mu.Unlock()
			if sc.Together {
				// all attempts of the round are in flight before any of them returns (or the round is over / cancelled)
				deadline := harness.Wait(20 * time.Second)
				for !deadline.Expired() && !exec.IsCanceled() {
					mu.Lock()
					n := entries[round]
					mu.Unlock()
					if n >= sc.MaxHedges+1 {
						break
					}
					time.Sleep(20 * time.Microsecond)
				}
			}
			v, err := -(round*10 + idx + 1), error(nil)
			switch {
			case round < sc.FailRounds:
				v, err = 0, errRound
			case idx == sc.LastRoundAccepts:
				v = acceptable
			}
			mu.Lock()
			finished[round]++
			if err == nil {
				produced[v] = round
			}
			mu.Unlock()
			return v, err
		}
	} else {
		// ReturnLastFailure keeps the error recognisable; the inner policy's budget is shared by the branches of one execution,
		// so how often the function runs in all is not asserted
		rp := retrypolicy.Builder[int]().WithMaxRetries(sc.InnerRetries).HandleErrors(errRound).ReturnLastFailure().Build()
		pols = []failsafe.Policy[int]{hb.Build(), rp}
		fn = func(exec failsafe.Execution[int]) (int, error) {
			mu.Lock()
			total++
			mu.Unlock()
			return 0, errRound
		}
	}
	ex := failsafe.NewExecutor[int](pols...)
	var v int
	var err error
	var hedgesAtReturn int
	var finishedAtReturn map[int]int
	begin := time.Now()
	var took time.Duration
	doneCh := make(chan struct{})
	go func() {
		defer close(doneCh)
		if sc.Async {
			v, err = ex.GetWithExecutionAsync(fn).Get()
		} else {
			v, err = ex.GetWithExecution(fn)
		}
		took = time.Since(begin)
		mu.Lock()
		hedgesAtReturn = onHedge
		finishedAtReturn = map[int]int{}
		for k, n := range finished {
			finishedAtReturn[k] = n
		}
		mu.Unlock()
	}()
	select {
	case <-doneCh:
	case <-harness.After(30 * time.Second):
		mu.Lock()
		e, f := fmt.Sprint(entries), fmt.Sprint(finished)
		mu.Unlock()
		harness.Violation(t, "C09", test, "final-path-hang", sc, "%+v: the call had not returned after 30s although every attempt returns by itself (entered per round %s, finished per round %s)", sc, e, f)
		return
	}
	bad := func(sig, f string, a ...any) {
		harness.Violation(t, "C09", test, sig, sc, "%+v: returned (%d,%v) after %v: %s", sc, v, err, took, fmt.Sprintf(f, a...))
	}
	all := sc.MaxHedges + 1
	if sc.Placement == "retry(hedge)" {
		last := sc.FailRounds
		mu.Lock()
		ent := map[int]int{}
		for k, n := range entries {
			ent[k] = n
		}
		r, ok := produced[v]
		mu.Unlock()
		for round, n := range ent {
			if n > all {
				bad("too-many-attempts", "round %d started %d attempts, maxHedges+1 is %d", round+1, n, all)
			}
			if round > last {
				bad("extra-round", "a round %d was started; the retry policy handles only the failures of the first %d rounds", round+1, last)
			}
		}
		if err != nil || !ok || r != last {
			bad("returned-unproduced-result", "only an attempt of round %d can have produced the caller's result (values by round: %v)", last+1, produced)
		}
		if sc.LastRoundAccepts >= 0 {
			// an acceptable result and the final result of the round may be produced together, and either can win the hand-off
			// (DESIGN.md L8): which value of the last round the caller gets is not asserted
		} else if finishedAtReturn[last] < all {
			// nothing acceptable: the caller's result is delivered only after all attempts of that hedged execution finished
			bad("final-result-early", "no result of the last round is acceptable, but only %d of its %d attempts had finished when the call returned", finishedAtReturn[last], all)
		}
		for round := 0; round < last; round++ {
			if ent[round] < all {
				// a failing round ends by its all-finished result: all its attempts were started
				bad("final-result-early", "round %d was ended with %d of %d attempts started although none of its results is acceptable", round+1, ent[round], all)
			}
		}
	} else {
		if !errors.Is(err, errRound) {
			bad("returned-unproduced-result", "every attempt ends in %v", errRound)
		}
		if hedgesAtReturn != sc.MaxHedges {
			bad("final-result-early", "no attempt's result is acceptable, yet OnHedge had been called %d times when the call returned: the result is due only after all %d hedges were started and have finished", hedgesAtReturn, sc.MaxHedges)
		}
		if min := time.Duration(sc.MaxHedges*sc.DelayUs) * time.Microsecond; took < min {
			bad("final-result-early", "the call returned after %v; %d hedge delays of %dus must have elapsed before all attempts can have started", took, sc.MaxHedges, sc.DelayUs)
		}
	}
	b, _ := json.Marshal(sc)
	st.Case(string(b), true, "placement="+sc.Placement, fmt.Sprintf("accepts=%v", sc.LastRoundAccepts >= 0))
	st.Sample(string(b), func() any { return sc })
	_ = total
}
