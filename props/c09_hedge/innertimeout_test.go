//go:build verif

package c09

import (
	"encoding/json"
	"fmt"
	"sync"
	"testing"
	"time"

	"github.com/failsafe-go/failsafe-go"
	"github.com/failsafe-go/failsafe-go/hedgepolicy"
	"github.com/failsafe-go/failsafe-go/timeout"
	"pgregory.net/rapid"

	"verif/harness"
)

// "At the moment it returns, every other started attempt has been cancelled": Hedge(Timeout(fn)) where the first attempt
// runs into its own Timeout (a result the cancel condition does not accept), a later attempt then wins, and yet another
// one is still running. The Timeout that fired has recorded its result on the execution the attempts share; the losers
// must be cancelled all the same.
//
// Schedule: the later attempts start `lead` after the first one (hedge delay), so their own Timeouts fire `lead` after the
// first attempt's. The winner is released as soon as the first attempt has come back. The verdict is only drawn when that
// schedule was met (the winner was not itself timed out); a stalled machine can only make the check pass.
func TestHedgeInnerTimeout(t *testing.T) {
	const test = "TestHedgeInnerTimeout"
	st := harness.NewStats(test)
	defer st.Flush()
	rapid.Check(t, func(t *rapid.T) {
		sc := innerScen{MaxHedges: rapid.IntRange(2, 3).Draw(t, "maxHedges"), Cancel: rapid.SampledFrom([]string{"result", "if"}).Draw(t, "cancel"),
			LimitMs: rapid.SampledFrom([]int{3, 6}).Draw(t, "limitMs"), LeadMs: rapid.SampledFrom([]int{2, 5}).Draw(t, "leadMs"), Async: rapid.Bool().Draw(t, "async")}
		runInnerTimeout(t, test, st, sc)
	})
}

type innerScen struct {
	MaxHedges int    `json:"max_hedges"` // 2..3
	Cancel    string `json:"cancel"`     // result | if
	LimitMs   int    `json:"limit_ms"`
	LeadMs    int    `json:"lead_ms"`
	Async     bool   `json:"async"`
}

func runInnerTimeout(t harness.TB, test string, st *harness.Stats, sc innerScen) {
	{
		const win = 7
		var mu sync.Mutex
		entered := 0
		firstBack := make(chan struct{})
		release := make(chan struct{}) // closed once the first attempt has come back: the second attempt then wins
		type att struct {
			exec      failsafe.Execution[int]
			cancelled bool // when it came back
			back      bool
		}
		atts := map[int]*att{}
		done := make(chan struct{}) // closed when the test is over: parked losers leave
		fn := func(exec failsafe.Execution[int]) (int, error) {
			mu.Lock()
			entered++
			k := entered
			a := &att{exec: exec}
			atts[k] = a
			mu.Unlock()
			defer func() {
				mu.Lock()
				a.back, a.cancelled = true, exec.IsCanceled()
				mu.Unlock()
			}()
			switch k {
			case 1:
				select {
				case <-exec.Canceled(): // its own Timeout
				case <-harness.After(30 * time.Second):
				}
				close(firstBack)
				return 0, nil
			case 2:
				select {
				case <-release:
					return win, nil
				case <-exec.Canceled():
					return 0, errLoser
				}
			default:
				select {
				case <-exec.Canceled():
				case <-done:
				case <-harness.After(30 * time.Second):
				}
				return 0, errLoser
			}
		}
		hb := hedgepolicy.BuilderWithDelayFunc[int](func(e failsafe.ExecutionAttempt[int]) time.Duration {
			if e.Hedges() == 0 {
				return time.Duration(sc.LeadMs) * time.Millisecond
			}
			return 0
		}).WithMaxHedges(sc.MaxHedges)
		if sc.Cancel == "result" {
			hb.CancelOnResult(win)
		} else {
			hb.CancelIf(func(r int, err error) bool { return r == win && err == nil })
		}
		ex := failsafe.NewExecutor[int](hb.Build(), timeout.With[int](time.Duration(sc.LimitMs)*time.Millisecond))
		go func() {
			<-firstBack
			close(release)
		}()
		var v int
		var err error
		if sc.Async {
			v, err = ex.GetWithExecutionAsync(fn).Get()
		} else {
			v, err = ex.GetWithExecution(fn)
		}
		// the moment of return: what is the state of the attempts that did not win?
		type seen struct {
			k         int
			back      bool
			cancelled bool
		}
		mu.Lock()
		var losers []seen
		for k, a := range atts {
			if k >= 3 {
				losers = append(losers, seen{k, a.back, a.back && a.cancelled || a.exec.IsCanceled()})
			}
		}
		n := entered
		mu.Unlock()
		close(done)
		b, _ := json.Marshal(sc)
		met := v == win && err == nil && n >= 3
		if met {
			for _, l := range losers {
				if !l.cancelled {
					harness.Violation(t, "C09", test, "loser-not-cancelled", sc, "%s: attempt 1 ran into its Timeout, attempt 2 won with %d, and attempt %d was still running uncancelled when the hedged execution returned", b, win, l.k)
				}
			}
		}
		st.Case(string(b), met, fmt.Sprintf("schedule-met=%v", met))
		if met {
			st.Sample(string(b), func() any { return sc })
		}
	}
}
