//go:build verif

package c19

import (
	"encoding/json"
	"fmt"
	"io"
	"net/http"
	"strings"
	"sync"
	"sync/atomic"
	"testing"
	"time"

	"github.com/failsafe-go/failsafe-go"
	"github.com/failsafe-go/failsafe-go/failsafehttp"
	"github.com/failsafe-go/failsafe-go/hedgepolicy"

	"pgregory.net/rapid"

	"verif/harness"
)

type trackedBody struct {
	io.Reader
	id     int
	closed atomic.Int32
}

func (b *trackedBody) Close() error { b.closed.Add(1); return nil }

// TestHTTPResponsesClosed: "Responses the HTTP adapter obtains but does not return (retried or losing attempts) are closed."
// Decided directly: an inner RoundTripper hands out responses whose bodies record Close, and after the call every response
// other than the one the caller holds has been closed, while the caller's is still open and readable.
//
//	retry: attempts 1..n-1 are answered with 503, attempt n with 200 (sequential).
//	hedge: maxHedges+1 attempts are in flight together; the inner transport lets them all return at the same moment, each
//	  with a 503 the hedge policy does not accept, so the result is delivered only after all of them have finished (every
//	  response was obtained before the call returned, none arrives later).
func TestHTTPResponsesClosed(t *testing.T) {
	const test = "TestHTTPResponsesClosed"
	st := harness.NewStats(test)
	defer st.Flush()
	rapid.Check(t, func(t *rapid.T) {
		type scen struct {
			Kind string `json:"kind"` // retry | hedge
			N    int    `json:"n"`    // attempts in all
			Via  string `json:"via"`
		}
		sc := scen{Kind: rapid.SampledFrom([]string{"retry", "hedge", "hedge"}).Draw(t, "kind"), N: rapid.IntRange(2, 6).Draw(t, "n"),
			Via: rapid.SampledFrom([]string{"roundtripper", "request"}).Draw(t, "via")}
		var mu sync.Mutex
		var handed []*trackedBody
		arrived := 0
		allHere := make(chan struct{})
		inner := roundTripFunc(func(r *http.Request) (*http.Response, error) {
			mu.Lock()
			arrived++
			n := arrived
			if n == sc.N && sc.Kind == "hedge" {
				close(allHere)
			}
			mu.Unlock()
			status := 503
			if sc.Kind == "retry" && n == sc.N {
				status = 200
			}
			if sc.Kind == "hedge" {
				select {
				case <-allHere:
				case <-r.Context().Done():
					return nil, r.Context().Err()
				case <-harness.After(20 * time.Second):
				}
			}
			b := &trackedBody{Reader: strings.NewReader(fmt.Sprintf("answer %d", n)), id: n}
			mu.Lock()
			handed = append(handed, b)
			mu.Unlock()
			return &http.Response{StatusCode: status, Status: fmt.Sprint(status), Proto: "HTTP/1.1", ProtoMajor: 1, ProtoMinor: 1,
				Header: http.Header{}, Body: b, Request: r}, nil
		})
		var pol failsafe.Policy[*http.Response]
		if sc.Kind == "retry" {
			pol = failsafehttp.RetryPolicyBuilder().WithMaxRetries(sc.N).WithDelay(0).Build()
		} else {
			pol = hedgepolicy.BuilderWithDelay[*http.Response](0).WithMaxHedges(sc.N - 1).
				CancelIf(func(r *http.Response, err error) bool { return err == nil && r != nil && r.StatusCode == 200 }).Build()
		}
		req, _ := http.NewRequest("GET", "http://verif.invalid/x", nil)
		var resp *http.Response
		var err error
		doneCh := make(chan struct{})
		go func() {
			defer close(doneCh)
			if sc.Via == "request" {
				resp, err = failsafehttp.NewRequest(req, &http.Client{Transport: inner}, pol).Do()
			} else {
				resp, err = (&http.Client{Transport: failsafehttp.NewRoundTripper(inner, pol)}).Do(req)
			}
		}()
		bad := func(sig, f string, a ...any) {
			harness.Violation(t, prop, test, sig, sc, "%+v: "+f, append([]any{sc}, a...)...)
		}
		select {
		case <-doneCh:
		case <-harness.After(30 * time.Second):
			bad("leak-http-response-hang", "the call had not returned after 30s")
			return
		}
		if err != nil || resp == nil || resp.Body == nil {
			bad("leak-http-response-result", "the call returned (%v, %v); every attempt was answered", resp, err)
			return
		}
		// which of the handed-out bodies does the caller hold? read it: the text names it
		text, rerr := io.ReadAll(resp.Body)
		if rerr != nil || !strings.HasPrefix(string(text), "answer ") {
			bad("leak-http-response-result", "the returned response's body reads %q, %v", text, rerr)
			return
		}
		var mine int
		fmt.Sscanf(string(text), "answer %d", &mine)
		open := func() (ids []int, mineClosed bool) {
			mu.Lock()
			defer mu.Unlock()
			for _, b := range handed {
				if b.id == mine {
					mineClosed = b.closed.Load() > 0
				} else if b.closed.Load() == 0 {
					ids = append(ids, b.id)
				}
			}
			return
		}
		ids, mineClosed := open()
		for w := harness.Wait(5 * time.Second); len(ids) > 0 && !w.Expired(); {
			time.Sleep(200 * time.Microsecond)
			ids, mineClosed = open()
		}
		mu.Lock()
		total := len(handed)
		mu.Unlock()
		if len(ids) > 0 {
			bad("leak-http-response-not-closed", "%d responses were handed out, the caller holds number %d; of the others, %v were never closed", total, mine, ids)
		}
		if mineClosed {
			bad("leak-http-response-result", "the response handed to the caller (number %d) had already been closed", mine)
		}
		if total != sc.N {
			bad("leak-http-response-result", "%d attempts reached the inner transport, %d were expected", total, sc.N)
		}
		resp.Body.Close()
		b, _ := json.Marshal(sc)
		st.Case(string(b), true, "kind="+sc.Kind, "via="+sc.Via)
		st.Sample(string(b), func() any { return sc })
	})
}

type roundTripFunc func(*http.Request) (*http.Response, error)

func (f roundTripFunc) RoundTrip(r *http.Request) (*http.Response, error) { return f(r) }
