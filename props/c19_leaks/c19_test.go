//go:build verif

// Package c19 checks property C19: finished executions leave no goroutines or connections behind.
package c19

import (
	"bytes"
	"context"
	"encoding/json"
	"errors"
	"fmt"
	"io"
	"net/http"
	"net/http/httptest"
	"os"
	"runtime"
	"strconv"
	"strings"
	"sync"
	"sync/atomic"
	"testing"
	"time"

	"github.com/failsafe-go/failsafe-go"
	"github.com/failsafe-go/failsafe-go/bulkhead"
	"github.com/failsafe-go/failsafe-go/circuitbreaker"
	"github.com/failsafe-go/failsafe-go/failsafegrpc"
	"github.com/failsafe-go/failsafe-go/failsafehttp"
	"github.com/failsafe-go/failsafe-go/fallback"
	"github.com/failsafe-go/failsafe-go/hedgepolicy"
	"github.com/failsafe-go/failsafe-go/ratelimiter"
	"github.com/failsafe-go/failsafe-go/retrypolicy"
	"github.com/failsafe-go/failsafe-go/timeout"
	"google.golang.org/grpc"
	"google.golang.org/grpc/codes"
	"google.golang.org/grpc/status"
	"pgregory.net/rapid"

	"verif/harness"
	"verif/harness/compose"
)

const prop = "C19"

var errX = errors.New("attempt failed")

// ---------------------------------------------------------------------------------------------------------------------
// the oracle: after everything the scenario started has returned, nothing of the library (or of the scenario's HTTP
// transport) is left running; and repeating the scenario does not grow the number of goroutines

const moduleFrame = "github.com/failsafe-go/failsafe-go"

// leftovers returns the goroutines that still have a frame of the module, or of an HTTP client connection, and are not
// this test's own goroutine.
var stackBuf = make([]byte, 8<<20) // the scenarios of a process run one after the other

func leftovers() (n int, sample string, total int) {
	buf := stackBuf[:runtime.Stack(stackBuf, true)]
	for _, g := range strings.Split(string(buf), "\n\n") {
		total++
		if strings.Contains(g, "c19_leaks.leftovers") {
			continue // the goroutine running the check
		}
		if strings.Contains(g, moduleFrame) || strings.Contains(g, "net/http.(*persistConn)") {
			n++
			if sample == "" || strings.Contains(g, moduleFrame) {
				sample = g
			}
		}
	}
	return n, sample, total
}

// the scenario's private transport: connections that become idle late (a hedged loser finishing) are closed while polling
var currentTransport *http.Transport

// settle polls until nothing is left or 30 s passed.
func settle() (n int, sample string, total int) {
	deadline := harness.Wait(30 * time.Second)
	pause := 500 * time.Microsecond
	for {
		if currentTransport != nil {
			currentTransport.CloseIdleConnections()
		}
		n, sample, total = leftovers()
		if n == 0 || deadline.Expired() {
			return
		}
		time.Sleep(pause)
		if pause < 20*time.Millisecond {
			pause += pause / 4 // a leftover that stays is polled less and less often: the dump stops the world
		}
	}
}

// ---------------------------------------------------------------------------------------------------------------------
// the second oracle, for timers: a timer that is left armed and whose firing would do nothing is invisible in a goroutine
// dump, but it keeps what its function refers to reachable: the execution, and through it the caller's context. Every core
// execution runs under a context carrying a token with a finalizer; once everything has returned and the caller's contexts
// have been ended, the tokens must become unreachable. A Timeout that does not stop its timer keeps them for the time limit.

type token struct {
	pad   [8]uint64 // not a tiny allocation: those are finalized in groups
	freed *atomic.Int64
}

type tokenKey struct{}

type tokenSet struct{ made, freed atomic.Int64 }

var currentTokens = &tokenSet{}

func (ts *tokenSet) ctx() context.Context {
	tk := &token{freed: &ts.freed}
	ts.made.Add(1)
	runtime.SetFinalizer(tk, func(tk *token) { tk.freed.Add(1) })
	return context.WithValue(context.Background(), tokenKey{}, tk)
}

// The runtime removes a stopped timer from its per-P heap lazily (when stopped timers exceed a quarter of that heap, and
// only when that P next looks at its timers), so a few tokens of correctly stopped timers may linger: the bound is
// tokenSlack, and heaps are merged onto one P (which drops stopped timers) before giving up.
var tokenSlack = func() int64 {
	if v, err := strconv.Atoi(os.Getenv("VERIF_TOKEN_SLACK")); err == nil {
		return int64(v)
	}
	return 4
}()

var tokenStats struct {
	lingering, merged, maxLeft atomic.Int64
	hist                       [10]atomic.Int64
}

func judgeReleased(t harness.TB, test string, ts *tokenSet, scenario any, desc string) {
	deadline := harness.Wait(15 * time.Second)
	for i := 0; ; i++ {
		runtime.GC()
		time.Sleep(time.Millisecond) // finalizers run on their own goroutine
		left := ts.made.Load() - ts.freed.Load()
		if i == 0 {
			tokenStats.hist[min(left, 9)].Add(1)
		}
		if left <= tokenSlack {
			if left > 0 {
				tokenStats.lingering.Add(1)
			}
			if left > tokenStats.maxLeft.Load() {
				tokenStats.maxLeft.Store(left)
			}
			if i >= 3 {
				tokenStats.merged.Add(1)
			}
			return
		}
		if deadline.Expired() {
			harness.Violation(t, prop, test, "execution-still-reachable", scenario, "%s: %d of %d executions' contexts are still reachable after everything returned, the caller's contexts were ended and the collector ran (slack for lazily removed stopped timers: %d): something the library armed still refers to them", desc, left, ts.made.Load(), tokenSlack)
		}
		if i >= 2 {
			n := runtime.GOMAXPROCS(1)
			runtime.Gosched()
			time.Sleep(200 * time.Microsecond)
			runtime.GOMAXPROCS(n)
		}
	}
}

// ---------------------------------------------------------------------------------------------------------------------
// core scenarios: executions that start goroutines and timers (async runner, hedge attempts, timeout and delay timers,
// bulkhead / limiter waits), ended by success, failure, rejection, timeout or cancellation

type coreScenario struct {
	Stack    []string `json:"stack"`     // retry retry-delay timeout-fires timeout-never hedge-real hedge-1h hedge-custom fallback bulkhead-wait limiter-wait
	Entry    string   `json:"entry"`     // sync | async | async-abandon (never call Get)
	FnDurUs  int      `json:"fn_dur_us"` // -1: until cancelled
	FailN    int      `json:"fail_n"`
	Cancel   string   `json:"cancel"` // none | ctx | result | ctx-early
	CancelUs int      `json:"cancel_us"`
	Reps     int      `json:"reps"`
}

// Every runner returns a cleanup function that ends the caller-side contexts. The leak check runs BEFORE it: a goroutine
// that only ends when the caller's (possibly long-lived) context ends is a leak.
func runCore(sc coreScenario) (cleanup func()) {
	var wg sync.WaitGroup
	var cancels []context.CancelFunc
	cleanup = func() {
		for _, c := range cancels {
			c()
		}
	}
	for rep := 0; rep < sc.Reps; rep++ {
		var pols []failsafe.Policy[int]
		var held bulkhead.Bulkhead[int]
		for _, k := range sc.Stack {
			switch k {
			case "retry":
				pols = append(pols, retrypolicy.Builder[int]().WithMaxRetries(3).Build())
			case "retry-delay":
				pols = append(pols, retrypolicy.Builder[int]().WithMaxRetries(3).WithBackoff(100*time.Microsecond, time.Hour).WithJitter(20*time.Microsecond).Build())
			case "timeout-fires":
				pols = append(pols, timeout.With[int](300*time.Microsecond))
			case "timeout-never":
				pols = append(pols, timeout.With[int](time.Hour))
			case "hedge-real":
				pols = append(pols, hedgepolicy.BuilderWithDelay[int](100*time.Microsecond).WithMaxHedges(2).Build())
			case "hedge-1h":
				pols = append(pols, hedgepolicy.WithDelay[int](time.Hour))
			case "hedge-custom":
				pols = append(pols, hedgepolicy.BuilderWithDelay[int](100*time.Microsecond).WithMaxHedges(2).CancelOnResult(12345).Build())
			case "fallback":
				pols = append(pols, fallback.WithResult[int](9))
			case "bulkhead-wait":
				held = bulkhead.Builder[int](1).WithMaxWaitTime(time.Hour).Build()
				held.TryAcquirePermit()
				pols = append(pols, held)
			case "limiter-wait":
				rl := ratelimiter.SmoothBuilderWithMaxRate[int](time.Hour).WithMaxWaitTime(2 * time.Hour).Build()
				rl.TryAcquirePermit()
				pols = append(pols, rl)
			}
		}
		ctx, cancel := context.WithCancel(currentTokens.ctx())
		ex := failsafe.NewExecutor[int](pols...).WithContext(ctx)
		calls := 0
		var cmu sync.Mutex
		fn := func(exec failsafe.Execution[int]) (int, error) {
			cmu.Lock()
			calls++
			n := calls
			cmu.Unlock()
			if sc.FnDurUs < 0 {
				select {
				case <-exec.Canceled():
				case <-harness.After(20 * time.Second):
				}
			} else {
				select {
				case <-exec.Canceled():
				case <-time.After(time.Duration(sc.FnDurUs) * time.Microsecond):
				}
			}
			if n <= sc.FailN {
				return 0, errX
			}
			return n, nil
		}
		waitsForever := false
		for _, k := range sc.Stack {
			if k == "bulkhead-wait" || k == "limiter-wait" {
				waitsForever = true
			}
		}
		needsCancel := waitsForever || (sc.FnDurUs < 0 && !contains(sc.Stack, "timeout-fires"))
		cancelKind := sc.Cancel
		if needsCancel && cancelKind == "none" {
			cancelKind = "ctx"
		}
		switch sc.Entry {
		case "sync":
			if cancelKind != "none" {
				if cancelKind == "result" {
					cancelKind = "ctx"
				}
				wg.Add(1)
				go func() {
					defer wg.Done()
					time.Sleep(time.Duration(sc.CancelUs) * time.Microsecond)
					cancel()
				}()
			}
			ex.GetWithExecution(fn)
		default:
			r := ex.GetWithExecutionAsync(fn)
			switch cancelKind {
			case "ctx":
				time.Sleep(time.Duration(sc.CancelUs) * time.Microsecond)
				cancel()
			case "ctx-early":
				cancel()
			case "result":
				time.Sleep(time.Duration(sc.CancelUs) * time.Microsecond)
				r.Cancel()
			}
			if sc.Entry == "async" {
				r.Get()
			} else {
				<-r.Done() // the caller never reads the result; it only learns that the execution is over
			}
		}
		if cancelKind != "none" {
			cancel()
		} else {
			cancels = append(cancels, cancel) // the executor's context outlives the execution
		}
		if held != nil {
			held.ReleasePermit()
		}
	}
	wg.Wait()
	return cleanup
}

func contains(s []string, x string) bool {
	for _, e := range s {
		if e == x {
			return true
		}
	}
	return false
}

func genCore(t *rapid.T) coreScenario {
	sc := coreScenario{Entry: rapid.SampledFrom([]string{"sync", "async", "async", "async-abandon"}).Draw(t, "entry")}
	kinds := []string{"retry", "retry-delay", "timeout-fires", "timeout-never", "hedge-real", "hedge-1h", "hedge-custom", "fallback", "bulkhead-wait", "limiter-wait"}
	for i, n := 0, rapid.IntRange(1, 4).Draw(t, "nPols"); i < n; i++ {
		k := rapid.SampledFrom(kinds).Draw(t, "pol")
		if !contains(sc.Stack, k) {
			sc.Stack = append(sc.Stack, k)
		}
	}
	sc.FnDurUs = rapid.SampledFrom([]int{0, 50, 200, 600, -1}).Draw(t, "fnDurUs")
	sc.FailN = rapid.IntRange(0, 5).Draw(t, "failN")
	sc.Cancel = rapid.SampledFrom([]string{"none", "none", "ctx", "result", "ctx-early"}).Draw(t, "cancel")
	sc.CancelUs = rapid.IntRange(0, 500).Draw(t, "cancelUs")
	sc.Reps = rapid.IntRange(5, 30).Draw(t, "reps")
	return sc
}

// lifecycleCtx is a hand-written context.Context (legal, and common for application lifecycles). The standard library
// cannot hook into it, so whatever watches it for cancellation does so with a goroutine, which must be released.
type lifecycleCtx struct{ done chan struct{} }

func newLifecycleCtx() (*lifecycleCtx, func()) {
	c := &lifecycleCtx{done: make(chan struct{})}
	var once sync.Once
	return c, func() { once.Do(func() { close(c.done) }) }
}
func (c *lifecycleCtx) Deadline() (time.Time, bool) { return time.Time{}, false }
func (c *lifecycleCtx) Done() <-chan struct{}       { return c.done }
func (c *lifecycleCtx) Err() error {
	select {
	case <-c.done:
		return context.Canceled
	default:
		return nil
	}
}
func (c *lifecycleCtx) Value(any) any { return nil }

// d12Trigger: known finding D12 (KNOWN_FINDINGS.txt). The child contexts the library derives for async executions, for
// Timeout applications and for hedge attempts are not released on the normal path; with a parent that is not a standard
// library context each of them keeps a watcher goroutine until the parent ends. Excluded by construction: a hand-written
// executor context is only combined with stacks that derive no such child context.
func d12Trigger(stack []string) bool {
	for _, k := range stack {
		if k == "timeout" || k == "hedge-real" || k == "hedge-custom" || k == "hedge-1h" {
			return true
		}
	}
	return false
}

// ---------------------------------------------------------------------------------------------------------------------
// HTTP scenarios: a private transport per scenario; retried responses, hedged losers, merged contexts

type httpScenario struct {
	ReqCtx   string   `json:"req_ctx"`  // background cancellable values custom (a hand-written context.Context)
	ExecCtx  string   `json:"exec_ctx"` // none cancellable custom (a hand-written context.Context)
	Stack    []string `json:"stack"`    // retry timeout hedge-real
	Statuses []int    `json:"statuses"` // per attempt
	RespSize int      `json:"resp_size"`
	ReadBody bool     `json:"read_body"` // the caller reads the returned body to the end before closing it
	Via      string   `json:"via"`
	Reps     int      `json:"reps"`
	BodySize int      `json:"body_size"`
	// BodyKind: "" bytes.Reader | "seek-fails": an io.ReadSeeker whose Seek fails from the second attempt on (the attempt
	// then ends before anything is sent)
	BodyKind string `json:"body_kind,omitempty"`
	// CloseErr: the inner transport's response bodies close properly but report an error from Close
	CloseErr bool `json:"close_err,omitempty"`
	// NilBody: the inner transport hands out responses without a Body (it has consumed and closed it itself)
	NilBody bool `json:"nil_body,omitempty"`
	// Barrier: the server answers only once this many requests are in flight (or 2 ms have passed), so that hedged
	// attempts obtain their responses at the same moment
	Barrier int `json:"barrier,omitempty"`
}

// flakySeeker is a request body that can be read once; rewinding it fails.
type flakySeeker struct {
	r     *bytes.Reader
	seeks int
}

func (f *flakySeeker) Read(p []byte) (int, error) { return f.r.Read(p) }
func (f *flakySeeker) Close() error               { return nil } // a ReadCloser, so that it becomes the request's Body as it is
func (f *flakySeeker) Seek(off int64, whence int) (int64, error) {
	f.seeks++
	if f.seeks > 1 {
		return 0, errors.New("the request body is gone")
	}
	return f.r.Seek(off, whence)
}

// closeErrTransport hands out responses whose Body.Close releases the connection and then reports an error.
type closeErrTransport struct {
	inner   http.RoundTripper
	nilBody bool
}

type closeErrBody struct{ io.ReadCloser }

func (b closeErrBody) Close() error {
	b.ReadCloser.Close()
	return errors.New("close: the peer had already gone away")
}

func (t closeErrTransport) RoundTrip(r *http.Request) (*http.Response, error) {
	resp, err := t.inner.RoundTrip(r)
	if resp != nil && resp.Body != nil {
		if t.nilBody {
			io.Copy(io.Discard, resp.Body)
			resp.Body.Close()
			resp.Body, resp.ContentLength = nil, 0
			return resp, err
		}
		resp.Body = closeErrBody{resp.Body}
	}
	return resp, err
}

func runHTTP(sc httpScenario) (cleanup func()) {
	var cancels []context.CancelFunc
	errs := 0
	var mu sync.Mutex
	attempt := 0
	srv := httptest.NewServer(http.HandlerFunc(func(w http.ResponseWriter, r *http.Request) {
		io.Copy(io.Discard, r.Body)
		mu.Lock()
		i := attempt
		attempt++
		mu.Unlock()
		if sc.Barrier > 1 {
			w := harness.Wait(2 * time.Millisecond)
			for !w.Expired() {
				mu.Lock()
				n := attempt
				mu.Unlock()
				if n >= sc.Barrier {
					break
				}
				time.Sleep(20 * time.Microsecond)
			}
		}
		st := 200
		if i%(len(sc.Statuses)+1) < len(sc.Statuses) {
			st = sc.Statuses[i%(len(sc.Statuses)+1)]
		}
		w.WriteHeader(st)
		w.Write(bytes.Repeat([]byte("x"), sc.RespSize))
	}))
	tr := &http.Transport{MaxIdleConnsPerHost: 4}
	currentTransport = tr
	var rt http.RoundTripper = tr
	if sc.CloseErr || sc.NilBody {
		rt = closeErrTransport{inner: tr, nilBody: sc.NilBody}
	}
	for rep := 0; rep < sc.Reps; rep++ {
		mu.Lock()
		attempt = 0
		mu.Unlock()
		var pols []failsafe.Policy[*http.Response]
		// "breaker-short": opens on the first 5xx; the retry policy's second retry half-opens it again
		reopen := circuitbreaker.Builder[*http.Response]().HandleIf(func(r *http.Response, err error) bool {
			return err != nil || (r != nil && r.StatusCode >= 500)
		}).WithFailureThreshold(1).WithDelay(time.Hour).Build()
		for _, k := range sc.Stack {
			switch k {
			case "retry":
				rb := failsafehttp.RetryPolicyBuilder().WithMaxRetries(3)
				if contains(sc.Stack, "breaker-short") {
					// the breaker inside is half-opened again while the retries go on: 5xx, rejected, admitted again
					rb.OnRetry(func(e failsafe.ExecutionEvent[*http.Response]) {
						if e.Retries() == 2 {
							reopen.HalfOpen()
						}
					})
				}
				pols = append(pols, rb.Build())
			case "timeout":
				pols = append(pols, timeout.With[*http.Response](time.Hour))
			case "hedge-real":
				pols = append(pols, hedgepolicy.BuilderWithDelay[*http.Response](200*time.Microsecond).WithMaxHedges(2).Build())
			case "hedge-custom":
				// only a response below 500 ends the hedging early: during an outage every attempt returns and the last is used
				pols = append(pols, hedgepolicy.BuilderWithDelay[*http.Response](200*time.Microsecond).WithMaxHedges(2).
					CancelIf(func(r *http.Response, err error) bool { return r != nil && r.StatusCode < 500 }).Build())
			case "breaker":
				// opens on the first 5xx: the next attempt is rejected before anything is sent
				pols = append(pols, circuitbreaker.Builder[*http.Response]().HandleIf(func(r *http.Response, err error) bool {
					return err != nil || (r != nil && r.StatusCode >= 500)
				}).WithFailureThreshold(1).WithDelay(time.Hour).Build())
			case "breaker-short":
				pols = append(pols, reopen)
			case "limiter":
				// one permit per hour: the second attempt is rejected before anything is sent
				pols = append(pols, ratelimiter.BurstyBuilder[*http.Response](1, time.Hour).Build())
			}
		}
		ex := failsafe.NewExecutor[*http.Response](pols...)
		execCtx, cancelExec := context.WithCancel(context.Background())
		switch sc.ExecCtx {
		case "cancellable":
			ex = ex.WithContext(execCtx)
		case "custom":
			lc, end := newLifecycleCtx()
			ex = ex.WithContext(lc)
			cancels = append(cancels, end)
		}
		reqCtx := context.Background()
		var cancelReq context.CancelFunc = func() {}
		switch sc.ReqCtx {
		case "cancellable":
			reqCtx, cancelReq = context.WithCancel(reqCtx)
		case "values":
			reqCtx = context.WithValue(reqCtx, struct{}{}, 1)
		case "custom":
			// a hand-written context: whatever the adapter derives from it must be released when the attempt is over
			lc, end := newLifecycleCtx()
			reqCtx = lc
			cancels = append(cancels, end)
		}
		var body io.Reader
		if sc.BodySize > 0 {
			body = bytes.NewReader(bytes.Repeat([]byte("b"), sc.BodySize))
			if sc.BodyKind == "seek-fails" {
				body = &flakySeeker{r: bytes.NewReader(bytes.Repeat([]byte("b"), sc.BodySize))}
			}
		}
		req, _ := http.NewRequestWithContext(reqCtx, "POST", srv.URL, body)
		var resp *http.Response
		var err error
		if sc.Via == "request" {
			resp, err = failsafehttp.NewRequestWithExecutor(req, &http.Client{Transport: rt}, ex).Do()
		} else {
			resp, err = (&http.Client{Transport: failsafehttp.NewRoundTripperWithExecutor(rt, ex)}).Do(req)
		}
		if err != nil {
			errs++
			var ee retrypolicy.ExceededError
			if errors.As(err, &ee) {
				if lr, _ := ee.LastResult.(*http.Response); lr != nil && lr.Body != nil {
					lr.Body.Close() // the caller owns the response carried by the error
				}
			}
		} else if resp.Body != nil {
			if sc.ReadBody {
				io.Copy(io.Discard, resp.Body)
			}
			resp.Body.Close()
		}
		// the caller's contexts stay alive (a long-lived server context, say): nothing may depend on them ending
		cancels = append(cancels, cancelReq, cancelExec)
	}
	tr.CloseIdleConnections()
	srv.Close() // the server's own goroutines are not the subject
	_ = errs
	return func() {
		for _, c := range cancels {
			c()
		}
	}
}

func genHTTP(t *rapid.T) httpScenario {
	sc := httpScenario{
		ReqCtx:   rapid.SampledFrom([]string{"background", "cancellable", "values", "custom"}).Draw(t, "reqCtx"),
		ExecCtx:  rapid.SampledFrom([]string{"none", "cancellable", "custom"}).Draw(t, "execCtx"),
		RespSize: rapid.SampledFrom([]int{0, 10, 5000}).Draw(t, "respSize"),
		ReadBody: rapid.Bool().Draw(t, "readBody"),
		Via:      rapid.SampledFrom([]string{"roundtripper", "request"}).Draw(t, "via"),
		Reps:     rapid.IntRange(5, 20).Draw(t, "reps"),
		BodySize: rapid.SampledFrom([]int{0, 100, 20000}).Draw(t, "bodySize"),
	}
	for i, n := 0, rapid.IntRange(0, 3).Draw(t, "nPols"); i < n; i++ {
		k := rapid.SampledFrom([]string{"retry", "retry", "timeout", "hedge-real", "hedge-custom", "breaker", "breaker-short", "limiter"}).Draw(t, "pol")
		if !contains(sc.Stack, k) && !(strings.HasPrefix(k, "hedge") && (contains(sc.Stack, "hedge-real") || contains(sc.Stack, "hedge-custom"))) {
			sc.Stack = append(sc.Stack, k)
		}
	}
	if rapid.IntRange(0, 2).Draw(t, "outage") == 0 {
		// an outage: every attempt gets the same retryable answer
		st := rapid.SampledFrom([]int{429, 500, 503}).Draw(t, "outageStatus")
		sc.Statuses = []int{st, st, st, st, st, st, st, st, st, st, st, st}
	} else {
		for i, n := 0, rapid.IntRange(0, 4).Draw(t, "nStatuses"); i < n; i++ {
			sc.Statuses = append(sc.Statuses, rapid.SampledFrom([]int{200, 404, 429, 500, 503}).Draw(t, "status"))
		}
	}
	sc.CloseErr = rapid.IntRange(0, 3).Draw(t, "closeErr") == 0
	sc.NilBody = !sc.CloseErr && rapid.IntRange(0, 3).Draw(t, "nilBody") == 0
	if sc.BodySize > 0 && rapid.IntRange(0, 3).Draw(t, "seekFails") == 0 {
		sc.BodyKind = "seek-fails"
	}
	if contains(sc.Stack, "hedge-real") || contains(sc.Stack, "hedge-custom") {
		sc.Barrier = rapid.SampledFrom([]int{0, 2, 3}).Draw(t, "barrier")
	}
	return sc
}

// ---------------------------------------------------------------------------------------------------------------------
// gRPC interceptors (merged contexts) driven directly

type grpcScenario struct {
	Side    string   `json:"side"`
	CallCtx string   `json:"call_ctx"` // background cancellable
	ExecCtx string   `json:"exec_ctx"`
	Stack   []string `json:"stack"` // timeout hedge-1h retry
	Reps    int      `json:"reps"`
	// Fails: how many attempts of each call are answered with an error before one succeeds (99: all of them), and with
	// which status: "unavailable" is retried by the adapter's retry policy, "internal" ends the call
	Fails    int    `json:"fails,omitempty"`
	FailCode string `json:"fail_code,omitempty"`
}

func runGRPC(sc grpcScenario) (cleanup func()) {
	var cancels []context.CancelFunc
	defer func() {
		cleanup = func() {
			for _, c := range cancels {
				c()
			}
		}
	}()
	for rep := 0; rep < sc.Reps; rep++ {
		var pols []failsafe.Policy[any]
		for _, k := range sc.Stack {
			switch k {
			case "timeout":
				pols = append(pols, timeout.With[any](time.Hour))
			case "hedge-1h":
				pols = append(pols, hedgepolicy.WithDelay[any](time.Hour))
			case "retry":
				pols = append(pols, failsafegrpc.RetryPolicyBuilder[any]().Build())
			}
		}
		ex := failsafe.NewExecutor[any](pols...)
		execCtx, cancelExec := context.WithCancel(context.Background())
		cancels = append(cancels, cancelExec)
		switch sc.ExecCtx {
		case "cancellable":
			ex = ex.WithContext(execCtx)
		case "custom":
			lc, end := newLifecycleCtx()
			ex = ex.WithContext(lc)
			cancels = append(cancels, end)
		}
		callCtx := context.Background()
		if sc.CallCtx == "cancellable" {
			var c context.CancelFunc
			callCtx, c = context.WithCancel(callCtx)
			cancels = append(cancels, c)
		}
		attempt := 0
		answer := func() error {
			attempt++
			if attempt > sc.Fails {
				return nil
			}
			if sc.FailCode == "internal" {
				return status.Error(codes.Internal, "scripted")
			}
			return status.Error(codes.Unavailable, "scripted")
		}
		if sc.Side == "client" {
			failsafegrpc.NewUnaryClientInterceptorWithExecutor[any](ex)(callCtx, "/m", 1, new(int), nil, func(ctx context.Context, method string, req, reply any, cc *grpc.ClientConn, opts ...grpc.CallOption) error {
				return answer()
			})
		} else {
			failsafegrpc.NewUnaryServerInterceptorWithExecutor[any](ex)(callCtx, 1, &grpc.UnaryServerInfo{}, func(ctx context.Context, req any) (any, error) {
				if err := answer(); err != nil {
					return nil, err
				}
				return 2, nil
			})
		}
	}
	return nil // replaced by the deferred assignment above
}

// ---------------------------------------------------------------------------------------------------------------------

func judge(t harness.TB, test string, before int, scenario any, desc string) {
	n, sample, total := settle()
	if n != 0 {
		sig := "goroutine-left-behind"
		switch {
		case strings.Contains(sample, "MergeContexts"):
			sig = "leak-merge-contexts"
		case strings.Contains(sample, "persistConn"):
			sig = "leak-http-connection"
		case strings.Contains(sample, "hedgepolicy"):
			sig = "leak-hedge"
		}
		harness.Violation(t, prop, test, sig, scenario, "%s: %d goroutines with library / HTTP connection frames still alive 30s after everything returned, e.g.\n%s", desc, n, sample)
	}
	// unrelated goroutines (the test server's connection handlers, runtime helpers) may take a moment to go away
	pause := time.Millisecond
	for deadline := harness.Wait(30 * time.Second); total > before+3 && !deadline.Expired(); {
		time.Sleep(pause)
		if pause < 20*time.Millisecond {
			pause += pause / 4
		}
		_, _, total = leftovers()
	}
	if total > before+3 {
		harness.Violation(t, prop, test, "goroutine-count-grew", scenario, "%s: the number of live goroutines grew from %d to %d over the repetitions", desc, before, total)
	}
}

func TestLeaks(t *testing.T) {
	const test = "TestLeaks"
	st := harness.NewStats(test)
	defer st.Flush()
	defer func() {
		st.Count("core_scenarios_with_some_context_lingering_within_slack", int(tokenStats.lingering.Load()))
		st.Count("core_scenarios_released_only_after_merging_timer_heaps", int(tokenStats.merged.Load()))
		st.Count("max_contexts_lingering", int(tokenStats.maxLeft.Load()))
		for i := range tokenStats.hist {
			st.Count(fmt.Sprintf("contexts_reachable_after_first_collection=%d", i), int(tokenStats.hist[i].Load()))
		}
	}()
	settle()
	rapid.Check(t, func(t *rapid.T) {
		_, _, before := settle()
		tokens := &tokenSet{}
		currentTokens = tokens
		kind := rapid.SampledFrom([]string{"core", "core", "core", "http", "http", "grpc", "compose"}).Draw(t, "kind")
		var sc any
		nt := false
		cleanup := func() {}
		switch kind {
		case "core":
			c := genCore(t)
			cleanup = runCore(c)
			sc, nt = c, c.Entry != "sync" || contains(c.Stack, "hedge-real") || contains(c.Stack, "hedge-custom") || contains(c.Stack, "timeout-fires") || contains(c.Stack, "timeout-never") || contains(c.Stack, "retry-delay")
		case "http":
			h := genHTTP(t)
			if h.ExecCtx == "custom" && d12Trigger(h.Stack) {
				h.ExecCtx = "cancellable"
				st.Count("excluded_known_D12", 1)
			}
			cleanup = runHTTP(h)
			sc = h
			retried := false
			for _, s := range h.Statuses {
				retried = retried || s == 429 || s >= 500
			}
			nt = (contains(h.Stack, "retry") && retried) || contains(h.Stack, "hedge-real") || ((contains(h.Stack, "timeout") || h.ExecCtx != "none") && h.ReqCtx != "background")
		case "grpc":
			g := grpcScenario{Side: rapid.SampledFrom([]string{"client", "server"}).Draw(t, "side"), CallCtx: rapid.SampledFrom([]string{"background", "cancellable"}).Draw(t, "callCtx"),
				ExecCtx: rapid.SampledFrom([]string{"none", "cancellable", "custom"}).Draw(t, "execCtx"), Reps: rapid.IntRange(5, 40).Draw(t, "reps")}
			for i, n := 0, rapid.IntRange(0, 2).Draw(t, "nPols"); i < n; i++ {
				k := rapid.SampledFrom([]string{"timeout", "hedge-1h", "retry"}).Draw(t, "pol")
				if !contains(g.Stack, k) {
					g.Stack = append(g.Stack, k)
				}
			}
			g.Fails = rapid.SampledFrom([]int{0, 0, 1, 2, 99}).Draw(t, "fails")
			g.FailCode = rapid.SampledFrom([]string{"unavailable", "unavailable", "internal"}).Draw(t, "failCode")
			if g.ExecCtx == "custom" && d12Trigger(g.Stack) {
				g.ExecCtx = "cancellable"
				st.Count("excluded_known_D12", 1)
			}
			cleanup = runGRPC(g)
			sc, nt = g, (len(g.Stack) > 0 || g.ExecCtx != "none") && g.CallCtx != "background"
		default:
			o := compose.DefaultOpts()
			cs := compose.GenScenario(t, o)
			for i := 0; i < 5; i++ {
				compose.RunScenario(cs, false)
			}
			sc = cs.Sample()
			for _, p := range cs.Stack {
				k := cs.Pool[p].Kind
				nt = nt || k == "hedge" || k == "timeout"
			}
			for _, s := range cs.Steps {
				nt = nt || s.Entry >= 4
			}
		}
		func() {
			defer cleanup()
			judge(t, test, before, sc, kind)
		}()
		cleanup = nil
		if kind == "core" {
			judgeReleased(t, test, tokens, sc, kind)
		}
		b, _ := json.Marshal(sc)
		st.Case(kind+string(b), nt, "kind="+kind)
		if nt {
			st.Sample(kind+string(b), func() any { return map[string]any{"kind": kind, "scenario": sc} })
		}
	})
}

// TestKnownFindingD12 reproduces the open finding so that the evidence says whether it is still there.
func TestKnownFindingD12(t *testing.T) {
	st := harness.NewStats("TestKnownFindingD12")
	defer st.Flush()
	grew := map[string]int{}
	for name, f := range map[string]func(ctx context.Context){
		"async": func(ctx context.Context) {
			failsafe.NewExecutor[int]().WithContext(ctx).GetAsync(func() (int, error) { return 1, nil }).Get()
		},
		"timeout-not-fired": func(ctx context.Context) {
			failsafe.NewExecutor[int](timeout.With[int](time.Hour)).WithContext(ctx).Get(func() (int, error) { return 1, nil })
		},
		"hedge-winner": func(ctx context.Context) {
			failsafe.NewExecutor[int](hedgepolicy.WithDelay[int](time.Hour)).WithContext(ctx).Get(func() (int, error) { return 1, nil })
		},
	} {
		lc, end := newLifecycleCtx()
		_, _, before := settle()
		for i := 0; i < 30; i++ {
			f(lc)
		}
		time.Sleep(50 * time.Millisecond)
		_, _, after := leftovers()
		grew[name] = after - before
		end()
		settle()
		st.Count("d12_goroutines_left_after_30_"+name, after-before)
	}
	st.Case("d12", true, "known-finding-D12")
	st.Case("d12b", true, "known-finding-D12")
	st.Sample("d12", func() any { return grew })
	t.Logf("D12: goroutines left after 30 executions under a hand-written parent context: %v", grew)
}

func TestRegress(t *testing.T) {
	st := harness.NewStats("TestRegress")
	defer st.Flush()
	var files []string
	if p := os.Getenv("VERIF_REPLAY"); p != "" {
		files = []string{p}
	} else {
		dir := os.Getenv("VERIF_REGRESS_DIR")
		if dir == "" {
			dir = "../../regress/c19"
		}
		ents, _ := os.ReadDir(dir)
		for _, e := range ents {
			files = append(files, dir+"/"+e.Name())
		}
	}
	for _, f := range files {
		b, err := os.ReadFile(f)
		if err != nil {
			continue
		}
		var raw struct {
			Scenario json.RawMessage `json:"scenario"`
			Kind     string          `json:"kind"`
		}
		_ = json.Unmarshal(b, &raw)
		data := b
		if len(raw.Scenario) > 0 {
			data = raw.Scenario
		}
		_, _, before := settle()
		switch {
		case strings.Contains(f, "http") || bytes.Contains(data, []byte(`"statuses"`)):
			var h httpScenario
			_ = json.Unmarshal(data, &h)
			if h.Reps == 0 {
				continue
			}
			c := runHTTP(h)
			judge(t, "TestRegress", before, h, f)
			c()
		case bytes.Contains(data, []byte(`"call_ctx"`)):
			var g grpcScenario
			_ = json.Unmarshal(data, &g)
			c := runGRPC(g)
			judge(t, "TestRegress", before, g, f)
			c()
		case bytes.Contains(data, []byte(`"fn_dur_us"`)):
			var c coreScenario
			_ = json.Unmarshal(data, &c)
			tokens := &tokenSet{}
			currentTokens = tokens
			cl := runCore(c)
			judge(t, "TestRegress", before, c, f)
			cl()
			cl = nil
			judgeReleased(t, "TestRegress", tokens, c, f)
		default:
			continue
		}
		st.Case(f, true, "regress")
		st.Sample(f, func() any { return fmt.Sprintf("%s", data) })
	}
}
