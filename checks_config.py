"""Per-property configuration of the checks: which test functions, how many generated cases, how many shards."""

def T(name, q, t, **kw):
    """test entry: q/t = (shards, checks-per-shard[, timeout_s]) for the quick / thorough tier (None = not in tier)"""
    def mk(x):
        if x is None:
            return None
        d = dict(shards=x[0], checks=x[1])
        if len(x) > 2:
            d["timeout"] = x[2]
        return d
    return dict(name=name, quick=mk(q), thorough=mk(t), **kw)

REGRESS = lambda: T("TestRegress", (1, 0), (1, 0))

PROPS = {
    "C01": dict(
        pkg="./props/c01_compose",
        tests=[
            REGRESS(),
            T("TestCompose", (8, 8000), (16, 150000)),
        ],
        rule="rapid-generated scenarios: a pool of 1..5 policy instances of all eight kinds, a stack of 0..5 picks with repetition, and a history of executions (8 entry points, scripted outcomes incl. self-cancellation, a caller context that is already cancelled, and blocking beneath an always-fires timeout) one instance in three registering only a random subset of its listeners, one in five built through its package's convenience constructor (WithDefaults / With / WithResult / WithError / WithFunc / WithDelay / SmoothWithMaxRate / Bursty), one Get-style execution in six going through the package-level failsafe.Get* functions, interleaved with clock advances and standalone operations on the shared instances; each execution is compared with the sequential reference model; non-trivial = stack length >= 2 and at least one policy took a non-pass-through action in the model (retry, rejection, fallback, breaker transition, cache hit/store, timeout fired, abort, exhaustion); distinct = hash of (kinds and instance indexes in stack order, action kinds, scripts)",
        assumptions=[
            "inputs restricted to the documented domains (DESIGN.md R2); always-fires timeouts only with functions that block until cancelled and no bulkhead/limiter beneath them",
            "cases the statement leaves open are discarded or checked weakly and counted: abort on the exhausting attempt (L1), result-abort on an error outcome (L5), breaker grey zone / tainted epochs (L3, L4), scripts that do not terminate",
        ],
    ),
    "C03": dict(
        pkg="./props/c03_breaker",
        tests=[
            REGRESS(),
            T("TestBreakerMachine", (8, 20000), (16, 400000)),
        ],
        fuzz=[dict(name="FuzzBreakerMachine", time="120s")],
        require_classes=["boundary-instant-hit", "threshold-transition"],
        rule="rapid-generated histories (up to 60 operations quick / 120 thorough) of RecordSuccess/RecordFailure/RecordResult/RecordError, TryAcquirePermit, Open/HalfOpen/Close, executions through the breaker and boundary-biased advances of an injected virtual clock, over count / ratio / period-count / period-rate configurations with and without success thresholds, fixed delay or delay function; non-trivial = at least 2 state transitions of which at least 1 was decided by a threshold; distinct = hash of (configuration kind, success threshold present, transition string, whether an exact delay/slice boundary instant was hit, condition profile)",
        assumptions=[
            "virtual clock injected through circuitbreaker.VerifWithClock (build tag verif)",
            "thresholding periods are multiples of 10ns (10 equal slices), thresholds within capacity, rate thresholds 1..100",
            "results recorded without an acquired permit in half-open state, or while open, make admission counts and metrics unchecked until the next transition (DESIGN.md L3); results aged within (0.9*period, period] may or may not count (L4)",
        ],
    ),
    "C05": dict(
        pkg="./props/c05_ratelimiter",
        tests=[
            REGRESS(),
            T("TestSmoothHistory", (3, 8000), (5, 300000)),
            T("TestBurstyHistory", (3, 8000), (5, 300000)),
            T("TestMetamorphic", (3, 5000), (3, 200000)),
            T("TestConcurrentCallers", (2, 3000), (2, 60000)),
            T("TestConcurrentHammer", (4, 150), (8, 3000)),
            T("TestTickingClock", (4, 150), (8, 3000)),
            T("TestBlockingAcquire", (4, 400), (4, 8000)),
        ],
        fuzz=[dict(name="FuzzHistory", time="120s")],
        rule="(TestTickingClock: 2..5 concurrent callers per round against a clock that advances with every reading by a step from a drawn pattern {0, 1, a quarter, a half, one less than, exactly one slot / period}, some readings followed by a pause; the readings in hand-out order are the instants of a serial order: some permutation of the round's requests applied to the model at those instants gives the observed responses; non-trivial = a round whose readings span a slot / period boundary) rapid-generated histories of permit requests on a virtual stopwatch (boundary-biased instants, permit counts up to 3x max, max waits aimed at the refusal threshold); non-trivial = the history contains a wait > 0 AND (a refusal followed by a grant, or an idle gap of >= 1 unit while permits were owed, or a request exactly on a slot/period boundary); metamorphic cases count when a refusal was deleted or a k-permit request was split; concurrent rounds count when grants and refusals raced (TestConcurrentCallers: 2..7 goroutines per round, up to 5 rounds; TestConcurrentHammer: 3..8 persistent workers released by a spin barrier for 50..300 rounds per case, each round linearized against the model; all limiter constructors incl. Smooth(n, period) and the builder-less forms); blocking cases when the predicted wait was non-zero or a refusal; distinct = hash of the abstracted op string (advance class, op, permits, granted/waited/refused)",
        assumptions=[
            "virtual stopwatch injected through ratelimiter.VerifSetStopwatch (build tag verif)",
            "permit counts >= 1, max wait >= 0, interval/period >= 1ns; histories short enough that int64 nanoseconds do not overflow",
        ],
    ),
}

COMPOSE_ASSUMPTIONS = [
    "inputs restricted to the documented domains (DESIGN.md R2); always-fires timeouts only with functions that block until cancelled and no bulkhead/limiter beneath them",
    "cases the statement leaves open are discarded or checked weakly and counted: abort on the exhausting attempt (L1), result-abort on an error outcome (L5), breaker grey zone / tainted epochs (L3, L4), OnCacheMiss without a key (L2), scripts that do not terminate",
]
COMPOSE_RULE = "rapid-generated scenarios (pool of policy instances, stack with repetition, history of executions over the 8 entry points with scripted outcomes incl. self-cancellation, a caller context that is already cancelled, and blocking beneath an always-fires timeout, one instance in three registering only a random subset of its listeners, one in five built through its package's convenience constructor (WithDefaults / With / WithResult / WithError / WithFunc / WithDelay / SmoothWithMaxRate / Bursty), one Get-style execution in six going through the package-level failsafe.Get* functions, interleaved with clock advances and standalone operations), compared with the sequential reference model after every step; distinct = hash of (kinds and instance indexes in stack order, action kinds, scripts); non-trivial = "

PROPS.update({
    "C10": dict(pkg="./props/c10_fallback", tests=[REGRESS(), T("TestFallback", (8, 6000), (16, 100000)), T("TestFallbackViewStable", (2, 300), (4, 6000))],
        rule=COMPOSE_RULE + "a fallback was applied AND (the failure it handled came from a library-generated error: ExceededError, ErrOpen, ErrFull, rate-limit or timeout error; or the fallback has a HandleResult/HandleIf condition). Profile: fallback outermost, full error universe, all policy kinds inside. TestFallbackViewStable: the fallback function reads LastResult/LastError on entry and again after its execution was cancelled while it runs (enclosing Timeout, ExecutionResult.Cancel, caller context): both readings are the failure it handles; non-trivial when the cancellation arrived while the function was running.",
        assumptions=COMPOSE_ASSUMPTIONS),
    "C11": dict(pkg="./props/c11_cache", tests=[REGRESS(), T("TestCache", (8, 5000), (16, 80000)), T("TestCacheOverlapping", (4, 1500), (8, 20000)), T("TestCacheZeroValues", (2, 3000), (4, 60000))],
        rule=COMPOSE_RULE + "a cache hit that follows a store made by an earlier step of the same history, or a context key that conflicts with a configured key after something was stored, or an error outcome stored through a matching CacheIf. Profile: cache-heavy pools sharing one instrumented cache, stateful policies inside, histories up to 10 steps with direct cache writes/deletes. TestCacheOverlapping: 2..6 executions with generated keys overlap inside one cache policy (parked in the function, completed in a generated order); non-trivial when at least two different keys are involved. TestCacheZeroValues: result type any; histories of Get / Run executions, direct writes and deletions with entries such as nil (what Run stores), typed nil, 0, the empty string and an empty slice, compared with a map; non-trivial = a nil entry was cached.",
        assumptions=COMPOSE_ASSUMPTIONS + ["an empty string under cachepolicy.CacheKey in the context counts as a string key supplied through the context (it takes precedence over a configured key) and as no key (nothing is read or written)"]),
    "C16": dict(pkg="./props/c16_events", tests=[REGRESS(), T("TestEvents", (8, 6000), (16, 120000)), T("TestEventsConcurrent", (4, 1500), (8, 30000)), T("TestEventsWhenWaitsAreCancelled", (2, 600), (4, 8000)), T("TestBreakerEventPathConcurrent", (4, 300), (8, 6000)), T("TestHedgedRetryEvents", (4, 500), (8, 10000))],
        prefer_json_tests=["TestHedgedRetryEvents"], replay_reps=300,
        rule=COMPOSE_RULE + "at least 3 distinct listener kinds fired and at least one of {abort, exhaustion, rejection, cache hit, fallback, timeout, nested retries}. Every listener of every builder and of the executor is registered into one recorder. TestEventsConcurrent: 2..12 executions with different scripts share one executor and its listeners; each execution's events (attributed through the context) must equal the model's prediction for its own script. TestEventsWhenWaitsAreCancelled: an execution waiting an hour for a bulkhead permit, a limiter permit or a retry delay is cancelled; rejection / retry / exhaustion listeners must stay silent; also Retry(RateLimiter) on a stopwatch the harness owns, where a first attempt is refused for real and a later attempt is cancelled during an allowed wait: OnRateLimitExceeded fires for the refusal only. TestHedgedRetryEvents: Hedge(Retry(fn)) with a hedge that only accepts successes, so 2..4 branches of one execution share the retry policy's executor; every invocation parks and the harness lets them return one at a time in a generated order or all at once; OnRetriesExceeded at most once (exactly once with ExceededError), invocations = 1 + OnHedge + OnRetry, OnRetry <= OnRetryScheduled, one completion event; non-trivial when at least two branches were parked together and a retry was decided or the retries were exceeded.",
        assumptions=COMPOSE_ASSUMPTIONS + ["a result that reaches a retry policy after the same execution has already exhausted it (nested retries, a hedge outside) passes through unclassified: the executor's OnSuccess/OnFailure verdict is not judged against the error for such executions"]),
    "C17": dict(pkg="./props/c17_stats", tests=[REGRESS(), T("TestStats", (8, 6000), (16, 120000)), T("TestHedgedStats", (4, 1000), (8, 15000), pkg="./props/c09_hedge"), T("TestHedgedRetryStats", (2, 1500), (4, 20000), pkg="./props/c09_hedge"), T("TestAttemptViewStable", (2, 400), (4, 6000)), T("TestScheduledEventUnderTimeout", (2, 300), (4, 5000)), T("TestHedgeFlagAcrossRetries", (2, 1000), (4, 20000)), T("TestHedgedRetryEvents", (2, 400), (4, 6000), pkg="./props/c16_events")],
        rule=COMPOSE_RULE + "(TestHedgeFlagAcrossRetries: Hedge(Retry(fn)) where all branches but one stay parked and the remaining one -- first attempt or a hedge, as drawn -- fails 1..4 times and is retried inside its branch: IsHedge says the same thing at every entry and retry event of that branch, exactly one of the first maxHedges+1 entries is not a hedge, and the counters add up) (the OnHedge event's execution reports IsHedge) (every listener payload is kept and read again when the execution is over: LastResult, LastError -- unless the context ended meanwhile -- StartTime and AttemptStartTime still say what they said on delivery; the counters are shared between copies by design and are not compared) (OnRetry for attempt k and the function entered for attempt k read the same AttemptStartTime) (TestScheduledEventUnderTimeout: Timeout(Retry(fn)) where the Timeout fires while the retry policy computes the delay after attempt k: OnFailure and OnRetryScheduled for attempt k still report attempt k's result and error) (TestHedgedRetryEvents, from the C16 harness: ElapsedAttemptTime of a parked attempt never goes backwards while other branches retry) at least one retry happened and at least one attempt was rejected before reaching the function (breaker, bulkhead or rate limiter). Observation points: function entry, every listener, fallback functions, completion events. Hedged executions (TestHedgedStats, from the C09 harness) count as non-trivial when at least two attempts overlapped.",
        assumptions=COMPOSE_ASSUMPTIONS + ["LastResult/LastError are not compared at observation points where the execution's context is already done (LastError then reports the context error by design)"]),
})

PROPS["C12"] = dict(
    pkg="./props/c12_classify",
    tests=[REGRESS(),
           T("TestExhaustivePrefix", (8, 0), (8, 0), env={"VERIF_SHARDS": "8"}),
           T("TestClassifyRandom", (4, 20000), (8, 300000)),
           T("TestClassifyDeepEqual", (2, 10000), (4, 200000)),
           T("TestClassifyHistory", (2, 8000), (4, 150000))],
    fuzz=[dict(name="FuzzClassify", time="120s")],
    rule="registration lists of HandleErrors/HandleErrorTypes/HandleResult/HandleIf (and AbortOn*/CancelOn*) x outcomes (values 0..3 x 20 errors: nil, sentinels, wrapped once/twice, joined, value- and pointer-receiver types bare/wrapped/joined, marker interface, custom Is, nil Unwrap, unrelated), each evaluated through a fallback, a retry policy, a breaker (execution and RecordResult/RecordError), retry abort conditions and hedge cancel conditions; lists of length 0..2 over a 22-condition alphabet are enumerated exhaustively against all 80 outcomes, longer lists (up to 5) are drawn at random; non-trivial = at least 2 registration kinds of which one matches and one does not, or an error nested at least two levels with some registration; distinct = the case itself. (slices handed to variadic registration calls are overwritten by the caller right after the call: what was registered is what they held) TestClassifyDeepEqual: policies over R = any with HandleResult / AbortOnResult values of 14 shapes (int, int64, string, pointers to structs, slices, a map, structs holding pointers, a typed nil pointer, nil, a struct value, an array), the outcome built separately from the registered value (equal contents, distinct instances) or the same instance, through fallback, retry, abort and breaker carriers against reflect.DeepEqual; non-trivial = a match between distinct instances of a pointer / slice / map / struct value. TestClassifyHistory: one policy instance per carrier classifies a sequence of 2..8 outcomes; each verdict is the rule applied to that outcome alone; non-trivial = the sequence contains failures and non-failures",
    assumptions=["result conditions of abort/cancel lists on outcomes that carry an error are not checked (documentation silent, DESIGN.md L5; counted)",
                 "results are comparable ints except in TestClassifyDeepEqual; predicates come from a named finite family evaluated identically by the oracle"],
)

PROPS["C02"] = dict(
    pkg="./props/c02_retry",
    tests=[REGRESS(),
           T("TestRetrySequential", (6, 8000), (8, 200000)),
           T("TestRetryShared", (6, 1500), (6, 40000)),
           T("TestMaxDurationReal", (4, 150), (4, 3000)),
           T("TestHedgedRetryEvents", (2, 400), (4, 6000), pkg="./props/c16_events")],
    rule=COMPOSE_RULE + "(TestHedgedRetryEvents, from the C16 harness: Hedge(Retry(fn)) with overlapping failing branches: OnRetry fires at most maxRetries times per execution) at least one retry happened (sequential: a retry policy alone or outermost/innermost of a stack of up to 3, maxRetries/maxAttempts in {0,1,2,3,5,unlimited}, overlapping handle and abort conditions, ReturnLastFailure, max duration unset / always exceeded / never); shared: 2..32 goroutines run different scripts through the same policy instances at once and each is compared with the sequential model of its own script, non-trivial when at least two of them retried with different scripts; real max duration (2..20 ms, unlimited retries): non-trivial when the function sampled an elapsed time beyond the max duration just before returning a failure",
    assumptions=COMPOSE_ASSUMPTIONS + ["real max-duration trials assert only the sound direction: no attempt after a failure that was returned with the max duration already elapsed"],
)

PROPS["C07"] = dict(
    pkg="./props/c07_timeout",
    tests=[REGRESS(), T("TestTimeoutTriple", (4, 60), (8, 1500)), T("TestTimeoutThenCallerCancel", (4, 25), (8, 400)), T("TestTimeoutWhenAlreadyCancelled", (2, 60), (4, 1500)), T("TestOuterTimeoutStaysSilent", (2, 200), (4, 4000)), T("TestHedgedRetryTimeout", (2, 100), (4, 2000))],
    replay_reps=2000,
    require_classes=["arm=inner", "arm=timeout"],
    rule="TestOuterTimeoutStaysSilent: an outer Timeout of one hour around an inner Timeout that fires, or around a function returning (an error wrapping) ErrExceeded: the outer listener stays silent and the result passes through. TestHedgedRetryTimeout: Hedge(Retry(Timeout(fn))), first tries of both branches ended by the Timeout, the hedged branch's second try succeeds: it must have been made. TestTimeoutWhenAlreadyCancelled: the caller cancels before the limit (or before the start) and the function ignores it, returning at half or at twice the limit: the same exclusive outcome is required. TestTimeoutThenCallerCancel: Retry(Timeout(fn)), 1..2 attempts ended by the Timeout, then an attempt during which the caller cancels at once: if that attempt was over before its limit could elapse, the listener count is unchanged and the execution does not end in ErrExceeded. TestTimeoutTriple (one trial in three builds its Timeout as the middle one of three from a shared builder with different listeners): rapid-generated trials run in concurrent batches of 96: time limit 1..20 ms, function duration in {0, limit/2, a dense band 0.8..1.2 x limit, 2 x limit, block until cancelled} realised by sleeping or spinning, sync or async, in 8 placements (alone, retry(timeout), timeout(retry), fallback(timeout), timeout(fallback), timeout(hedge), timeout(bulkhead) and timeout(limiter) with and without a pending wait); the oracle accepts either side of the race but requires the triple (result, listener count, cancellation) to be consistent and ErrExceeded never to precede the limit; non-trivial = duration in the racing band or blocking, or at least 2 attempts; distinct = hash of (placement, duration kind, limit bucket, factor, spin, error, failures, waiting, arm taken)",
    assumptions=["timing assertions are lower bounds on monotonic time only (sandbox stalls of 50-130 ms were measured); 'listener never called' is checked after a grace period of 2 x limit + 30 ms, 'listener called / execution cancelled' is polled for up to 30 s",
                 "the schedule is sampled by the Go scheduler and real timers, not enumerated"],
)

PROPS["C09"] = dict(
    pkg="./props/c09_hedge",
    tests=[REGRESS(), T("TestHedge", (8, 1200), (16, 20000)), T("TestHedgeRounds", (4, 400), (8, 6000)), T("TestHedgeFinalPathRounds", (2, 600), (4, 10000)), T("TestHedgeInnerTimeout", (2, 300), (4, 5000)), T("TestClassifyDeepEqual", (2, 3000), (4, 50000), pkg="./props/c12_classify", env={"VERIF_DEEP_CARRIER": "hedge"})],
    replay_reps=300,
    require_classes=["final-path=true", "overlapped=true"],
    rule="(TestHedgeFinalPathRounds: the all-attempts-finished path when the function runs more often within one execution than a hedged execution has attempts: Retry(Hedge) with 1..3 rounds whose attempts all fail with an error the hedge does not accept, then a round of values it does not accept either, or one it does -- every round ends once its attempts have finished, none starts more than maxHedges+1, the caller's value comes from the last round and not before all its attempts finished; Hedge(Retry) where every attempt runs the function several times and ends unacceptable -- the result is due only after OnHedge was called maxHedges times and the hedge delays have elapsed) (outcomes include an error of the attempt's own that wraps context.Canceled: nobody cancelled that attempt, its result counts like any other) (cancel predicate variants: attempts with acceptable results leaving it together; 300 us to reject a result) (TestHedgeInnerTimeout: Hedge(Timeout(fn)) where the first attempt runs into its own Timeout -- a result the cancel condition rejects, recorded on the execution the attempts share --, the second attempt then wins and a third is still running: it must have been cancelled at the return; judged only when the schedule was met) (TestClassifyDeepEqual, from the C12 harness: CancelOnResult with values for which deep equality and identity differ -- pointers, slices, maps, structs holding pointers -- a separately built equal outcome is delivered without a hedge, an unequal one lets the hedge run) one scenario in four goes on using the builder (more hedges, another listener) after the policy under test was built; placements include a Timeout between the hedge policy and the function; rapid-generated hedged executions: maxHedges 0..4, a generated delay per hedge from {0, 0.2, 1, 3, 5 ms, 1 h}, cancel conditions {default, CancelOnResult, CancelOnErrors, CancelIf}, an outcome per attempt (assigned by order of entry), placements {alone, inside retry, inside a never-firing timeout, inside a fallback}, sync/async; gated mode: every attempt parks on a harness channel and is released in a generated permutation (exact step oracle); auto mode: attempts last a generated 0..8 ms or until cancelled and race with the hedge timers (race-agnostic log oracle); non-trivial = at least 2 attempts overlapped and (the winner was not the first attempt or the all-finished path delivered the result); distinct = the scenario",
    assumptions=["attempts are identified by order of entry; spacing is a lower bound on order statistics of the entries and on the OnHedge calls",
                 "a cancel-matching result that loses the hand-off to the final result of the last attempt is accepted when all attempts have finished (DESIGN.md L8)",
                 "timing assertions are lower bounds only; 'does not return' is observed for 0.3 ms, 'returns' is awaited for 30 s"],
)

PROPS["C08"] = dict(
    pkg="./props/c08_cancel",
    tests=[REGRESS(), T("TestCancelScenarios", (6, 400), (8, 6000)), T("TestCancelRaceSpin", (8, 40), (8, 800))],
    replay_reps=20,
    rule="context sources may be built with an explicit cause (WithCancelCause / WithDeadlineCause): the reported error stays context.Canceled / DeadlineExceeded; rapid-generated cancellation scenarios run in concurrent batches: 12 composition shapes around a retry or hedge policy (with fallback outside/inside, breaker, a full bulkhead and a rate limiter with 1 h waits, enclosing Timeout), retry delay 0 or 1 h, one cancellation source (context cancel, context deadline, enclosing Timeout, ExecutionResult.Cancel) fired at a generated point (before submission, inside attempt k, inside OnRetryScheduled of retry k, from another goroutine after a generated spin of 0..100 us, after completion), sync and async; plus spin-race batches of 2000 cheap trials aimed at the windows between the steps of a retry iteration; non-trivial = the cancellation took effect strictly between the first function entry and the call's return; distinct = hash of the scenario parameters and the outcome class",
    assumptions=["exactly one cancellation source per execution, as the property's quantifier says",
                 "the marker 'cancellation in effect' is logged after the cancelling call returned (or later), so 'at most one attempt afterwards' is a sound bound",
                 "promptness is asserted only against 1 h waits, with a 30 s bound",
                 "windows narrower than ~100 ns are hit only with the probability the trial counts give (evidence reports them)"],
)

PROPS["C06"] = dict(
    pkg="./props/c06_bulkhead",
    tests=[REGRESS(), T("TestBulkhead", (8, 400), (16, 8000)), T("TestBulkheadStampede", (2, 80), (4, 1500))],
    replay_reps=200,
    require_classes=["waited=true", "refused=true", "cancelled=true"],
    rule="(TestBulkheadStampede) 4..8 persistent workers released together by a spin barrier for 200..1500 rounds, each trying to get in through TryAcquirePermit or a non-waiting execution: never more than maxConcurrency inside, all permits back afterwards; executions cancelled by CancelMe may run under a hand-written context.Context (own Done/Err, values delegated to a standard parent that is never cancelled); maxConcurrency 0..8 (0: a bulkhead that admits nothing); executions may carry a context deadline of 1 us .. 2 ms that expires while they wait for or hold a permit; (final phase, in half of the scenarios) with every permit held, 1..4 callers of the standalone AcquirePermit / AcquirePermitWithMaxWait are cancelled while they wait: each returns the context error without a permit, and exactly maxConcurrency permits are available afterwards. rapid-generated bulkhead scenarios: maxConcurrency 1..8, max wait in {0, 1 ms, 50 ms, 1 h}, 0..max permits taken through the standalone API, 2..24 (thorough: 64) concurrent executions (sync/async; bare or with the bulkhead inside retry / an always-firing timeout / a real hedge / a fallback, or outside a retry) in three roles (holders parked on a harness gate inside the function, burst executions, waiters submitted against a full bulkhead), and a generated order of harness actions (open a gate, cancel an execution's context while it waits for or holds a permit, take/release standalone permits); non-trivial = more executions than permits AND at least one waited for a permit, was refused, or was cancelled; distinct = the scenario",
    assumptions=["the in-flight meter counts function invocations between entry and exit, plus standalone permits counted conservatively, so it never over-estimates what holds a permit",
                 "a bulkhead enclosing a hedge policy is not generated (one permit then covers several attempts by design)",
                 "an execution still unfinished after 30 s is a violation only with evidence (a goroutine blocked in ReleasePermit, or a 1 h waiter stranded after all others finished); otherwise inconclusive"],
)

PROPS["C04"] = dict(
    pkg="./props/c04_breaker_conc",
    tests=[REGRESS(), T("TestBreakerConcurrent", (8, 500), (16, 8000))],
    replay_reps=200,
    require_classes=["raced-open=true", "raced-trials=true"],
    rule="half-open trials may arrive with a context that is already cancelled (an admitted trial all the same); the virtual clock starts at 0, 1 or a wall-clock-like reading; one scenario in eight uses a delay near the end of the int64 range (the breaker must stay open while the clock moves on by days); parked trials with identical outcomes may be completed all at once; rapid-generated breaker scenarios on a frozen virtual clock: count / ratio / count-in-period / rate-in-period thresholds with optional success thresholds; phase A: 2..16 (thorough 32) executions race against the closed breaker while some of their failures trip it (any execution submitted after OnOpen was observed must be refused; in half of the scenarios the OnOpen listener is slow and 4 more executions are submitted while it is still running); phase A2: executions (bare / under retry / under an always-firing timeout / under a fallback, sync and async) against the open breaker; phase B: the clock jumps past the delay and up to 2*capacity+2 trials are submitted one by one (model in lock-step) or all at once (racing for permits), ending by result, error, timeout, cancellation or a rejection further in; parked trials are completed in a generated order with the reference breaker in lock-step; finally the free trial permits are probed; non-trivial = the breaker opened while at least 2 executions were in flight, or more than capacity executions raced for trial permits; distinct = the scenario",
    assumptions=["virtual clock injected through circuitbreaker.VerifWithClock (build tag verif); phase B starts only when nothing admitted earlier is in flight, as the property's quantifier says",
                 "the OnOpen listener runs under the breaker's lock, so a flag it sets is ordered before every later admission decision"],
)

PROPS["C15"] = dict(
    pkg="./props/c15_async",
    tests=[REGRESS(), T("TestSyncAsyncAgree", (6, 3000), (8, 60000)), T("TestFutureProtocol", (8, 1500), (8, 40000)), T("TestCancelAfterInnerTimeout", (2, 300), (4, 5000)), T("TestCancelSpin", (4, 20), (8, 400)), T("TestCancelWhileHedgeBusy", (2, 400), (4, 8000)), T("TestCancelStaysWithItsExecution", (2, 3000), (4, 60000))],
    replay_reps=300,
    rule="(TestCancelStaysWithItsExecution) 2..5 executions started from one Executor value (sync and async, with and without a configured context) are parked; some ExecutionResults are cancelled; every other execution, and later executions through the same Executor, return their own values. (TestCancelWhileHedgeBusy) the hedge policy's goroutine is parked in its delay function or OnHedge listener while an attempt delivers an acceptable result and the caller cancels, in either order: the result is ErrExecutionCanceled. (differential) rapid-generated composition scenarios run twice on fresh instances, once through the four synchronous entry points and once through the four asynchronous ones; results, errors and invocation counts must agree step by step; non-trivial = some policy acted. (protocol) generated scenarios with every attempt parked on a harness gate, 1..16 reader goroutines issuing generated sequences of IsDone / non-blocking Done / Get / Result / Error / blocking Done before and after completion, completion listeners logging, and Cancel() before the start, while attempt k is parked, during a 1 h retry delay, or after completion; non-trivial = at least 2 readers were blocked before completion, or a Cancel landed between the first entry and completion; distinct = the scenario. TestCancelAfterInnerTimeout: Retry(Timeout(fn)), the attempt is ended by the inner Timeout, Cancel lands in the 1 h retry delay: every reader must get ErrExecutionCanceled. TestCancelSpin: batches of 2000 async unlimited-retry executions cancelled after a generated spin.",
    assumptions=["IsDone()==true slightly before Done is closed is not flagged (the statement's 'exactly' is checked in the direction Done closed => IsDone true)",
                 "Cancel is only required to surface as ErrExecutionCanceled when a retry or hedge policy is in the stack, as the property says"],
)

PROPS["C13"] = dict(
    pkg="./props/c13_delays",
    tests=[REGRESS(), T("TestDelaysBlackBox", (8, 1500), (8, 40000)), T("TestDelaysProbe", (4, 20000), (8, 400000))],
    fuzz=[dict(name="FuzzDelaysProbe", time="120s")],
    rule="rapid-generated delay configurations: {none, fixed, backoff with factor 1..10 (WithBackoff and WithBackoffFactor), random range, delay function returning a value / 0 / -1, backoff with a delay function that answers on some retries only, a delay function that takes 0.2..3 ms to answer while a max duration runs down} x {no jitter, jitter duration, jitter factor} x {no max duration, max duration}, optionally preceded by builder calls the documentation says are replaced (a fixed/random/backoff delay before a backoff or random delay, the other jitter kind before the jitter), magnitudes log-uniform from 1 us to 10 h, 1..12 consecutive failures; black box: OnRetryScheduled delays and monotonic timestamps, really waited for at sub-millisecond magnitudes, first delay only (context cancelled from inside the listener) above; probe: consecutive delays of one retry executor on a virtual elapsed time at any magnitude; non-trivial = jitter or clamp active, or at least 3 consecutive backoff delays, or a base delay of at least 1 s; distinct = the configuration",
    assumptions=["backoff and jitter-factor bounds carry a relative tolerance of 1e-5 per step (float32 arithmetic in the implementation, DESIGN.md L6); absolute bounds (>= 0, <= maxDelay, range ends, remaining max duration) are exact",
                 "on the black-box path the clamp to the remaining max duration is bounded on both sides by elapsed times sampled before and after the policy's own reading",
                 "with a delay function that answers on some retries only, the k-th backoff delay is the k-th delay the backoff itself produced (the function's answers in between do not advance it)", "consecutive delays at magnitudes that cannot be waited for are read through retrypolicy.VerifDelayProbe (build tag verif)"],
)

PROPS["C14"] = dict(
    pkg="./props/c14_race",
    race=True,
    tests=[REGRESS(), T("TestGeneratedPrograms", (8, 2500), (16, 40000)), T("TestTwoCancellationSources", (2, 12), (4, 150)), T("TestHTTPHedgedRace", (2, 12), (4, 150))],
    rule="(TestHTTPHedgedRace) hedged HTTP requests through one shared executor and transport from 2..4 goroutines, the server answering all attempts of a request together, the requests without a body or with one of 64 KiB / 4 MiB from a plain reader (uploads of the attempts overlap); (TestTwoCancellationSources) executions cancelled from two sides at about the same instant (a context deadline and an enclosing Timeout with nearly the same limit) while a rate limiter, bulkhead or retry delay waits inside, 8 goroutines x 500 repetitions per case; rapid-generated concurrent programs executed under the Go race detector: 1..5 policies of all eight kinds (stateful instances shared), 2..8 (thorough 32) goroutines running sync / async / async-then-Cancel / context-cancelled executions with generated durations and failure counts, firing timeouts, real hedging with 0..150 us delays, retries with backoff and jitter, plus 0..3 goroutines hammering the standalone APIs (breaker Record*/Open/Close/HalfOpen/State/Metrics/TryAcquirePermit, bulkhead and limiter permits), every listener and the function reading every accessor of what they are handed; verdict = race detector reports whose access stacks contain a frame of the module, de-duplicated by the pair of top module frames; plus panics and a 60 s hang watchdog; non-trivial = a stateful instance was shared AND a policy-started goroutine (hedge attempt, timeout timer, async runner) was live; distinct = the program",
    assumptions=["the race detector's verdict depends on happens-before, not on the race manifesting, but only for code paths the generated programs actually execute",
                 "race reports whose two access stacks contain no module frame are harness code and are not attributed to the module (reported as a note)"],
)

PROPS["C18"] = dict(
    pkg="./props/c18_adapters",
    tests=[REGRESS(), T("TestHTTP", (8, 300), (16, 5000)), T("TestGRPC", (4, 4000), (8, 60000)), T("TestGRPCLoopback", (4, 250), (8, 5000)), T("TestHTTPErrorClasses", (2, 150), (4, 1000)), T("TestKnownFindingD9", (1, 0), (1, 0))],
    replay_reps=20,
    rule="(HTTP errors, TestHTTPErrorClasses) transport errors by class {unsupported scheme, redirect loop, certificate signed by an unknown authority, connection refused, connection reset} x {RoundTripper, Request} x max retries 0..3: (plus, through failsafehttp.Request, the caller's http.Client giving up on each attempt after its own Timeout while the caller's context stays alive: retried) exactly one attempt for the classes the adapter's retry policy names as terminal, exactly 1 + max retries for the others. (HTTP) rapid-generated requests against a loopback httptest server with a scripted answer per attempt: method, path+query, 0..4 headers (each attempt must carry exactly the original values of each, no more), for bodies whose length net/http knows (or that are absent or empty) the framing of every attempt -- declared content length, chunked or not -- equals that of the same request sent by a plain http.Client (a reference request per shape), through failsafehttp.Request optionally a client with a cookie jar holding one cookie (every attempt carries it once, as a plain client.Do would), body kind as an http.Request can carry it (nil, NoBody, what NewRequest makes of a Buffer / bytes.Reader / strings.Reader, a seekable ReadSeekCloser, a streaming ReadCloser with short reads, empty) x size {0, 1, 4 KiB, 64 KiB+1, thorough: 1 MiB} (and 6 MiB bodies under real hedging with the server holding back the first upload until the hedge has arrived, so that uploads overlap), request context kind x executor context kind, policy stack from {failsafehttp retry, never-firing timeout, 1 h hedge, real hedging against a slow server, breaker, fallback}, NewRoundTripper or NewRequest, server script per attempt (status, Retry-After, response size, flushed early / chunked with pauses / answered before the body was read / connection closed before or after the headers), or the caller cancelling while the server holds the response; a recording inner RoundTripper observes the context of every attempt. (gRPC) the client and server interceptors are invoked directly with a recording invoker / handler: status codes per attempt (server side: optionally the handler returns its reply object together with the error, and both pass through), call context with values, deadline, outgoing / incoming metadata, executor context, caller cancellation; plus TestGRPCLoopback: a real grpc.ClientConn and grpc.Server over an in-memory connection (bufconn) with the client and server interceptors installed, checking what arrives on the wire (metadata, deadline, request), attempt counts, replies and caller cancellation. Non-trivial = at least 2 attempts with a non-empty body, or a context-creating policy together with a non-background call context, or values / deadline / metadata present; distinct = the scenario",
    assumptions=["known finding D9 (seekable body x attempts whose body reads can overlap) is excluded by construction and counted as excluded_known; TestKnownFindingD9 reproduces it separately",
                 "a response sent before the request body was read is only generated with bodies of at most 4 KiB (already on the wire)",
                 "the executor context's values and deadline are not required to be visible to attempts, only its cancellation (the property speaks of the caller's context)"],
)

# schedule-dependent checks: the replay artefact is the JSON scenario (re-run many times), not rapid's bit stream
for _p in ("C04", "C06", "C07", "C08", "C09", "C15", "C18"):
    PROPS[_p]["prefer_json_replay"] = True

PROPS["C19"] = dict(
    pkg="./props/c19_leaks",
    tests=[REGRESS(), T("TestLeaks", (8, 150), (16, 3000)), T("TestKnownFindingD12", (1, 0), (1, 0)), T("TestHedgedRetryEvents", (2, 400), (4, 6000), pkg="./props/c16_events", env={"VERIF_LEAKCHECK": "1"})],
    prefer_json_replay=True,
    rule="(TestHedgedRetryEvents, from the C16 harness, with a goroutine dump at the end: after all hedged-retry executions returned no goroutine may remain inside the retry or hedge policy) rapid-generated scenarios, each repeated 5..40 times in a row: core executions through stacks of {retry with and without backoff delays, firing and never-firing timeouts, real hedging with default and custom cancel conditions, 1 h hedge, fallback, 1 h bulkhead and limiter waits} run sync / async / async without ever reading the result, with functions that last 0..600 us or until cancelled, ended by success, failure, timeout, context cancellation or ExecutionResult.Cancel; HTTP calls through a private transport (retried statuses incl. outages where every attempt gets the same 429/500/503, hedged losers with default and custom cancel conditions whose answers arrive together (server-side barrier), retries rejected by an inner breaker or rate limiter (also: 5xx, rejected, breaker half-opened again, 200), inner transports whose Body.Close reports an error or which hand out responses without a Body, request bodies whose rewind fails, merged request/executor contexts, bodies read or not); gRPC interceptor calls with merged contexts; composition scenarios of the C01 generator; gRPC attempts answered with UNAVAILABLE (retried) or INTERNAL before one succeeds, or always; every core execution's context carries a token with a finalizer: after the goroutine oracle passed and the caller's contexts were ended, the collector runs and the tokens must have been finalized (an armed timer whose function refers to the execution keeps them reachable); after everything returned and idle connections were closed, and while the caller's contexts are still alive, a goroutine dump is polled for up to 30 s: no goroutine may keep a frame of the module or of an HTTP client connection, and the goroutine count may not have grown; non-trivial = the scenario started a policy goroutine or timer (hedge, timeout, async runner, delay, merged context, retried response); distinct = the scenario",
    assumptions=["an armed timer is only visible through what its function keeps reachable (the reachability oracle: a finalizer on a token in each core execution's context; up to 4 tokens may linger because the runtime removes stopped timers lazily); channel timers that refer to nothing but their channel are invisible",
                 "the caller owns (and closes) the response it is handed, including the one carried by ExceededError",
                 "scenarios run one after the other within a process, so leftovers are attributable",
                 "known finding D12 (child contexts of async executions / Timeout applications / hedge attempts are not released on the normal path; with a hand-written parent context each keeps a watcher goroutine) is excluded by construction: a hand-written executor context is only combined with stacks that derive no such child context; TestKnownFindingD12 reproduces it separately"],
)
