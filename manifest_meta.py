HOOK_COMMITS = ["a7ddfc0"]

META = {
    "C05": dict(
        text="Model-based and metamorphic property testing of the rate limiter on an injected virtual stopwatch: every response of generated request histories is compared with a greedy slot/period allocator written from the property text, model-free invariants are checked over all grants of each history, refused requests are deleted and k-permit requests split to check the two equivalences, concurrent callers are checked for linearizability against the model, and blocking acquires are checked never to succeed early. Sampling, not proof: evidence reports case counts.",
        design_ref="DESIGN.md section 6, C05",
        note="Trusts the reference model (props/c05_ratelimiter/model.go) and the stopwatch hook; explores generated histories only (up to 80 requests, int64-safe magnitudes).",
        technique="property-based testing (rapid): reference-model lock-step + history invariants + metamorphic relations + linearizability search; native fuzzing in thorough",
    ),
}

ALL = ["C%02d" % i for i in range(1, 20)]
NOT_APPLICABLE = [dict(property_id=p, reason="check not built yet in this session (work in progress; DESIGN.md section 6 describes the planned property-based check)") for p in ALL if p not in META]
