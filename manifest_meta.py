HOOK_COMMITS = ["a7ddfc0"]

META = {
    "C01": dict(
        text="Model-based property testing of policy composition: generated pools of policy instances, stacks with repetition and histories of executions (all eight entry points) are run in lock-step against a sequential reference interpreter of the documented per-policy behaviour; after every execution the invocation count, returned value and error, the completion verdict and listeners, the cache content and traffic, and the post-state of every stateful instance are compared. Sampling, not proof.",
        design_ref="DESIGN.md sections 5.3 and 6, C01",
        note="Trusts the reference model (harness/compose/model.go, harness/cbmodel, harness/rlmodel) and the clock/stopwatch hooks; real hedging and racing timers are outside this check by construction (C07, C09); statement-open corners are discarded or checked weakly and counted in the evidence.",
        technique="property-based testing (rapid): differential testing against a sequential reference model of the composition, over generated compositions x configurations x outcome scripts x histories",
    ),
    "C03": dict(
        text="Model-based property testing of the breaker state machine on an injected virtual clock: generated histories of record/acquire/manual/execution operations and boundary-biased clock advances are applied in lock-step to the real breaker and to a naive reference breaker (plain result lists recounted per query); state, admission decisions, remaining delay, metrics, and the generic and specific state-change events with their metrics are compared after every operation. The time window is checked against the envelope the property states (results aged <= 0.9 period always count, > period never). Sampling, not proof.",
        design_ref="DESIGN.md section 6, C03",
        note="Trusts the reference model (harness/cbmodel) and the clock hook; admission counts and metrics are unchecked in epochs tainted by results recorded without a permit (L3); grey-zone window decisions adopt the observed state (L4, counted in evidence).",
        technique="property-based testing (rapid): stateful model-based lock-step against a reference state machine on virtual time; native fuzzing in thorough",
    ),
    "C05": dict(
        text="Model-based and metamorphic property testing of the rate limiter on an injected virtual stopwatch: every response of generated request histories is compared with a greedy slot/period allocator written from the property text, model-free invariants are checked over all grants of each history, refused requests are deleted and k-permit requests split to check the two equivalences, concurrent callers are checked for linearizability against the model, and blocking acquires are checked never to succeed early. Sampling, not proof: evidence reports case counts.",
        design_ref="DESIGN.md section 6, C05",
        note="Trusts the reference model (props/c05_ratelimiter/model.go) and the stopwatch hook; explores generated histories only (up to 80 requests, int64-safe magnitudes).",
        technique="property-based testing (rapid): reference-model lock-step + history invariants + metamorphic relations + linearizability search; native fuzzing in thorough",
    ),
}

ALL = ["C%02d" % i for i in range(1, 20)]

_COMPOSE_NOTE = 'Trusts the reference model (harness/compose/model.go, harness/cbmodel, harness/rlmodel) and the clock/stopwatch hooks; sequential executions only (real hedging and racing timers are covered by C07/C09); statement-open corners are discarded or checked weakly and counted in the evidence.'

META.update({
    "C10": dict(
        text="Model-based property testing focused on fallbacks: a fallback (result, error or function kind, generated handle conditions over the full error universe) is placed outermost around generated inner compositions that can return every kind of outcome; the reference model decides whether the fallback applies; compared: invocation count of the fallback function, the execution it receives (LastResult/LastError = the failed outcome), OnFallbackExecuted payload, policy-level OnSuccess/OnFailure, the returned outcome and the completion verdict. Sampling, not proof.",
        design_ref="DESIGN.md section 6, C10", note=_COMPOSE_NOTE,
        technique="property-based testing (rapid): differential testing against the sequential composition model, fallback-focused generator profile",
    ),
    "C11": dict(
        text="Model-based property testing of the cache policy over generated histories: one or two cache policies share an instrumented cache; configured and context keys, CacheIf conditions, pre-populated content, direct writes/deletes and stateful policies inside the cache are generated; compared after every step: every Get/Set the policy issued, the full cache content, the returned outcome, and the state and every listener of the policies inside (which must not move on a hit). A second test overlaps executions with different keys inside one cache policy (parked in the function, completed in a generated order): every result must be stored under the key of the execution that produced it. Sampling, not proof.",
        design_ref="DESIGN.md section 6, C11", note=_COMPOSE_NOTE,
        technique="property-based testing (rapid): stateful model-based testing (model map in lock-step with an instrumented cache) over generated histories",
    ),
    "C16": dict(
        text="Model-based property testing of every listener: all listeners of all eight builders and of the executor are registered into one recorder; the reference model predicts, per execution, each listener's call sequence with its result payload; the recorded calls are compared per listener, plus causal-order invariants (OnRetryScheduled before its OnRetry, OnDone last) and connected breaker state paths with matching specific/generic listeners. Three further tests: concurrent executions sharing one executor and its listeners (each execution's events, attributed through the context, must equal the model's prediction for its own script); executions cancelled while they wait an hour for a bulkhead permit, a limiter permit or a retry delay (rejection / retry / exhaustion listeners must stay silent); goroutines hammering one breaker (the totally ordered listener calls must form a connected path with paired generic/specific calls on every schedule). Sampling, not proof.",
        design_ref="DESIGN.md section 6, C16", note=_COMPOSE_NOTE,
        technique="property-based testing (rapid): predicted event multiset per listener from the sequential composition model + order invariants over the recorded log",
    ),
    "C17": dict(
        text="Model-based property testing of the execution statistics: at every observation point (function entry, every listener, fallback functions, completion events) Attempts/Executions/Retries/Hedges, IsFirstAttempt/IsRetry/IsHedge and LastResult/LastError are compared with the reference model's prediction, and invariants over the recorded log are checked (Attempts == 1 + Retries + Hedges, constant StartTime, monotone elapsed and attempt start times). Hedged executions are checked with the C09 harness (counter bounds while attempts overlap, exact values at quiescence), retried hedged rounds must show Retries() == round-1 at every entry, and an attempt's view of the last result must not change while it runs (read again after a Timeout cancelled it). Sampling, not proof.",
        design_ref="DESIGN.md section 6, C17", note=_COMPOSE_NOTE,
        technique="property-based testing (rapid): predicted observations from the sequential composition model + counter identities over the recorded log",
    ),
})
META.update({
    "C02": dict(
        text="Model-based property testing of the retry policy: sequential scenarios (a retry policy alone or outermost/innermost of a short stack, every budget incl. 0, 1 and unlimited, overlapping handle/abort conditions, ReturnLastFailure, max duration) are compared with the reference model (invocation count, stopping reason, ExceededError carrying the last outcome, OnRetry/OnRetryScheduled/OnAbort/OnRetriesExceeded); up to 32 goroutines then run different scripts through the same policy instances at once and each execution must equal the sequential model of its own script (private budget); with a real max duration, no attempt may follow a failure returned after the duration elapsed. Sampling, not proof.",
        design_ref="DESIGN.md section 6, C02", note=_COMPOSE_NOTE + " Concurrent interleavings are sampled by the Go scheduler, not enumerated.",
        technique="property-based testing (rapid): differential testing against the sequential model, per-execution under concurrency; history invariant for the real max duration",
    ),
    "C12": dict(
        text="Truth-table property testing of failure classification: registration lists of HandleErrors/HandleErrorTypes/HandleResult/HandleIf x outcomes over a rich error universe are evaluated through all three carriers (fallback applied or not, retry retries or not, breaker counts failure or success via executions and RecordResult/RecordError) and, for AbortOn*/CancelOn*, through a retry policy and a hedge policy; the verdicts are compared with an independent matcher written from the documented rules. Lists of length 0..2 over a 22-condition alphabet are enumerated exhaustively against all 80 outcomes on every quick run; longer lists are random; native fuzzing in thorough.",
        design_ref="DESIGN.md section 6, C12",
        note="Trusts the oracle matcher (harness/compose/universe.go: errors.Is, a type walk over Unwrap chains/trees, equality for results only on error-free outcomes, named predicates). Result conditions in abort/cancel lists on error-carrying outcomes are not checked (L5). The hedge carrier repeats a trial whose verdict disagrees, to rule out scheduling effects (L8).",
        technique="property-based testing (rapid) + exhaustive enumeration of the short-list layer: differential testing of three carriers against an independent classification oracle; native fuzzing in thorough",
    ),
})
META.update({
    "C07": dict(
        text="Randomised-trial property testing of the Timeout race: thousands of generated executions (limit 1..20 ms; function duration far below, in a dense band around, far above the limit, or blocking until cancelled; sleeping or spinning; eight placements relative to retry, fallback, hedge, bulkhead and rate limiter; sync and async) run concurrently, and each is judged by an oracle that is true whichever side of the race wins: either the inner result unchanged with the listener never called and the execution not cancelled, or ErrExceeded with exactly one listener call and the execution cancelled; never before the limit; blocking functions always time out; the limit applies afresh per attempt under a retry. Sampling of schedules, not proof.",
        design_ref="DESIGN.md section 6, C07",
        note="Schedules come from real timers and the Go scheduler; only lower-bound timing assertions; absence of a listener call is checked after a grace period, presence is polled for 30 s; a call that has not returned 35 s after a <= 20 ms limit counts as undelivered cancellation.",
        technique="property-based testing (rapid-generated randomised concurrent trials) with a race-agnostic consistency oracle over (result, listener count, cancellation, elapsed time)",
    ),
})
META.update({
    "C09": dict(
        text="Property testing of hedged executions with the schedule owned by the harness: generated hedge counts, per-hedge delays (incl. 0 and 1 h), cancel conditions, per-attempt outcomes and placements; in gated mode every attempt parks on a harness channel and attempts are released in a generated permutation, so completion order is an input and each step has an exact expectation (accepted result returns the call while others are still parked; unaccepted ones do not); in auto mode attempts race with the hedge timers and a race-agnostic oracle judges the recorded log (bounded attempts, spacing lower bounds, result produced by a finished attempt, unaccepted results only after all attempts finished, losers cancelled and winner not at return, nothing started after return). Sampling, not proof.",
        design_ref="DESIGN.md section 6, C09",
        note="Attempts identified by entry order; lower-bound timing only; a cancel-matching result that loses the hand-off race to the final result is accepted when all attempts have finished (L8); real schedules inside the library are sampled.",
        technique="property-based testing (rapid): harness-controlled completion orders (gated attempts + generated DelayFunc) with a step oracle, plus randomised racing trials with a log-invariant oracle",
    ),
})
META.update({
    "C08": dict(
        text="Property testing of cancellation with the cancellation point as a generated input: twelve composition shapes around a retry or hedge policy, four sources (context cancel, context deadline, enclosing Timeout, ExecutionResult.Cancel), fired before submission, from inside attempt k, from inside OnRetryScheduled (the start of a retry wait), from inside an enclosed fallback, from another goroutine after a generated spin, or after completion, with 1-hour retry delays / permit waits / hedge delays pending. A recorded event log is judged: the returned error is the source's error or a result the execution had already completed with, never anything else and never the output of an enclosed fallback; at most one attempt starts after the cancellation took effect; the call returns within 30 s despite the 1 h waits; the function sees the cancellation. Spin batches (thousands of cheap trials) aim at the ~100 ns windows between retry steps. Sampling of schedules, not proof.",
        design_ref="DESIGN.md section 6, C08",
        note="One cancellation source per execution. The marker 'cancellation in effect' is logged only once the context the function sees is done, so bounds on what happens afterwards are sound. Windows narrower than the trial counts can hit are not decided.",
        technique="property-based testing (rapid): generated cancellation points owned by the harness (inside the function / listeners) + randomised spin-race trials, judged by history invariants over a linearised event log",
    ),
})
META.update({
    "C06": dict(
        text="Property testing of the bulkhead under generated concurrent scenarios: executions in three roles (parked holders, bursts, waiters against a full bulkhead), with the bulkhead bare or inside retry / an always-firing timeout / a real hedge / a fallback (or outside a retry), standalone permits taken by the harness, and a generated order of actions (open a gate, cancel an execution while it waits for or holds a permit, take/release standalone permits). Invariants: the in-flight meter inside the function plus standalone permits never exceeds maxConcurrency at any function entry; refused executions never entered the function; ErrFull never with a 1 h max wait; after everything finished exactly maxConcurrency permits can be acquired (a permit that is late comes back within the polling period, a lost one never does); a double release shows as a goroutine blocked in ReleasePermit. Sampling of schedules, not proof.",
        design_ref="DESIGN.md section 6, C06",
        note="Schedules are produced by harness gates plus the Go scheduler; the meter is conservative (never over-estimates permits in use).",
        technique="property-based testing (rapid): generated concurrent scenarios with harness-owned gates and cancellation points, history invariants (in-flight meter, permit conservation probe)",
    ),
})
META.update({
    "C04": dict(
        text="Property testing of the breaker under concurrent executions on a frozen virtual clock, with the schedule owned by the harness where it matters: a generated batch races against the closing breaker (anything submitted after OnOpen was observed must be refused with ErrOpen and never reach the function, however it is wrapped); executions against the open breaker never get through; after the clock jumps past the delay, trials are submitted one by one with the reference breaker in lock-step, or all at once racing for permits (exactly the trial capacity may enter); trials end by result, error, timeout, cancellation or a rejection further in, are completed in a generated order with the model in lock-step, and at quiescence the free trial permits are probed. Sampling of schedules, not proof.",
        design_ref="DESIGN.md section 6, C04",
        note="Trusts the reference breaker (harness/cbmodel) and the clock hook. The half-open bound is claimed only when nothing admitted before opening is in flight (the harness enforces quiescence). Data races on the breaker's state are C14's subject (race detector).",
        technique="property-based testing (rapid): generated concurrent scenarios with harness-owned gates on virtual time, admission invariants plus a reference-model lock-step over the serialised completions",
    ),
})
META.update({
    "C15": dict(
        text="Two generated-input checks. Differential (model-free): generated composition scenarios are run on fresh instances through the synchronous and through the asynchronous entry points and must return the same values, errors and invocation counts step by step. Protocol: every attempt is parked on a harness gate while up to 16 reader goroutines issue generated sequences of IsDone / Done / Get / Result / Error calls and the harness issues Cancel at generated points; a linearised log is judged: listeners precede anything that observed completion, Get/Result/Error never return before Done is closed, Done closed implies IsDone, all readers get identical values forever, values equal the sequential protocol, a Cancel that lands before completion under a retry or hedge policy yields ErrExecutionCanceled (also when an inner Timeout had just ended the attempt, and in batches of spin-timed Cancels against a zero-delay retry loop), Cancel after completion changes nothing. Sampling, not proof.",
        design_ref="DESIGN.md section 6, C15",
        note="The harness owns the execution's progress (gated attempts); reader interleavings are sampled by the Go scheduler. The narrow Cancel-vs-retry-initialisation window (D2) is exercised by spin trials here and in C08.",
        technique="property-based testing (rapid): differential sync-vs-async runs of generated scenarios + generated reader/cancel programs against gated executions with history invariants",
    ),
})
META.update({
    "C13": dict(
        text="Property testing of the retry delay envelope over generated delay configurations (fixed, backoff with any factor, random range, delay function; jitter duration or factor; max duration) at magnitudes from microseconds to hours. Black box: every delay reported by OnRetryScheduled is non-negative, inside the configured envelope widened by the jitter, never past the remaining max duration (bounded on both sides by elapsed times sampled before and after the policy's own reading), and the next attempt never starts before it elapsed (lower bound on monotonic time). Probe: consecutive delays of one retry executor on a virtual elapsed time, at magnitudes that cannot be waited for, checked against the stepwise backoff sequence (never above maxDelay, never decreasing, jitter not accumulating) with an exact clamp. Sampling, not proof.",
        design_ref="DESIGN.md section 6, C13",
        note="Tolerances: one nanosecond and 1e-6 relative per backoff step, 1e-5 relative for the jitter factor (float32 arithmetic); absolute bounds exact. The probe uses the verif hook retrypolicy.VerifDelayProbe.",
        technique="property-based testing (rapid): interval oracle over generated delay configurations, black-box (listener + timestamps) and through a delay probe; native fuzzing in thorough",
    ),
})
META.update({
    "C14": dict(
        text="Generated concurrent programs under the Go race detector: random compositions of all eight policy kinds with shared stateful instances, many goroutines running sync / async / cancelled executions with firing timeouts, real hedging and zero-delay retries, more goroutines hammering the standalone APIs, and listeners/functions that read every accessor they are handed. The verdict on data races is the detector's (it depends on happens-before, not on the race manifesting); reports are parsed by the driver, attributed to module frames and de-duplicated by the pair of top module frames; panics crash the test process and a 60 s watchdog with a goroutine dump catches deadlocks. The per-execution semantic properties under concurrency are checked by C02 (shared budget), C04, C05 (linearizability), C06, C09, C15.",
        design_ref="DESIGN.md section 6, C14",
        note="Only code paths the generated programs execute are judged. Built with -race (first build ~40 s).",
        technique="property-based testing (rapid): generated concurrent programs with the Go race detector, a crash detector and a hang watchdog as oracles",
    ),
})
META.update({
    "C18": dict(
        text="Property testing of the HTTP and gRPC adapters against real loopback traffic and recording peers. HTTP: generated requests (method, URL, headers, every body kind an http.Request can carry, sizes up to 1 MiB), request and executor context kinds, policy stacks (the package's retry policy, timeout, hedge with and without overlapping attempts, breaker, fallback), both entry points, and a scripted server answer per attempt (statuses, Retry-After, early / chunked / truncated responses, closed connections, a caller that cancels mid-response); the oracle compares every request the server received with the original, the number of attempts with the documented retry rules, Retry-After as a lower bound, the returned response and its fully read body with what the server sent, and the context seen by an inner recording RoundTripper (caller's values and deadline present, done when the caller cancels). gRPC: both interceptors driven directly with recording invokers/handlers: arguments, reply and errors pass through, only UNAVAILABLE / DEADLINE_EXCEEDED / RESOURCE_EXHAUSTED are retried, the context carries the caller's values, deadline, outgoing/incoming metadata and cancellation; the same over a real ClientConn/Server pair on an in-memory connection, judged by what arrives on the wire. Sampling, not proof.",
        design_ref="DESIGN.md sections 6 and 12, C18",
        note="One open finding (D9) is excluded by construction, counted, and reproduced separately. The inner transport disables keep-alives so that net/http's own transparent re-sends do not count as attempts. gRPC is exercised at the interceptor boundary with recording peers and end to end over an in-memory connection (bufconn), not over TCP.",
        technique="property-based testing (rapid): round-trip / differential oracle (request received == request sent, response returned == response served) over generated requests, contexts, policy stacks and server scripts",
    ),
})
META.update({
    "C19": dict(
        text="Property testing for leftovers: generated scenarios (core executions that start async runners, hedge attempts, timeout and delay timers and permit waits, ended by success, failure, timeout, context cancellation or ExecutionResult.Cancel; HTTP calls through a private transport with retried statuses, hedged losers and merged contexts; gRPC interceptor calls with merged contexts; composition scenarios of the C01 generator) are each repeated many times; afterwards, with the caller's contexts still alive and idle connections closed, a goroutine dump is polled for up to 30 s: no goroutine may keep a frame of the module or of an HTTP client connection, and the number of goroutines may not have grown. Sampling, not proof.",
        design_ref="DESIGN.md section 6, C19",
        note="Residue without a goroutine (an armed timer without effect, a context registration that is never released) is invisible to this oracle. Scenarios run sequentially within a process so that leftovers are attributable.",
        technique="property-based testing (rapid): generated scenarios with a runtime goroutine-dump oracle (module / connection frames, growth over repetitions)",
    ),
})
NOT_APPLICABLE = [dict(property_id=p, reason="check not built yet in this session (work in progress; DESIGN.md section 6 describes the planned property-based check)") for p in ALL if p not in META]

# Extensions made after the seeded-change rounds and the mutation sweep (DESIGN.md section 12.6): appended to the level texts.
_ADDED = {
    "C01": " Also generated: executions whose context is already cancelled, instances that register only some of their listeners, instances built through the convenience constructors, executions through the package-level failsafe.Get* functions, and a recording retry delay function.",
    "C04": " Configurations cover count, ratio, count-in-period and rate-in-period thresholds; in half of the scenarios the OnOpen listener is slow and further executions are submitted while it runs.",
    "C05": " A hammer test keeps 3..8 persistent workers in lock-step through a spin barrier for hundreds of linearized rounds per case; all limiter constructors are exercised.",
    "C07": " One trial in three builds its Timeout as one of several from a shared builder with different listeners; a further test cancels the caller's context during an attempt that follows attempts ended by the Timeout (no ErrExceeded before that attempt's limit could elapse).",
    "C10": " A further test re-reads the fallback function's view of the failure after a cancellation (Timeout, ExecutionResult.Cancel, context) landed while the function runs.",
    "C12": " A further test uses policies over R = any with pointer, slice, map and struct results built separately from the registered values (deep equality vs identity).",
    "C13": " Configurations may be preceded by builder calls the documentation says are replaced; the probe interleaves a second execution through the same policy instance.",
    "C15": " A further test parks the hedge policy's goroutine in user code while a result and a Cancel both become pending.",
    "C16": " Instances may register only a subset of their listeners; a further test runs Hedge(Retry(fn)) with gated and burst schedules of overlapping failing branches.",
    "C18": " Further: transport error classes (terminal vs retryable, exact attempt counts), overlapping uploads of hedged attempts (6 MiB bodies held back by the server), and over bufconn a tap handle with a load limiting policy.",
    "C19": " HTTP scenarios include retries rejected by an inner breaker or rate limiter, request bodies whose rewind fails, outages, hedges with custom cancel conditions answered simultaneously, and hand-written request contexts.",
}
# Rounds 14-16 (DESIGN.md section 12.6)
_ADDED2 = {
    "C04": " While the breaker is open the injected clock may read earlier than when it opened (a wall clock set back).",
    "C05": " Max waits include 'for ever' (the largest duration and just below).",
    "C08": " Further: a full no-wait bulkhead entered with a done context, and HTTP attempts whose request must observe a Timeout firing or a hedge abandoning it whatever the caller's contexts carry.",
    "C09": " Further tests: the all-attempts-finished path over several retry rounds and with a retry policy inside every attempt; attempts failing on their own with a cancellation-looking error.",
    "C10": " Error types that cannot be compared with == are classified through the fallback carrier of the C12 harness.",
    "C11": " The Executor may be given a context twice (the later one counts) and a cache key may be replaced on the builder.",
    "C12": " Targets and outcomes of error types that cannot be compared with == (slice- and map-based errors with an Is method).",
    "C15": " Cancel may be called twice in a row or from two goroutines; an execution that stops making progress is a violation.",
    "C16": " The hedged-retry test also requires one policy OnFailure event per result the handle predicate called a failure, with a slow abort predicate between the policy's steps; a Timeout's listener is checked when the caller cancelled first; a limiter wait cancelled after an earlier real refusal must stay silent.",
    "C17": " Further tests: IsHedge across retries inside a hedged branch; flags and counters in the listeners of policies inside a hedge.",
    "C19": " A further test decides 'responses the adapter does not return are closed' directly, with an inner RoundTripper whose response bodies record Close.",
    "C18": " Further: attempts whose request must be abandoned when a Timeout fires or the hedge policy drops the loser, for every kind of caller context.",
}
_ADDED = {k: _ADDED.get(k, "") + _ADDED2.get(k, "") for k in set(_ADDED) | set(_ADDED2)}
for _k, _v in _ADDED.items():
    META[_k]["text"] = META[_k]["text"] + _v
