#!/bin/bash
# usage: tools/run_all.sh quick|thorough [ids...]   -- runs the checks one after the other, prints one line each
tier=${1:-quick}; shift
ids=${@:-C01 C02 C03 C04 C05 C06 C07 C08 C09 C10 C11 C12 C13 C14 C15 C16 C17 C18 C19}
cd "$(dirname "$0")/.."
for p in $ids; do
  out=$(./check $p $tier 2>&1); rc=$?
  echo "$p rc=$rc $(echo "$out" | grep -E "^C[0-9]+ (quick|thorough):" | head -1)"
  echo "$out" | grep -E "^VIOLATION|^INCONCLUSIVE|^  sig=" | head -5
done
