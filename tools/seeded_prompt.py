#!/usr/bin/env python3
"""tools/seeded_prompt.py <PROP> <round> : print the instructions for a sub-agent that writes breaking changes for
one property (the text of seeded/PROMPT.md with the property, the scratch worktree and the list of changes already
tried filled in). The worktree is /tmp/wt/r<round>_<prop>; results go to its SEEDED<round>/ directory."""
import glob, json, os, sys
ROOT = os.path.dirname(os.path.dirname(os.path.abspath(__file__)))


def main():
    prop, rnd = sys.argv[1], sys.argv[2]
    p = None
    for l in open(os.path.join(ROOT, "properties.jsonl")):
        d = json.loads(l)
        if d["id"] == prop:
            p = d
    wt = "/tmp/wt/r%s_%s" % (rnd, prop.lower())
    out = "%s/SEEDED%s" % (wt, rnd)
    tried = []
    for m in sorted(glob.glob(os.path.join(ROOT, "seeded", prop + "-*", "meta.json"))):
        j = json.load(open(m))
        tried.append("- %s: %s" % (j.get("name"), (j.get("summary") or "")[:400]))
    print(f"""You are helping to evaluate a verification effort for the Go library failsafe-go (resilience policies: retry, circuit breaker, rate limiter, bulkhead, timeout, hedge, fallback, cache, plus HTTP/gRPC adapters).

You have your own scratch git worktree of the library at: {wt}
Work ONLY inside that directory (and {wt}_scratch if you need more scratch space). Do not read or touch /repo or /verif or any other directory under /tmp/wt. The sandbox has no network. Use this environment for every go command:
  export GOFLAGS=-mod=mod GOPROXY=off GOSUMDB=off GOTOOLCHAIN=local
(If `git status` shows go.sum modified after a go command, restore it with `git checkout go.sum`.) Do not use `git stash` (the stash is shared between worktrees).

THE PROPERTY (a semantic property the library is supposed to satisfy):
  Title: {p['title']}
  Statement: {p['statement']}
  Quantified over: {p['quantifier']['text']}

YOUR TASK: produce TWO different, realistic source changes to the library (each one separately, each starting from the clean worktree) that BREAK this property, such that each change:
  1. still compiles (`go build ./...`; note that `go vet` complains about unkeyed struct literals in existing tests, ignore that),
  2. still passes the library's existing test suite: run `go test -count=1 ./...` from {wt} with and without your change. Known on the UNCHANGED tree: `examples` TestCache always fails (needs network) and `test` TestRetryPolicyTimeout fails in about 1% of runs because of timing; everything else passes. Your change must not make any other test fail (re-run a test that fails once on its own to see whether it is flaky: several other engineers are running test suites on this machine at the same time).
  3. is the kind of mistake a maintainer could plausibly make in a refactoring or "optimisation" (a dropped check, a reordered statement, a wrong comparison, state shared that should be per execution, a missing lock/unlock or release on one exit path, a lost cancellation check, an off-by-one at a boundary, ...), NOT an obviously malicious or absurd edit, and touches only non-test files of the library.
  4. needs something SPECIFIC to manifest: a particular interleaving of goroutines, a cancellation/timeout/failure at a particular point, a multi-step sequence of operations or a particular history of calls, an unusual but legal input or configuration, a boundary value, or two cooperating sites that each look fine alone. Changes that every ordinary use of the feature would expose at once are NOT wanted.
The two changes should use different mechanisms / different code sites.

ALREADY TRIED for this property in earlier rounds (do NOT repeat these or trivial variants of them; look for other code sites and other mechanisms):
{chr(10).join(tried)}

PREFERENCE for this round: at least one of your two changes should manifest only under a particular interleaving of goroutines, or a cancellation / timeout / failure arriving at a particular moment, or a particular multi-step history of calls against shared policy instances, or require two cooperating code sites that each look fine alone, or an unusual but legal configuration or input type. Purely configuration-dependent deterministic bugs are acceptable for the other one.

For EACH change deliver, in the directory {out}/<short-name>/ :
  - patch.diff : the change as produced by `git diff` from the clean worktree (must apply with `git apply` to a clean checkout),
  - a demonstration: either a Go test file (say demo_test.go, with a comment at the top saying into which package directory of the library it must be copied to run, and carrying a build tag such as //go:build seeded_demo so that `go test ./...` does not pick it up) or a small main program, which FAILS (or prints a clear wrong result) with the change applied and PASSES without it. If the manifestation is probabilistic (a race), the demo must loop enough to fail reliably within about 60 seconds with the change, and still pass reliably without it. The demo may use the verif build tag hooks if they help (files */verif_hooks.go, built with `-tags verif`), but does not have to.
  - meta.json : {{"property": "{prop}", "name": "<short-name>", "summary": "<what the change does>", "needs": "<what specific situation is needed for it to manifest>", "demo_cmd": "<exact command(s) you ran for the demo, from the worktree root>", "suite_result": "<what `go test -count=1 ./...` showed with the change>"}}
Leave the worktree itself CLEAN at the end (git status shows only the untracked {os.path.basename(out)} directory): `git checkout -- .` after producing each patch.

Verify everything yourself before finishing: apply patch -> build -> full suite -> demo fails; revert -> demo passes. Finish within about 20 minutes. Report briefly what the two changes are and the commands you ran. If you cannot find a second change that meets all criteria, deliver one and say so.""")


main()
