#!/bin/bash
# usage: tools/seeded_take.sh <PROP> <round>   -- import every change a sub-agent left in /tmp/wt/r<round>_<prop>/SEEDED<round>/,
# verify each in a scratch worktree and run the property's own quick check against it (both leave /repo alone)
P=$1; R=$2; p=$(echo $P | tr A-Z a-z)
cd "$(dirname "$0")/.."
for d in /tmp/wt/r${R}_$p/SEEDED$R/*/; do
  [ -f "$d/patch.diff" ] || continue
  sid=$(python3 tools/seeded.py import $P "$d")
  python3 - "$sid" "$R" <<'PY'
import json,sys
p="seeded/%s/meta.json"%sys.argv[1]; m=json.load(open(p)); m["round"]=int(sys.argv[2]); m["base"]="97e7ce4"; json.dump(m,open(p,"w"),indent=1)
PY
  ( python3 tools/seeded.py verify $sid 2>&1 | tail -1 ) &
  ( python3 tools/seeded.py check $sid 2>&1 | grep -E "^==|^   " ) &
  wait
done
