// mutgen lists small syntactic mutations of a Go source file as text replacements (JSON on stdout).
// It is a sensitivity-testing aid for the checks in /verif; it never touches /repo itself.
package main

import (
	"encoding/json"
	"fmt"
	"go/ast"
	"go/parser"
	"go/token"
	"os"
	"strconv"
)

type mutant struct {
	File  string `json:"file"`
	Line  int    `json:"line"`
	Start int    `json:"start"`
	End   int    `json:"end"`
	New   string `json:"new"`
	Desc  string `json:"desc"`
	Func  string `json:"func"`
}

var swaps = map[token.Token][]token.Token{
	token.LSS: {token.LEQ}, token.LEQ: {token.LSS}, token.GTR: {token.GEQ}, token.GEQ: {token.GTR},
	token.EQL: {token.NEQ}, token.NEQ: {token.EQL}, token.LAND: {token.LOR}, token.LOR: {token.LAND},
	token.ADD: {token.SUB}, token.SUB: {token.ADD},
}

// MUTGEN_OPS=2 selects the second operator set (dropped clauses of && / ||, deleted if statements without else, deleted
// select cases, min <-> max) instead of the first.
func main() {
	second := os.Getenv("MUTGEN_OPS") == "2"
	file := os.Args[1]
	src, err := os.ReadFile(file)
	if err != nil {
		panic(err)
	}
	fset := token.NewFileSet()
	f, err := parser.ParseFile(fset, file, src, 0)
	if err != nil {
		panic(err)
	}
	var out []mutant
	off := func(p token.Pos) int { return fset.Position(p).Offset }
	line := func(p token.Pos) int { return fset.Position(p).Line }
	for _, d := range f.Decls {
		fd, ok := d.(*ast.FuncDecl)
		if !ok || fd.Body == nil {
			continue
		}
		name := fd.Name.Name
		if name == "String" || name == "Error" {
			continue
		}
		add := func(p, e token.Pos, nw, desc string) {
			out = append(out, mutant{File: file, Line: line(p), Start: off(p), End: off(e), New: nw, Desc: desc, Func: name})
		}
		if second {
			ast.Inspect(fd.Body, func(n ast.Node) bool {
				switch x := n.(type) {
				case *ast.BinaryExpr:
					if x.Op == token.LAND || x.Op == token.LOR {
						l := string(src[off(x.X.Pos()):off(x.X.End())])
						r := string(src[off(x.Y.Pos()):off(x.Y.End())])
						add(x.Pos(), x.End(), l, fmt.Sprintf("drop right clause of %s", x.Op))
						add(x.Pos(), x.End(), r, fmt.Sprintf("drop left clause of %s", x.Op))
					}
				case *ast.IfStmt:
					if x.Else == nil && x.Init == nil {
						add(x.Pos(), x.End(), "", "delete if statement")
					}
				case *ast.SelectStmt:
					if len(x.Body.List) >= 2 {
						for _, c := range x.Body.List {
							add(c.Pos(), c.End(), "", "delete select case")
						}
					}
				case *ast.CallExpr:
					if id, ok := x.Fun.(*ast.Ident); ok && (id.Name == "min" || id.Name == "max") {
						nw := "max"
						if id.Name == "max" {
							nw = "min"
						}
						add(id.Pos(), id.End(), nw, id.Name+" -> "+nw)
					}
				}
				return true
			})
			continue
		}
		ast.Inspect(fd.Body, func(n ast.Node) bool {
			switch x := n.(type) {
			case *ast.BinaryExpr:
				for _, to := range swaps[x.Op] {
					if x.Op == token.ADD || x.Op == token.SUB {
						// skip string concatenation
						if bl, ok := x.X.(*ast.BasicLit); ok && bl.Kind == token.STRING {
							continue
						}
						if bl, ok := x.Y.(*ast.BasicLit); ok && bl.Kind == token.STRING {
							continue
						}
					}
					add(x.OpPos, x.OpPos+token.Pos(len(x.Op.String())), to.String(), fmt.Sprintf("%s -> %s", x.Op, to))
				}
			case *ast.UnaryExpr:
				if x.Op == token.NOT {
					add(x.OpPos, x.OpPos+1, "", "drop !")
				}
			case *ast.IfStmt:
				if x.Cond != nil {
					c := string(src[off(x.Cond.Pos()):off(x.Cond.End())])
					add(x.Cond.Pos(), x.Cond.End(), "!("+c+")", "negate if condition")
				}
			case *ast.ExprStmt:
				if _, ok := x.X.(*ast.CallExpr); ok {
					add(x.Pos(), x.End(), "", "delete call statement")
				}
			case *ast.DeferStmt:
				add(x.Pos(), x.End(), "", "delete defer")
			case *ast.GoStmt:
			case *ast.AssignStmt:
				if x.Tok == token.ASSIGN && len(x.Lhs) == 1 {
					add(x.Pos(), x.End(), "", "delete assignment")
				}
			case *ast.IncDecStmt:
				add(x.Pos(), x.End(), "", "delete inc/dec")
			case *ast.ReturnStmt:
				for _, r := range x.Results {
					if id, ok := r.(*ast.Ident); ok && (id.Name == "true" || id.Name == "false") {
						nw := "true"
						if id.Name == "true" {
							nw = "false"
						}
						add(id.Pos(), id.End(), nw, "flip returned bool")
					}
				}
			case *ast.BasicLit:
				if x.Kind == token.INT {
					if v, err := strconv.Atoi(x.Value); err == nil {
						nw := strconv.Itoa(v + 1)
						if v == 1 {
							nw = "0"
						}
						add(x.Pos(), x.End(), nw, fmt.Sprintf("int %d -> %s", v, nw))
					}
				}
			}
			return true
		})
	}
	json.NewEncoder(os.Stdout).Encode(out)
}
