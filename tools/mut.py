#!/usr/bin/env python3
"""Sensitivity helper: apply a one-off textual mutation to /repo's working tree, run checks, always revert.
usage: tools/mut.py <name> <file> <old> <new> <ID>[,<ID>...] [tier]
Never commits anything to /repo. Refuses to run when /repo has uncommitted changes."""
import subprocess, sys, time, os
name, path, old, new, ids = sys.argv[1:6]
tier = sys.argv[6] if len(sys.argv) > 6 else "quick"
st = subprocess.run(["git", "-C", "/repo", "status", "--porcelain"], capture_output=True, text=True).stdout.strip()
if st:
    sys.exit("refusing: /repo is dirty:\n" + st)
p = os.path.join("/repo", path)
s = open(p).read()
if old not in s:
    sys.exit("pattern not found in %s: %r" % (path, old))
open(p, "w").write(s.replace(old, new, 1))
env = dict(os.environ, GOFLAGS="-mod=mod", GOPROXY="off", GOSUMDB="off", GOTOOLCHAIN="local")
try:
    b = subprocess.run(["go", "build", "./..."], cwd="/repo", env=env, capture_output=True, text=True)
    if b.returncode != 0:
        print("== %s: DOES NOT COMPILE\n%s" % (name, b.stderr[:400]))
    else:
        for pid in ids.split(","):
            t0 = time.time()
            r = subprocess.run(["/verif/check", pid, tier], capture_output=True, text=True, env=env)
            lines = [l for l in r.stdout.splitlines() if l.startswith(("VIOLATION", "  sig=", "INCONCLUSIVE", "KNOWN"))]
            print("== %s [%s %s] rc=%d %.1fs" % (name, pid, tier, r.returncode, time.time() - t0))
            for l in lines[:4]:
                print("   " + l[:260])
finally:
    subprocess.run(["git", "-C", "/repo", "checkout", "--", "."], check=True)
    # evidence written while /repo was mutated must not survive
    for pid in ids.split(","):
        subprocess.run(["git", "-C", "/verif", "checkout", "--", "evidence/%s.json" % pid], capture_output=True)
