#!/usr/bin/env python3
"""Writes seeded/RESULTS.md from the meta.json files."""
import json, os, glob
ROOT = os.path.dirname(os.path.dirname(os.path.abspath(__file__)))
rows = []
for d in sorted(glob.glob(os.path.join(ROOT, "seeded", "C*"))):
    m = json.load(open(os.path.join(d, "meta.json")))
    v = m.get("verified", {})
    ok = v.get("applies") and v.get("builds") and v.get("suite_ok") and v.get("demo_fails_with_patch") and v.get("demo_passes_without_patch")
    checks = m.get("checks", {})
    caught = [k for k, c in checks.items() if c["rc"] == 1]
    missed = [k for k, c in checks.items() if c["rc"] == 0]
    sigs = sorted({s for c in checks.values() for s in c.get("sigs", [])})
    rows.append((os.path.basename(d), m.get("property"), "yes" if ok else "NO: " + json.dumps({k: v.get(k) for k in ("applies", "builds", "suite_ok", "demo_fails_with_patch", "demo_passes_without_patch", "suite_failures_with_patch")}),
                 ", ".join(caught) or "-", ", ".join(missed) or "-", ", ".join(sigs)[:160], (m.get("needs") or "")[:200].replace("\n", " ").replace("|", "/"), (m.get("note") or v.get("note") or "").replace("|", "/")))
with open(os.path.join(ROOT, "seeded", "RESULTS.md"), "w") as f:
    f.write("# Independently written breaking changes and the checks that catch them\n\n")
    f.write("Each change was written by a fresh sub-agent that saw only the property text and a scratch worktree of the library. "
            "`confirmed` = in a scratch worktree the patch applies, builds, the existing suite passes (apart from the baseline's always-failing `examples::TestCache`), "
            "the demonstration fails with the patch and passes without it (`tools/seeded.py verify`). `caught by` / `not caught by` = quick-tier runs of the named checks with the patch applied to /repo's working tree (`tools/seeded.py check`), reverted afterwards.\n\n")
    f.write("| id | property | confirmed | caught by | not caught by | signatures | needs | note |\n|---|---|---|---|---|---|---|---|\n")
    for r in rows:
        f.write("| " + " | ".join(str(x) for x in r) + " |\n")
print("%d seeded changes; %d caught by at least one check" % (len(rows), sum(1 for r in rows if r[3] != "-")))
