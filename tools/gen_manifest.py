#!/usr/bin/env python3
"""Writes MANIFEST.json from checks_config.py + manifest_meta.py (single source of truth for commands)."""
import json, os, sys
ROOT = os.path.dirname(os.path.dirname(os.path.abspath(__file__)))
sys.path.insert(0, ROOT)
from checks_config import PROPS
from manifest_meta import META, NOT_APPLICABLE, HOOK_COMMITS
checks = []
for pid in sorted(PROPS):
    m = META[pid]
    checks.append(dict(
        property_id=pid,
        quick_cmd="./check %s quick" % pid,
        thorough_cmd="./check %s thorough" % pid,
        evidence_file="/verif/evidence/%s.json" % pid,
        replay_cmd_template="./check %s --replay {path}" % pid,
        engine="rapid-go",
        level_claimed=dict(category="exploration", text=m["text"], design_ref=m["design_ref"]),
        level_note=m["note"],
        technique=m["technique"],
    ))
man = dict(
    version=1,
    setup_cmd="./check --setup",
    hooks=dict(
        guard="verif",
        enable="go test -tags verif (the driver passes the tag when it builds each check against /repo through the replace directive in /verif/go.mod)",
        baseline_off_cmd="cd /repo && go test -json -vet=off -count=1 -timeout 25m ./...",
        source_commits=HOOK_COMMITS,
        add_only=True,
    ),
    engines=[dict(name="rapid-go", path="/verif/check", serves_properties=sorted(PROPS),
                  kind_free_text="property-based testing with pgregory.net/rapid v1.3.0 (generators, state-machine style histories, shrinking, fail files), sharded by seed over 16 cores by a python driver; native go test -fuzz via rapid.MakeFuzz in the thorough tier of the deterministic checks; Go race detector as oracle for C14")],
    checks=checks,
    notes="Known findings: /verif/KNOWN_FINDINGS.txt. Design: /verif/DESIGN.md. Every check rebuilds from /repo's working tree (replace directive).",
    not_applicable=NOT_APPLICABLE,
)
json.dump(man, open(os.path.join(ROOT, "MANIFEST.json"), "w"), indent=1)
print("MANIFEST.json: %d checks, %d not applicable" % (len(checks), len(NOT_APPLICABLE)))
