#!/usr/bin/env python3
"""Mutation sweep: syntactic mutants of the library (tools/mutgen) are applied one at a time to scratch worktrees of /repo;
a mutant that compiles and survives the repository's own test suite is handed to the checks of the properties its package
belongs to (VERIF_REPO=<worktree>, quick tier). Results go to a JSONL file. /repo itself is never touched.

  tools/mutate_all.py --out /tmp/mw/results.jsonl [--workers 4] [--files a.go,b.go] [--sample N] [--seed S]
"""
import argparse, json, os, queue, random, subprocess, sys, threading, time

ROOT = os.path.dirname(os.path.dirname(os.path.abspath(__file__)))
ENV = dict(os.environ, GOFLAGS="-mod=mod", GOPROXY="off", GOSUMDB="off", GOTOOLCHAIN="local")

FILES = """execution.go executor.go result.go
policy/policy.go policy/policyexecutor.go common/result.go
retrypolicy/retry.go retrypolicy/retryexecutor.go
circuitbreaker/circuitbreaker.go circuitbreaker/circuitstates.go circuitbreaker/circuitstats.go circuitbreaker/circuitbreakerexecutor.go circuitbreaker/circuitbreakerbuilder.go
ratelimiter/ratelimiter.go ratelimiter/ratelimiterstats.go ratelimiter/ratelimiterexecutor.go
bulkhead/bulkhead.go bulkhead/bulkheadexecutor.go
timeout/timeout.go timeout/timeoutexecutor.go
hedgepolicy/hedge.go hedgepolicy/hedgeexecutor.go
fallback/fallback.go fallback/fallbackexecutor.go
cachepolicy/cache.go cachepolicy/cacheexecutor.go
failsafehttp/http.go failsafehttp/policy.go
failsafegrpc/client.go failsafegrpc/server.go failsafegrpc/policy.go
internal/util/util.go internal/execution.go""".split()

CHECKS = {
    "": ["C01", "C15", "C17", "C08", "C07", "C14", "C16", "C02", "C09", "C19", "C10"],
    "policy": ["C12", "C01", "C10", "C16"],
    "common": ["C01", "C16"],
    "retrypolicy": ["C02", "C13", "C12", "C01", "C16", "C08", "C17", "C14"],
    "circuitbreaker": ["C03", "C04", "C12", "C01", "C16", "C14"],
    "ratelimiter": ["C05", "C01", "C08", "C16", "C14"],
    "bulkhead": ["C06", "C01", "C08", "C16"],
    "timeout": ["C07", "C01", "C08", "C16"],
    "hedgepolicy": ["C09", "C12", "C08", "C17", "C01", "C19"],
    "fallback": ["C10", "C12", "C01", "C08", "C16"],
    "cachepolicy": ["C11", "C01", "C16"],
    "failsafehttp": ["C18", "C19", "C13"],
    "failsafegrpc": ["C18", "C19"],
    "internal/util": ["C18", "C19", "C12", "C13", "C05"],
    "internal": ["C01", "C12"],
}


def sh(cmd, cwd, timeout):
    try:
        p = subprocess.run(cmd, cwd=cwd, env=ENV, shell=True, capture_output=True, text=True, timeout=timeout)
        return p.returncode, p.stdout + p.stderr
    except subprocess.TimeoutExpired as e:
        return 124, "TIMEOUT"


def worker(i, q, out, lock, pkgs):
    wt = "/tmp/mw/w%d" % i
    subprocess.run(["git", "-C", "/repo", "worktree", "remove", "--force", wt], capture_output=True)
    subprocess.run(["git", "-C", "/repo", "worktree", "add", "-q", "--detach", wt, "HEAD"], check=True)
    try:
        while True:
            try:
                m = q.get_nowait()
            except queue.Empty:
                return
            path = os.path.join(wt, m["file"])
            orig = open(path).read()
            b = orig.encode()
            mutated = (b[:m["start"]] + m["new"].encode() + b[m["end"]:]).decode()
            res = dict(m, status="", detail="", t=0)
            t0 = time.time()
            try:
                open(path, "w").write(mutated)
                rc, o = sh("go build ./... && go build -tags verif ./...", wt, 300)
                if rc != 0:
                    res["status"] = "nocompile"
                    continue
                d = os.path.dirname(m["file"])
                rc, o = sh("go test -count=1 -timeout 240s ./%s/... 2>&1 | tail -5" % (d or "."), wt, 400) if d else (0, "")
                if rc == 0 and ("FAIL" in o or "panic:" in o):
                    rc = 1
                if rc == 0:
                    rc, o = sh("go test -count=1 -timeout 280s %s 2>&1 | grep -E '^(FAIL|--- FAIL|panic)' | head -5" % pkgs, wt, 600)
                    if o.strip():
                        rc = 1
                if rc != 0:
                    res["status"], res["detail"] = "suite-killed", o.strip()[:200]
                    continue
                caught = None
                for pid in CHECKS.get(d, ["C01"]):
                    e = dict(ENV, VERIF_REPO=wt)
                    try:
                        p = subprocess.run([os.path.join(ROOT, "check"), pid, "quick"], cwd=ROOT, env=e, capture_output=True, text=True, timeout=900)
                        rc2, o2 = p.returncode, p.stdout
                    except subprocess.TimeoutExpired:
                        rc2, o2 = 124, "TIMEOUT"
                    if rc2 == 1:
                        sigs = [l.strip()[:160] for l in o2.splitlines() if l.startswith("  sig=")]
                        caught = pid
                        res["detail"] = "; ".join(sigs[:2])
                        break
                    if rc2 in (2, 124):
                        res.setdefault("inconclusive", []).append(pid)
                res["status"] = ("caught:" + caught) if caught else "survived"
            finally:
                open(path, "w").write(orig)
                res["t"] = round(time.time() - t0, 1)
                with lock:
                    out.write(json.dumps(res) + "\n")
                    out.flush()
    finally:
        subprocess.run(["git", "-C", "/repo", "worktree", "remove", "--force", wt], capture_output=True)


def main():
    ap = argparse.ArgumentParser()
    ap.add_argument("--out", required=True)
    ap.add_argument("--workers", type=int, default=4)
    ap.add_argument("--files", default="")
    ap.add_argument("--sample", type=int, default=0)
    ap.add_argument("--seed", type=int, default=1)
    ap.add_argument("--rerun", default="", help="results file of an earlier sweep: re-run its survivors (carried onto /repo's HEAD by line content) against the current checks")
    ap.add_argument("--base", default="", help="with --rerun: the commit the earlier sweep's offsets refer to")
    a = ap.parse_args()
    if a.rerun:
        return rerun(a)
    files = a.files.split(",") if a.files else FILES
    done = set()
    if os.path.exists(a.out):
        for l in open(a.out):
            try:
                r = json.loads(l)
                done.add((r["file"], r["start"], r["end"], r["new"]))
            except Exception:
                pass
    muts = []
    for f in files:
        p = subprocess.run([os.path.join(ROOT, ".build", "mutgen"), os.path.join("/repo", f)], capture_output=True, text=True)
        for m in json.loads(p.stdout or "[]") or []:
            m["file"] = f
            if (m["file"], m["start"], m["end"], m["new"]) not in done:
                muts.append(m)
    random.Random(a.seed).shuffle(muts)
    if a.sample:
        muts = muts[:a.sample]
    print("%d mutants to run (%d already done)" % (len(muts), len(done)), flush=True)
    rc, o = sh("go list ./... | grep -v examples | tr '\\n' ' '", "/repo", 60)
    pkgs = o.strip()
    q = queue.Queue()
    for m in muts:
        q.put(m)
    os.makedirs(os.path.dirname(a.out), exist_ok=True)
    out = open(a.out, "a")
    lock = threading.Lock()
    ts = [threading.Thread(target=worker, args=(i, q, out, lock, pkgs)) for i in range(a.workers)]
    for t in ts:
        t.start()
    for t in ts:
        t.join()


def rerun(a):
    """Survivors of an earlier sweep, translated from the base commit's byte offsets to HEAD: the mutated token is located
    through its line's content (the nearest identical line) and its column."""
    muts, lost = [], 0
    cache = {}
    for l in open(a.rerun):
        r = json.loads(l)
        if r["status"] != "survived":
            continue
        f = r["file"]
        if f not in cache:
            base = subprocess.run(["git", "-C", "/repo", "show", "%s:%s" % (a.base, f)], capture_output=True).stdout
            cache[f] = (base, open(os.path.join("/repo", f), "rb").read())
        base, head = cache[f]
        ls = base.rfind(b"\n", 0, r["start"]) + 1
        le = base.find(b"\n", r["end"])
        if le < 0:
            le = len(base)
        line = base[ls:le]
        if b"\n" in base[r["start"]:r["end"]]:
            line = base[ls:base.find(b"\n", ls)]  # multi-line mutants: anchor on the first line, keep the length
        lineno = base.count(b"\n", 0, ls)
        cands = []
        pos = 0
        for i, hl in enumerate(head.split(b"\n")):
            if hl == line:
                cands.append((abs(i - lineno), pos))
            pos += len(hl) + 1
        span = base[r["start"]:r["end"]]
        if not cands:
            lost += 1
            continue
        off = min(cands)[1] + (r["start"] - ls)
        if head[off:off + len(span)] != span:
            lost += 1
            continue
        muts.append(dict(file=f, line=head.count(b"\n", 0, off) + 1, start=off, end=off + len(span), new=r["new"], desc=r["desc"], func=r.get("func", "")))
    print("%d survivors carried onto HEAD, %d could not be located (their lines were changed by later commits)" % (len(muts), lost), flush=True)
    rc, o = sh("go list ./... | grep -v examples | tr '\\n' ' '", "/repo", 60)
    pkgs = o.strip()
    q = queue.Queue()
    for m in muts:
        q.put(m)
    os.makedirs(os.path.dirname(a.out), exist_ok=True)
    out = open(a.out, "a")
    lock = threading.Lock()
    ts = [threading.Thread(target=worker, args=(i, q, out, lock, pkgs)) for i in range(a.workers)]
    for t in ts:
        t.start()
    for t in ts:
        t.join()


if __name__ == "__main__":
    main()
