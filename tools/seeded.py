#!/usr/bin/env python3
"""Handling of independently written breaking changes (sub-agents).
  tools/seeded.py import <PROP> <dir>      copy <dir> (patch.diff, demo, meta.json) to /verif/seeded/<PROP>-<name>/
  tools/seeded.py verify <id>              in a scratch worktree: patch applies, builds, existing suite passes, demo fails
                                           with the patch and passes without it; result -> meta.json["verified"]
  tools/seeded.py check <id> [IDS] [tier]  apply the patch to /repo, run the checks (default: its own property), always revert;
                                           result -> meta.json["checks"]
Nothing is ever committed to /repo."""
import json, os, shutil, subprocess, sys, time
ROOT = os.path.dirname(os.path.dirname(os.path.abspath(__file__)))
ENV = dict(os.environ, GOFLAGS="-mod=mod", GOPROXY="off", GOSUMDB="off", GOTOOLCHAIN="local")


def sh(cmd, cwd, timeout=1500):
    p = subprocess.run(cmd, cwd=cwd, env=ENV, shell=True, capture_output=True, text=True, timeout=timeout)
    return p.returncode, p.stdout + p.stderr


def load(sid):
    d = os.path.join(ROOT, "seeded", sid)
    return d, json.load(open(os.path.join(d, "meta.json")))


def save(d, meta):
    json.dump(meta, open(os.path.join(d, "meta.json"), "w"), indent=1)


def cmd_import(prop, src):
    meta = json.load(open(os.path.join(src, "meta.json")))
    name = meta.get("name") or os.path.basename(src.rstrip("/"))
    sid = "%s-%s" % (prop, name)
    dst = os.path.join(ROOT, "seeded", sid)
    shutil.rmtree(dst, ignore_errors=True)
    shutil.copytree(src, dst)
    meta["property"] = prop
    meta["origin_dir"] = "SEEDED/" + os.path.basename(src.rstrip("/"))
    save(dst, meta)
    print(sid)


PKG_DIRS = {"failsafe": ".", "failsafe_test": ".", "test": "test", "issues": "test/issues"}


def demo_plan(d):
    """Work out how to run the demonstration: returns (kind, file, pkgdir, tags, tests)."""
    import re
    files = sorted(os.listdir(d))
    tests = [f for f in files if f.endswith("_test.go")]
    if tests:
        f = tests[0]
        src = open(os.path.join(d, f)).read()
        tag = re.search(r"^//go:build\s+(.+)$", src, re.M)
        tags = "verif"
        if tag:
            tags += " " + " ".join(w for w in re.findall(r"[A-Za-z_][A-Za-z0-9_]*", tag.group(1)) if w not in ("verif",))
        pkg = re.search(r"^package\s+(\w+)", src, re.M).group(1)
        base = pkg[:-5] if pkg.endswith("_test") else pkg
        pkgdir = PKG_DIRS.get(pkg, PKG_DIRS.get(base, base))
        names = re.findall(r"^func (Test\w+)\(", src, re.M)
        return "test", f, pkgdir, tags, names
    mains = [f for f in files if f.endswith(".go")]
    if mains:
        return "main", mains[0], None, "verif", []
    return None, None, None, None, None


def run_demo(d, wt):
    kind, f, pkgdir, tags, names = demo_plan(d)
    try:
        race = "-race" in json.dumps(json.load(open(os.path.join(d, "meta.json"))).get("demo_cmd", ""))
    except Exception:
        race = False
    if kind == "test":
        dst = os.path.join(wt, pkgdir, "zz_seeded_demo_test.go")
        shutil.copy(os.path.join(d, f), dst)
        try:
            rc, out = sh("go test %s -tags '%s' -count=1 -timeout 300s -run '^(%s)$' ./%s/" % ("-race" if race else "", tags, "|".join(names), pkgdir), wt, timeout=900)
        finally:
            os.remove(dst)
        return rc, out
    if kind == "main":
        dd = os.path.join(wt, "zz_seeded_demo")
        os.makedirs(dd, exist_ok=True)
        shutil.copy(os.path.join(d, f), os.path.join(dd, "main.go"))
        try:
            rc, out = sh("go run -tags verif ./zz_seeded_demo/", wt, timeout=700)
        finally:
            shutil.rmtree(dd, ignore_errors=True)
        return rc, out
    return -1, "no demonstration found"


def cmd_verify(sid, suite=True):
    d, meta = load(sid)
    wt = "/tmp/wt/verify_%d" % os.getpid()
    # the commit the change was written against (later fix commits may touch the same lines)
    subprocess.run(["git", "-C", "/repo", "worktree", "add", "-q", "--detach", wt, meta.get("base", "HEAD")], check=True)
    res = {}
    try:
        patch = os.path.join(d, "patch.diff")
        rc, out = sh("git apply --check %s && git apply %s" % (patch, patch), wt)
        res["applies"] = rc == 0
        rc, out = sh("go build ./... && go build -tags verif ./...", wt)
        res["builds"] = rc == 0
        if suite:
            t0 = time.time()
            rc, out = sh("go test -count=1 ./... 2>&1 | grep -E '^(--- FAIL|FAIL|panic)' | head -20", wt)
            fails = [l for l in out.splitlines() if l.startswith("--- FAIL")]
            if any("TestRetryPolicyTimeout" in f for f in fails):  # known ~1% timing flake on the unchanged tree: re-run once
                rc, out = sh("go test -count=1 ./test/ 2>&1 | grep -E '^(--- FAIL|panic)' | head", wt)
                fails = [f for f in fails if "TestRetryPolicyTimeout" not in f] + [l for l in out.splitlines() if l.startswith("--- FAIL")]
            # timing-sensitive tests of the repository fail sporadically on this (busy) machine on the unchanged tree too:
            # a failing test is re-run on its own three times; only a test that fails again counts
            import re as _re
            confirmed = []
            for f in fails:
                name = _re.search(r"--- FAIL: (\S+)", f).group(1).split("/")[0]
                if name == "TestCache":
                    confirmed.append(f)
                    continue
                rc, out = sh("go test -count=3 -run '^%s$' ./... 2>&1 | grep -E '^--- FAIL' | head -3" % name, wt)
                if out.strip():
                    confirmed.append(f)
            res["suite_failures_first_run"] = fails
            fails = confirmed
            res["suite_failures_with_patch"] = fails
            res["suite_ok"] = all("TestCache" in f for f in fails)
            res["suite_s"] = round(time.time() - t0)
        rc1, out1 = run_demo(d, wt)
        res["demo_fails_with_patch"] = rc1 != 0
        res["demo_with_patch_tail"] = out1[-500:]
        sh("git checkout -- . ", wt)
        rc2, out2 = run_demo(d, wt)
        res["demo_passes_without_patch"] = rc2 == 0
        res["demo_without_patch_tail"] = out2[-300:]
    finally:
        subprocess.run(["git", "-C", "/repo", "worktree", "remove", "--force", wt])
    meta = load(sid)[1]  # (a check may have been recorded meanwhile)
    meta["verified"] = res
    save(d, meta)
    print("%s applies=%s builds=%s suite_ok=%s %s demo_fails_with=%s demo_passes_without=%s" % (
        sid, res["applies"], res["builds"], res.get("suite_ok"), res.get("suite_failures_with_patch"), res["demo_fails_with_patch"], res["demo_passes_without_patch"]))


def cmd_check(sid, ids=None, tier="quick"):
    """Runs the checks against a scratch worktree of /repo with the patch applied (VERIF_REPO), so that /repo itself and
    whatever runs against it in the background are left alone."""
    d, meta = load(sid)
    ids = ids or meta["property"]
    wt = "/tmp/wt/chk_%d" % os.getpid()
    subprocess.run(["git", "-C", "/repo", "worktree", "add", "-q", "--detach", wt, "HEAD"], check=True)
    out_all = meta.setdefault("checks", {})
    try:
        subprocess.run(["git", "-C", wt, "apply", os.path.join(d, "patch.diff")], check=True)
        env = dict(ENV, VERIF_REPO=wt)
        for pid in ids.split(","):
            t0 = time.time()
            r = subprocess.run([os.path.join(ROOT, "check"), pid, tier], capture_output=True, text=True, env=env)
            lines = [l for l in r.stdout.splitlines() if l.startswith(("VIOLATION", "  sig=", "INCONCLUSIVE"))]
            sigs = sorted({l.split(":")[0].strip().replace("sig=", "") for l in lines if l.startswith("  sig=")})
            out_all["%s/%s" % (pid, tier)] = dict(rc=r.returncode, seconds=round(time.time() - t0), sigs=sigs, first=(lines[0][:400] if lines else ""))
            print("== %s [%s %s] rc=%d %.0fs %s" % (sid, pid, tier, r.returncode, time.time() - t0, sigs))
            for l in lines[:2]:
                print("   " + l[:300])
    finally:
        subprocess.run(["git", "-C", "/repo", "worktree", "remove", "--force", wt])
    fresh = load(sid)[1]  # (a verification may have been recorded meanwhile)
    fresh.setdefault("checks", {}).update(out_all)
    save(d, fresh)


if __name__ == "__main__":
    a = sys.argv[1:]
    if a[0] == "import":
        cmd_import(a[1], a[2])
    elif a[0] == "verify":
        cmd_verify(a[1])
    elif a[0] == "check":
        cmd_check(a[1], a[2] if len(a) > 2 else None, a[3] if len(a) > 3 else "quick")
