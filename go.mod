module verif

go 1.23

toolchain go1.23.5

// The library's own go.mod says go 1.21, so programs whose main module is of that vintage (and the library's own test
// suite) run with the old timer channels: a timer that has fired keeps its tick buffered across Stop and Reset. The checks
// ask for the same semantics, so that the library's handling of its timers is exercised the way those users see it.
godebug asynctimerchan=1

require (
	github.com/failsafe-go/failsafe-go v0.0.0
	google.golang.org/grpc v1.67.1
	google.golang.org/protobuf v1.36.4
	pgregory.net/rapid v1.3.0
)

require (
	github.com/bits-and-blooms/bitset v1.20.0 // indirect
	golang.org/x/net v0.28.0 // indirect
	golang.org/x/sys v0.24.0 // indirect
	golang.org/x/text v0.17.0 // indirect
	google.golang.org/genproto/googleapis/rpc v0.0.0-20240814211410-ddb44dafa142 // indirect
)

replace github.com/failsafe-go/failsafe-go => /repo
