module verif

go 1.23

toolchain go1.23.5

require (
	github.com/failsafe-go/failsafe-go v0.0.0
	pgregory.net/rapid v1.3.0
)

require github.com/bits-and-blooms/bitset v1.20.0 // indirect

replace github.com/failsafe-go/failsafe-go => /repo
