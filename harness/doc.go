// Package harness holds the building blocks shared by all property checks.
package harness

import (
	_ "github.com/failsafe-go/failsafe-go"
	_ "pgregory.net/rapid"
)
