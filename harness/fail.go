package harness

import (
	"encoding/json"
	"fmt"
	"os"
	"path/filepath"
	"strings"
)

// TB is what both *testing.T and *rapid.T offer.
type TB interface {
	Fatalf(format string, args ...any)
	Logf(format string, args ...any)
	Helper()
}

// ViolationRecord is what a check writes just before failing. The driver matches Sig against KNOWN_FINDINGS.txt and
// uses the record (plus rapid's shrunk fail file, when there is one) as the replay artefact.
type ViolationRecord struct {
	Property string `json:"property"`
	Test     string `json:"test"`
	Sig      string `json:"sig"`
	Message  string `json:"message"`
	Scenario any    `json:"scenario,omitempty"`
	Log      any    `json:"log,omitempty"`
}

// Violation records the failure and fails the test. For rapid-driven tests it is called again on every shrink step and
// on the final replay of the minimal case, so the file left behind describes the minimal case.
func Violation(t TB, property, test, sig string, scenario any, format string, args ...any) {
	t.Helper()
	msg := fmt.Sprintf(format, args...)
	WriteViolation(property, test, sig, scenario, nil, msg)
	t.Fatalf("[%s sig=%s] %s", property, sig, msg)
}

func WriteViolation(property, test, sig string, scenario, log any, msg string) {
	rec := ViolationRecord{Property: property, Test: test, Sig: sig, Message: msg, Scenario: scenario, Log: log}
	b, err := json.MarshalIndent(rec, "", " ")
	if err != nil {
		b, _ = json.MarshalIndent(ViolationRecord{Property: property, Test: test, Sig: sig, Message: msg, Scenario: fmt.Sprintf("%+v", scenario)}, "", " ")
	}
	name := fmt.Sprintf("violation-%s-%s.json", strings.ReplaceAll(test, "/", "_"), Shard())
	_ = os.WriteFile(filepath.Join(OutDir(), name), b, 0o644)
}

// Inconclusive marks a run that could not decide (watchdog, degenerate generator); the driver maps it to exit 2.
func Inconclusive(t TB, format string, args ...any) {
	t.Helper()
	msg := fmt.Sprintf(format, args...)
	_ = os.WriteFile(filepath.Join(OutDir(), "inconclusive-"+Shard()+".txt"), []byte(msg+"\n"), 0o644)
	t.Fatalf("INCONCLUSIVE: %s", msg)
}
