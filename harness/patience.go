package harness

import (
	"sync"
	"time"
)

// Stall-discounted time for liveness bounds. This sandbox freezes whole processes for tens of seconds when the machine is
// oversubscribed (100+ s stalls were observed), so "X had not happened 30 s later" on the wall clock can be a stall and not
// a hang. The patience clock only advances while this process is actually being scheduled: a ticker goroutine adds the
// time between its own wake-ups, capped at 25 ms per wake-up, so a freeze of a minute counts as 25 ms and a starved process
// sees time pass slowly. Bounds expressed on it mean "30 s during which this process was running".

var patience struct {
	once    sync.Once
	mu      sync.Mutex
	virtual time.Duration
	waiters []*patienceWaiter
}

type patienceWaiter struct {
	at time.Duration
	ch chan struct{}
}

const (
	patienceTick = 5 * time.Millisecond
	patienceCap  = 25 * time.Millisecond
)

func startPatience() {
	patience.once.Do(func() {
		go func() {
			last := time.Now()
			for {
				time.Sleep(patienceTick)
				now := time.Now()
				d := now.Sub(last)
				last = now
				if d > patienceCap {
					d = patienceCap
				}
				patience.mu.Lock()
				patience.virtual += d
				v := patience.virtual
				kept := patience.waiters[:0]
				for _, w := range patience.waiters {
					if w.at <= v {
						close(w.ch)
					} else {
						kept = append(kept, w)
					}
				}
				patience.waiters = kept
				patience.mu.Unlock()
			}
		}()
	})
}

// After returns a channel that is closed once d of stall-discounted time has passed.
func After(d time.Duration) <-chan struct{} {
	startPatience()
	w := &patienceWaiter{ch: make(chan struct{})}
	patience.mu.Lock()
	w.at = patience.virtual + d
	patience.waiters = append(patience.waiters, w)
	patience.mu.Unlock()
	return w.ch
}

// Patience is a deadline on the stall-discounted clock, for polling loops.
type Patience struct{ at time.Duration }

func Wait(d time.Duration) Patience {
	startPatience()
	patience.mu.Lock()
	defer patience.mu.Unlock()
	return Patience{at: patience.virtual + d}
}

func (p Patience) Expired() bool {
	patience.mu.Lock()
	defer patience.mu.Unlock()
	return patience.virtual >= p.at
}
