package harness

import (
	"encoding/binary"
	"encoding/json"
	"fmt"
	"hash/fnv"
	"os"
	"path/filepath"
	"sort"
	"strings"
	"sync"
)

// Stats collects what a test process actually explored. One Stats per test function; Flush writes a fragment that the
// driver merges into the evidence file. All counters are measured, never constants.
type Stats struct {
	mu          sync.Mutex
	name        string
	evaluations int
	nontrivial  int
	classes     map[string]int
	hashes      map[uint64]struct{}
	samples     []any
	sampleKeys  map[uint64]struct{}
	maxSamples  int
	notes       map[string]int
}

func NewStats(name string) *Stats {
	return &Stats{name: name, classes: map[string]int{}, hashes: map[uint64]struct{}{}, sampleKeys: map[uint64]struct{}{}, maxSamples: 6, notes: map[string]int{}}
}

func Hash64(s string) uint64 {
	h := fnv.New64a()
	h.Write([]byte(s))
	return h.Sum64()
}

// Case records one completed evaluation. key is the canonical description of the case (distinctness is by its hash);
// nontrivial says whether the property's stated rule holds for it; classes are histogram labels.
func (s *Stats) Case(key string, nontrivial bool, classes ...string) {
	s.mu.Lock()
	defer s.mu.Unlock()
	s.evaluations++
	for _, c := range classes {
		s.classes[c]++
	}
	if nontrivial {
		s.nontrivial++
		s.hashes[Hash64(key)] = struct{}{}
	}
}

// Count bumps a named counter (discards, exclusions, generator-health classes) without counting an evaluation.
func (s *Stats) Count(name string, n int) {
	s.mu.Lock()
	s.notes[name] += n
	s.mu.Unlock()
}

func (s *Stats) Class(name string) {
	s.mu.Lock()
	s.classes[name]++
	s.mu.Unlock()
}

// Sample keeps a few distinct cases, written out, for the evidence file. Cheap to call on every case: the value is only
// built (by mk) when it will be kept.
func (s *Stats) Sample(key string, mk func() any) {
	s.mu.Lock()
	defer s.mu.Unlock()
	if len(s.samples) >= s.maxSamples {
		return
	}
	h := Hash64(key)
	if _, ok := s.sampleKeys[h]; ok {
		return
	}
	// spread samples over the run: keep the first, then progressively rarer ones
	want := 1
	for i := 0; i < len(s.samples); i++ {
		want *= 8
	}
	if s.nontrivial < want {
		return
	}
	s.sampleKeys[h] = struct{}{}
	s.samples = append(s.samples, mk())
}

type fragment struct {
	Name        string         `json:"name"`
	Evaluations int            `json:"evaluations"`
	Nontrivial  int            `json:"nontrivial"`
	Classes     map[string]int `json:"classes"`
	Notes       map[string]int `json:"notes"`
	Samples     []any          `json:"samples"`
	HashFile    string         `json:"hash_file"`
}

// OutDir is where fragments, violation records and race logs go; the driver sets VERIF_OUT per shard.
func OutDir() string {
	d := os.Getenv("VERIF_OUT")
	if d == "" {
		d = "."
	}
	return d
}

func Shard() string {
	s := os.Getenv("VERIF_SHARD")
	if s == "" {
		s = "0"
	}
	return s
}

// Flush writes the fragment. Call with defer at the top of the test function.
func (s *Stats) Flush() {
	s.mu.Lock()
	defer s.mu.Unlock()
	base := fmt.Sprintf("%s-%s", strings.ReplaceAll(s.name, "/", "_"), Shard())
	hf := filepath.Join(OutDir(), "hashes-"+base+".bin")
	keys := make([]uint64, 0, len(s.hashes))
	for k := range s.hashes {
		keys = append(keys, k)
	}
	sort.Slice(keys, func(i, j int) bool { return keys[i] < keys[j] })
	buf := make([]byte, 8*len(keys))
	for i, k := range keys {
		binary.LittleEndian.PutUint64(buf[8*i:], k)
	}
	_ = os.WriteFile(hf, buf, 0o644)
	fr := fragment{Name: s.name, Evaluations: s.evaluations, Nontrivial: s.nontrivial, Classes: s.classes, Notes: s.notes, Samples: s.samples, HashFile: filepath.Base(hf)}
	b, _ := json.MarshalIndent(fr, "", " ")
	_ = os.WriteFile(filepath.Join(OutDir(), "stats-"+base+".json"), b, 0o644)
}

// Tier is "quick" or "thorough" (VERIF_TIER); checks use it to scale sizes, never to change oracles.
func Tier() string {
	if os.Getenv("VERIF_TIER") == "thorough" {
		return "thorough"
	}
	return "quick"
}

func Thorough() bool { return Tier() == "thorough" }
