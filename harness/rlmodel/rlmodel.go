// Package rlmodel is the reference rate limiter used by the C05 and composition checks.
package rlmodel

import "fmt"

// Reference model, written from the property text only: permits are assigned greedily to the earliest slots (smooth) or
// periods (bursty) that respect the rate and the order of requests; a call waits for its last permit; a call whose wait
// would exceed maxWait is refused and changes nothing. Times are int64 nanoseconds since the limiter was built.
type Model interface {
	// acquire returns the wait, or -1 when refused. maxWait == -1 means unbounded.
	Acquire(t int64, n int, maxWait int64) int64
	Clone() Model
	String() string
}

type Smooth struct {
	Interval int64
	next     int64 // index of the first unassigned slot
}

func (m *Smooth) Acquire(t int64, n int, maxWait int64) int64 {
	cur := t / m.Interval
	first := m.next
	if cur > first {
		first = cur
	}
	last := first + int64(n) - 1
	wait := last*m.Interval - t
	if wait < 0 {
		wait = 0
	}
	if maxWait != -1 && wait > maxWait {
		return -1
	}
	m.next = last + 1
	return wait
}
func (m *Smooth) Clone() Model   { c := *m; return &c }
func (m *Smooth) String() string { return fmt.Sprintf("smooth{next=%d}", m.next) }

type Bursty struct {
	Period int64
	Max    int
	used   map[int64]int // period index -> permits assigned in it
	front  int64         // period of the most recently assigned permit: later requests never get an earlier one
}

func (m *Bursty) Acquire(t int64, n int, maxWait int64) int64 {
	cur := t / m.Period
	q := m.front
	if cur > q {
		q = cur
	}
	tmp := map[int64]int{}
	for i := 0; i < n; i++ {
		for m.used[q]+tmp[q] >= m.Max {
			q++
		}
		tmp[q]++
	}
	var wait int64
	if q > cur {
		wait = q*m.Period - t
	}
	if maxWait != -1 && wait > maxWait {
		return -1
	}
	for k, v := range tmp {
		m.used[k] += v
	}
	m.front = q
	// forget periods that can no longer matter
	for k := range m.used {
		if k < cur {
			delete(m.used, k)
		}
	}
	return wait
}
func (m *Bursty) Clone() Model {
	c := &Bursty{Period: m.Period, Max: m.Max, used: map[int64]int{}, front: m.front}
	for k, v := range m.used {
		c.used[k] = v
	}
	return c
}
func (m *Bursty) String() string {
	return fmt.Sprintf("bursty{front=%d used=%v}", m.front, m.used)
}

func NewSmooth(interval int64) *Smooth { return &Smooth{Interval: interval} }
func NewBursty(max int, period int64) *Bursty {
	return &Bursty{Period: period, Max: max, used: map[int64]int{}}
}
