//go:build verif

package compose

import (
	"context"
	"errors"
	"fmt"
	"sort"
	"strings"
	"sync"
	"time"
	"verif/harness"

	"github.com/failsafe-go/failsafe-go"
	"github.com/failsafe-go/failsafe-go/cachepolicy"
	"github.com/failsafe-go/failsafe-go/circuitbreaker"
	"github.com/failsafe-go/failsafe-go/retrypolicy"

	"verif/harness/cbmodel"
)

// Mismatch is one disagreement between the real library and the model. Cat decides which property it belongs to:
// outcome | state | cache | events/<kind> | stats/<kind> | liveness.
type Mismatch struct {
	Cat string `json:"cat"`
	Msg string `json:"msg"`
}

func (m Mismatch) String() string { return m.Cat + ": " + m.Msg }

type RealResult struct {
	Val         int
	Err         error
	Invocations int
	Log         []Entry
	CacheOps    []CacheOp
	Hung        bool
	Stuck       bool   // the call itself did not return
	Unstable    string // an event payload that reads differently after the execution than when it was delivered
}

type StepResult struct {
	Step       Step
	Pred       *Prediction
	Real       *RealResult
	Mismatches []Mismatch
	Discard    string
}

// Runner executes a scenario step by step on the real library and on the model.
type Runner struct {
	Sc      Scenario
	W       *World
	MW      *ModelWorld
	fire    bool
	execSeq int64
	exOnce  sync.Once
	ex      failsafe.Executor[int]
	held    map[int]int // standalone bulkhead permits held by the harness, per instance
	Ended   bool        // a discard or a lenient execution ended the history
}

func NewRunner(sc Scenario, noListeners bool) *Runner {
	mw := NewModelWorld(sc.Pool, sc.T0)
	mw.NoListeners = noListeners
	return &Runner{Sc: sc, W: BuildWorld(sc.Pool, sc.T0, noListeners), MW: mw, fire: sc.usesFire(), held: map[int]int{}}
}

func SameErr(got, want error) bool {
	if want == nil {
		return got == nil
	}
	if ex, ok := want.(retrypolicy.ExceededError); ok {
		ge, ok := got.(retrypolicy.ExceededError)
		if !ok {
			return false
		}
		gv, _ := ge.LastResult.(int)
		wv, _ := ex.LastResult.(int)
		var as retrypolicy.ExceededError
		return gv == wv && SameErr(ge.LastError, ex.LastError) && errors.Is(got, retrypolicy.ErrExceeded) && errors.As(got, &as)
	}
	return got == want
}

func kindOf(sc *Scenario, pol int) string {
	switch pol {
	case PolExecutor:
		return "executor"
	case PolFunction:
		return "function"
	}
	return sc.Pool[pol].Kind
}

// Step runs step i. After a discard or a lenient execution the history is over (r.Ended).
func (r *Runner) Step(i int) StepResult {
	st := r.Sc.Steps[i]
	res := StepResult{Step: st}
	bad := func(cat, f string, a ...any) {
		res.Mismatches = append(res.Mismatches, Mismatch{cat, fmt.Sprintf(f, a...)})
	}
	switch st.Op {
	case "advance":
		r.W.Now += st.D
		r.MW.Now += st.D
	case "bh-take":
		b, mi := r.W.Insts[st.Target], r.MW.Insts[st.Target]
		got, want := b.BH.TryAcquirePermit(), mi.BHFree > 0
		if got != want {
			bad("state", "standalone TryAcquirePermit on #%d = %v, model %v (free %d)", st.Target, got, want, mi.BHFree)
		}
		if got {
			r.held[st.Target]++
		}
		if want {
			mi.BHFree--
		}
	case "bh-release":
		if r.held[st.Target] > 0 {
			r.W.Insts[st.Target].BH.ReleasePermit()
			r.held[st.Target]--
			r.MW.Insts[st.Target].BHFree++
		}
	case "cb-op":
		b, m := r.W.Insts[st.Target].CB, r.MW.Insts[st.Target].CB
		delay := r.Sc.Pool[st.Target].CB.Delay
		switch st.CbOp {
		case "success":
			b.RecordSuccess()
			if m.Record(true, r.MW.Now, delay) == cbmodel.GreyZone {
				res.Discard = "grey"
			}
		case "failure":
			b.RecordFailure()
			if m.Record(false, r.MW.Now, delay) == cbmodel.GreyZone {
				res.Discard = "grey"
			}
		case "open":
			b.Open()
			m.Manual(cbmodel.Open, r.MW.Now)
		case "halfopen":
			b.HalfOpen()
			m.Manual(cbmodel.HalfOpen, r.MW.Now)
		case "close":
			b.Close()
			m.Manual(cbmodel.Closed, r.MW.Now)
		case "acquire":
			want, checked := m.TryAcquire(r.MW.Now)
			got := b.TryAcquirePermit()
			if !checked {
				res.Discard = "tainted"
			} else if got != want {
				bad("state", "standalone breaker TryAcquirePermit on #%d = %v, model %v", st.Target, got, want)
			}
		}
		r.W.Rec.Reset() // standalone operations' state events are C03's subject
	case "rl-take":
		b, mi := r.W.Insts[st.Target], r.MW.Insts[st.Target]
		got := b.RL.TryAcquirePermits(uint(st.N))
		want := mi.RL.Acquire(r.MW.Now, st.N, 0) == 0
		if got != want {
			bad("state", "standalone limiter TryAcquirePermits(%d) on #%d = %v, model %v", st.N, st.Target, got, want)
		}
	case "cache-put":
		r.W.Cache.direct(true, st.Key, st.Val)
		r.MW.Cache[st.Key] = st.Val
	case "cache-del":
		r.W.Cache.direct(false, st.Key, 0)
		delete(r.MW.Cache, st.Key)
	case "exec":
		r.exec(st, &res)
	}
	if res.Discard != "" {
		r.Ended = true
		return res
	}
	r.compareState(&res)
	return res
}

// Finish probes what can only be probed destructively: every limiter is asked for one unbounded reservation.
func (r *Runner) Finish() []Mismatch {
	var out []Mismatch
	if r.Ended {
		return nil
	}
	for i, b := range r.W.Insts {
		if b.RL != nil {
			got := int64(b.RL.ReservePermit())
			want := r.MW.Insts[i].RL.Acquire(r.MW.Now, 1, -1)
			if got != want {
				out = append(out, Mismatch{"state", fmt.Sprintf("limiter #%d: final reservation probe waits %d, model %d", i, got, want)})
			}
		}
	}
	return out
}

func (r *Runner) exec(st Step, res *StepResult) {
	pred := Predict(r.MW, r.Sc.Stack, st, r.fire)
	res.Pred = pred
	if pred.Discard != "" {
		res.Discard = pred.Discard
		return
	}

	r.execSeq++
	id := r.execSeq
	r.W.Rec.Reset()
	r.W.Cache.TakeOps()
	real := r.runReal(st, id)
	real.Log = r.W.Rec.Snapshot()
	real.Unstable = r.W.Rec.Unstable()
	real.CacheOps = r.W.Cache.TakeOps()
	res.Real = real
	if pred.Actions["timeout-fired"] > 0 && real.Invocations < pred.Invocations {
		// The model lets an always-fires Timeout fire while the function beneath it is blocked. A timer of a few
		// milliseconds can also win against the policies between the Timeout and the function when this process is not
		// scheduled for that long (seen on an oversubscribed machine): then the function is never entered, which is just as
		// much "the limit elapsed" as the case the model describes, but the inner policies saw something else. Not judged.
		res.Discard = "fire-before-function"
		return
	}
	r.compareExec(st, pred, real, id, res)
}

// runReal performs one execution on the real library. It does not touch the recorder's content besides appending.
func (r *Runner) runReal(st Step, id int64) *RealResult {
	w := r.W
	ctx, cancel := context.WithCancel(context.Background())
	defer cancel()
	ctx = WithCancelHandle(WithExecID(ctx, id), cancel)
	switch {
	case st.CtxKey == "int":
		ctx = context.WithValue(ctx, cachepolicy.CacheKey, 42)
	case strings.HasPrefix(st.CtxKey, "s:"):
		ctx = context.WithValue(ctx, cachepolicy.CacheKey, st.CtxKey[2:])
	}
	real := &RealResult{}
	idx := 0
	fn := func(exec failsafe.Execution[int]) (int, error) {
		var o Outcome
		if idx < len(st.Script) {
			o = st.Script[idx]
		} else {
			o = Outcome{V: Terminal}
		}
		if r.fire {
			o.Beh = "block"
		}
		idx++
		real.Invocations++
		if exec != nil {
			en := w.Rec.Attempt(PolFunction, "fn.entry", exec)
			en.Canceled = exec.IsCanceled()
			w.Rec.add(en)
		} else {
			w.Rec.add(Entry{Pol: PolFunction, Name: "fn.entry", Exec: id, A: -1})
		}
		switch o.Beh {
		case "block":
			select {
			case <-exec.Canceled():
			case <-harness.After(30 * time.Second):
				real.Hung = true
			}
		case "cancel":
			cancel()
		}
		return o.V, o.Err()
	}
	// one Executor per scenario, shared by all its executions (sequential or concurrent); WithContext returns a copy
	r.exOnce.Do(func() {
		pols := make([]failsafe.Policy[int], len(r.Sc.Stack))
		for i, p := range r.Sc.Stack {
			pols[i] = w.Insts[p].Pol
		}
		r.ex = failsafe.NewExecutor[int](pols...)
		if !w.NoListeners {
			done := func(name string) func(failsafe.ExecutionDoneEvent[int]) {
				return func(e failsafe.ExecutionDoneEvent[int]) {
					en := w.Rec.Info(PolExecutor, name, e.ExecutionInfo)
					en.HasRes, en.Res, en.Err = true, e.Result, e.Error
					w.Rec.add(en)
				}
			}
			if !r.Sc.execMuted("OnSuccess") {
				r.ex = r.ex.OnSuccess(done("OnSuccess"))
			}
			if !r.Sc.execMuted("OnFailure") {
				r.ex = r.ex.OnFailure(done("OnFailure"))
			}
			if !r.Sc.execMuted("OnDone") {
				r.ex = r.ex.OnDone(done("OnDone"))
			}
		}
	})
	ex := r.ex.WithContext(ctx)
	if st.EarlierCtx != "" {
		type unrelated struct{}
		earlier := context.WithValue(context.Background(), unrelated{}, 1)
		if strings.HasPrefix(st.EarlierCtx, "s:") {
			earlier = context.WithValue(earlier, cachepolicy.CacheKey, st.EarlierCtx[2:])
		}
		ex = r.ex.WithContext(earlier).WithContext(ctx)
	}
	if st.PreCancel {
		cancel()
	}
	entry := st.Entry
	if r.fire && entry%2 == 0 {
		entry++ // blocking needs the Execution: use the WithExecution variant
	}
	runNoExec := func() error { _, err := fn(nil); return err }
	runExec := func(e failsafe.Execution[int]) error { _, err := fn(e); return err }
	getNoExec := func() (int, error) { return fn(nil) }
	if st.TopLevel {
		pols := make([]failsafe.Policy[int], len(r.Sc.Stack))
		for i, p := range r.Sc.Stack {
			pols[i] = w.Insts[p].Pol
		}
		switch entry {
		case 2:
			real.Val, real.Err = failsafe.Get(getNoExec, pols...)
		case 3:
			real.Val, real.Err = failsafe.GetWithExecution(fn, pols...)
		case 6:
			real.Val, real.Err = failsafe.GetAsync(getNoExec, pols...).Get()
		case 7:
			real.Val, real.Err = failsafe.GetWithExecutionAsync(fn, pols...).Get()
		default:
			panic("package-level entry points are generated for the Get variants only")
		}
		cancel()
		return real
	}
	// the call runs beside a watchdog: every scripted function returns by itself (or when it is cancelled beneath an
	// always-fires Timeout), so a call that has not returned after 30 s of process time is being held by the library
	var val int
	var err error
	callDone := make(chan struct{})
	var panicked any
	go func() {
		defer close(callDone)
		defer func() { panicked = recover() }() // handed to the caller's goroutine below
		switch entry {
		case 0:
			err = ex.Run(runNoExec)
		case 1:
			err = ex.RunWithExecution(runExec)
		case 2:
			val, err = ex.Get(getNoExec)
		case 3:
			val, err = ex.GetWithExecution(fn)
		case 4:
			err = ex.RunAsync(runNoExec).Error()
		case 5:
			err = ex.RunWithExecutionAsync(runExec).Error()
		case 6:
			val, err = ex.GetAsync(getNoExec).Get()
		case 7:
			val, err = ex.GetWithExecutionAsync(fn).Get()
		}
	}()
	select {
	case <-callDone:
		if panicked != nil {
			panic(panicked)
		}
		real.Val, real.Err = val, err
	case <-harness.After(30 * time.Second):
		real.Stuck = true
	}
	cancel()
	return real
}

func (r *Runner) compareExec(st Step, pred *Prediction, real *RealResult, id int64, res *StepResult) {
	bad := func(cat, f string, a ...any) {
		res.Mismatches = append(res.Mismatches, Mismatch{cat, fmt.Sprintf(f, a...)})
	}
	// ---- compare ----
	if real.Hung {
		bad("liveness", "the function stayed blocked for 30s beneath an always-fires timeout of %v", FireLimit)
	}
	if real.Stuck {
		bad("liveness", "the call had not returned after 30s although every scripted function returns by itself")
		r.Ended = true
		return
	}
	if real.Unstable != "" {
		bad("stats/snapshot", "an event is not a snapshot: %s", real.Unstable)
	}
	if pred.Lenient != "" {
		// the statement leaves the continuation open (DESIGN.md L1 / L5): only what holds either way is checked
		if real.Invocations != pred.Invocations {
			bad("outcome", "invocations=%d, model %d (lenient %s)", real.Invocations, pred.Invocations, pred.Lenient)
		}
		r.Ended = true
		return
	}
	if real.Invocations != pred.Invocations {
		bad("outcome", "function invoked %d times, model %d", real.Invocations, pred.Invocations)
	}
	isRun := st.Entry%4 < 2
	wantVal := pred.Val
	if isRun {
		wantVal = 0
	}
	if real.Val != wantVal || !SameErr(real.Err, pred.Err) {
		bad("outcome", "returned (%d, %s), model (%d, %s)", real.Val, describeErr(real.Err), wantVal, describeErr(pred.Err))
	}
	if st.TopLevel {
		// no Executor, hence no completion listeners
		var m2 []Entry
		for _, e := range pred.Log {
			if e.Pol != PolExecutor {
				m2 = append(m2, e)
			}
		}
		pred.Log = m2
	}
	r.compareLogs(pred.Log, real.Log, id, res)
	// cache traffic
	if len(real.CacheOps) != len(pred.CacheOps) {
		bad("cache", "cache operations %v, model %v", real.CacheOps, pred.CacheOps)
	} else {
		for k := range real.CacheOps {
			g, m := real.CacheOps[k], pred.CacheOps[k]
			if g.Op != m.Op || g.Key != m.Key || (g.Op == "set" && g.Val != m.Val) || g.Hit != m.Hit {
				bad("cache", "cache operation %d is %+v, model %+v", k, g, m)
			}
		}
	}
}

func fmtEntry(e Entry) string {
	s := fmt.Sprintf("{A=%d E=%d R=%d H=%d", e.A, e.E, e.R, e.H)
	if e.HasLast {
		s += fmt.Sprintf(" last=(%d,%s)", e.LV, describeErr(e.LE))
	}
	if e.HasRes {
		s += fmt.Sprintf(" res=(%d,%s)", e.Res, describeErr(e.Err))
	}
	if e.Old != "" {
		s += " " + e.Old + "->" + e.New
	}
	if e.Canceled {
		s += " cancelled"
	}
	return s + "}"
}

func (r *Runner) compareLogs(model, real []Entry, id int64, res *StepResult) {
	bad := func(cat, f string, a ...any) {
		res.Mismatches = append(res.Mismatches, Mismatch{cat, fmt.Sprintf(f, a...)})
	}
	if r.W.NoListeners {
		// only function entries are observable
		var m2 []Entry
		for _, e := range model {
			if e.Pol == PolFunction || e.Name == "fallback.fn" || e.Name == "delay.fn" {
				m2 = append(m2, e)
			}
		}
		model = m2
	} else {
		// listeners an instance does not register cannot report
		var m2 []Entry
		for _, e := range model {
			if e.Pol >= 0 && e.Pol < len(r.Sc.Pool) && r.Sc.Pool[e.Pol].Muted(strings.TrimSuffix(e.Name, "?")) {
				continue
			}
			if e.Pol == PolExecutor && r.Sc.execMuted(e.Name) {
				continue
			}
			m2 = append(m2, e)
		}
		model = m2
	}
	type key struct {
		pol  int
		name string
	}
	group := func(log []Entry) (map[key][]Entry, []key) {
		g := map[key][]Entry{}
		var order []key
		for _, e := range log {
			k := key{e.Pol, strings.TrimSuffix(e.Name, "?")}
			if _, ok := g[k]; !ok {
				order = append(order, k)
			}
			g[k] = append(g[k], e)
		}
		return g, order
	}
	mg, mo := group(model)
	rg, ro := group(real)
	keys := append([]key(nil), mo...)
	for _, k := range ro {
		if _, ok := mg[k]; !ok {
			keys = append(keys, k)
		}
	}
	sort.SliceStable(keys, func(i, j int) bool { return keys[i].pol < keys[j].pol })
	for _, k := range keys {
		kind := kindOf(&r.Sc, k.pol)
		ms, rs := mg[k], rg[k]
		optional := len(ms) > 0 && strings.HasSuffix(ms[0].Name, "?")
		if len(ms) != len(rs) {
			if optional && len(rs) == 0 {
				continue
			}
			cat := "events/" + kind
			if k.pol == PolFunction {
				cat = "outcome"
			}
			bad(cat, "%s#%d.%s called %d times, model %d", kind, k.pol, k.name, len(rs), len(ms))
			continue
		}
		for i := range ms {
			m, g := ms[i], rs[i]
			if g.Exec != id && g.Exec != 0 {
				bad("events/"+kind, "%s#%d.%s call %d carries the context of execution %d, not %d", kind, k.pol, k.name, i, g.Exec, id)
			}
			if m.Old != "" || g.Old != "" {
				if m.Old != g.Old || m.New != g.New {
					bad("events/"+kind, "%s#%d.%s call %d is %s->%s, model %s->%s", kind, k.pol, k.name, i, g.Old, g.New, m.Old, m.New)
				}
				continue
			}
			if g.A == -1 {
				continue // function entered without an Execution: nothing to observe
			}
			// payload that says what happened
			if m.HasRes && (g.Res != m.Res || !SameErr(g.Err, m.Err)) {
				cat := "events/" + kind
				bad(cat, "%s#%d.%s call %d reports (%d,%s), model (%d,%s)", kind, k.pol, k.name, i, g.Res, describeErr(g.Err), m.Res, describeErr(m.Err))
			}
			if m.HasDelay && g.Delay != 0 {
				bad("events/"+kind, "%s#%d.%s call %d reports delay %v, none configured", kind, k.pol, k.name, i, g.Delay)
			}
			// statistics
			if g.A != m.A || g.E != m.E || g.R != m.R || g.H != 0 {
				bad("stats/"+kind, "%s#%d.%s call %d sees %s, model %s", kind, k.pol, k.name, i, fmtEntry(g), fmtEntry(m))
			} else if m.HasLast {
				if g.First != m.First || g.Retry != m.Retry || g.Hedge {
					bad("stats/"+kind, "%s#%d.%s call %d: IsFirstAttempt=%v IsRetry=%v IsHedge=%v with Attempts=%d", kind, k.pol, k.name, i, g.First, g.Retry, g.Hedge, g.A)
				}
				if !(g.Canceled || m.Canceled) && (g.LV != m.LV || !SameErr(g.LE, m.LE)) {
					bad("stats/"+kind, "%s#%d.%s call %d sees last=(%d,%s), model (%d,%s)", kind, k.pol, k.name, i, g.LV, describeErr(g.LE), m.LV, describeErr(m.LE))
				}
			}
		}
	}
	// invariants over the real log alone (C17): identity of the counters, monotone times; causal order (C16)
	var start time.Time
	var lastAttemptStart time.Time
	var lastElapsedAt time.Time
	var lastElapsed time.Duration
	doneSeq, lastSeq := -1, -1
	for _, g := range real {
		lastSeq = g.Seq
		if g.Pol == PolExecutor && g.Name == "OnDone" {
			doneSeq = g.Seq
		}
		if g.Old != "" || g.A == -1 {
			continue
		}
		kind := kindOf(&r.Sc, g.Pol)
		if g.A != 1+g.R+g.H {
			bad("stats/"+kind, "%s#%d.%s: Attempts=%d but Retries=%d Hedges=%d", kind, g.Pol, g.Name, g.A, g.R, g.H)
		}
		if g.Name == "OnTimeoutExceeded" {
			continue // sampled on the timer goroutine, not ordered with the samples of the executing goroutine
		}
		if !g.Start.IsZero() {
			if start.IsZero() {
				start = g.Start
			} else if !g.Start.Equal(start) {
				bad("stats/"+kind, "%s#%d.%s: StartTime changed during the execution", kind, g.Pol, g.Name)
			}
			if !g.Mono.IsZero() && !lastElapsedAt.IsZero() && g.Elapsed < lastElapsed {
				bad("stats/"+kind, "%s#%d.%s: ElapsedTime went backwards (%v after %v)", kind, g.Pol, g.Name, g.Elapsed, lastElapsed)
			}
			lastElapsed, lastElapsedAt = g.Elapsed, g.Mono
		}
		if g.HasLast && !g.AttemptStart.IsZero() {
			// execution copies carry their own attempt start time, so only the function's own sequence is ordered
			if g.Pol == PolFunction {
				if g.AttemptStart.Before(lastAttemptStart) {
					bad("stats/"+kind, "%s#%d.%s: AttemptStartTime went backwards from one attempt to the next", kind, g.Pol, g.Name)
				}
				lastAttemptStart = g.AttemptStart
			}
			if g.AttemptStart.Before(start) {
				bad("stats/"+kind, "%s#%d.%s: AttemptStartTime before StartTime", kind, g.Pol, g.Name)
			}
		}
	}
	if !r.W.NoListeners && doneSeq != -1 && doneSeq != lastSeq {
		bad("events/executor", "OnDone was not the last event of the execution (seq %d of %d)", doneSeq, lastSeq)
	}
	// causal order: the k-th OnRetryScheduled precedes the k-th OnRetry of the same policy
	sched, retry := map[int][]int{}, map[int][]int{}
	for _, g := range real {
		switch g.Name {
		case "OnRetryScheduled":
			sched[g.Pol] = append(sched[g.Pol], g.Seq)
		case "OnRetry":
			retry[g.Pol] = append(retry[g.Pol], g.Seq)
		}
	}
	for pol, rs := range retry {
		for i, seq := range rs {
			if i < len(sched[pol]) && sched[pol][i] > seq {
				bad("events/retry", "retry#%d: OnRetry %d was called before its OnRetryScheduled", pol, i)
			}
		}
	}
	// OnRetry announces the attempt that is about to run: the function entered next with the same attempt number (if the
	// attempt gets that far) reads the same AttemptStartTime, and that time is not earlier than the moment at which the
	// retry was scheduled
	{
		for i, g := range real {
			if g.Name != "OnRetry" || !g.HasLast || g.AttemptStart.IsZero() {
				continue
			}
			for _, f := range real[i+1:] {
				if f.Name == "OnRetry" && f.Pol == g.Pol {
					break
				}
				if f.Pol == PolFunction && f.A == g.A && !f.AttemptStart.IsZero() {
					if !f.AttemptStart.Equal(g.AttemptStart) {
						bad("stats/retry", "retry#%d.OnRetry for attempt %d reports AttemptStartTime %d; the function, entered for that attempt, reads %d", g.Pol, g.A, g.AttemptStart.UnixNano(), f.AttemptStart.UnixNano())
					}
					break
				}
			}
		}
	}
}

func (r *Runner) compareState(res *StepResult) {
	bad := func(cat, f string, a ...any) {
		res.Mismatches = append(res.Mismatches, Mismatch{cat, fmt.Sprintf(f, a...)})
	}
	for i, b := range r.W.Insts {
		mi := r.MW.Insts[i]
		switch {
		case b.CB != nil:
			m := mi.CB
			got := b.CB.State()
			want := map[cbmodel.State]circuitbreaker.State{cbmodel.Closed: circuitbreaker.ClosedState, cbmodel.Open: circuitbreaker.OpenState, cbmodel.HalfOpen: circuitbreaker.HalfOpenState}[m.State()]
			if got != want {
				bad("state", "breaker #%d is %v, model %v", i, got, want)
				continue
			}
			if rd := int64(b.CB.RemainingDelay()); rd != m.Remaining(r.MW.Now) {
				bad("state", "breaker #%d remaining delay %d, model %d", i, rd, m.Remaining(r.MW.Now))
			}
			if m.Tainted && m.State() == cbmodel.Open {
				continue
			}
			lo, hi, _ := m.Metrics(r.MW.Now)
			mt := b.CB.Metrics()
			if n, f := mt.Executions(), mt.Failures(); n < lo.N || n > hi.N || f < lo.F || f > hi.F {
				bad("state", "breaker #%d metrics executions=%d failures=%d, model [%d,%d] / [%d,%d]", i, n, f, lo.N, hi.N, lo.F, hi.F)
			}
		case b.BH != nil:
			// free permits: take until refused, then give back
			n := 0
			for n <= b.Spec.Max && b.BH.TryAcquirePermit() {
				n++
			}
			for k := 0; k < n; k++ {
				b.BH.ReleasePermit()
			}
			if n != mi.BHFree {
				bad("state", "bulkhead #%d has %d free permits, model %d", i, n, mi.BHFree)
			}
		}
	}
	real := r.W.Cache.Content()
	if len(real) != len(r.MW.Cache) {
		bad("cache", "cache content %v, model %v", real, r.MW.Cache)
	} else {
		for _, k := range sortedKeys(real) {
			if v, ok := r.MW.Cache[k]; !ok || v != real[k] {
				bad("cache", "cache content %v, model %v", real, r.MW.Cache)
				break
			}
		}
	}
}

// RunConcurrent runs every exec step of the scenario at the same time through one shared executor stack (the scenario
// must use instances without cross-execution state: retry, fallback, never-firing timeout, 1h hedge) and compares each
// execution with the sequential model of its own script: an execution's behaviour must not depend on the others.
func RunConcurrent(sc Scenario, noListeners bool) *ScenarioResult {
	r := NewRunner(sc, noListeners)
	out := &ScenarioResult{Discards: map[string]int{}, Lenient: map[string]int{}, Actions: map[string]int{}, EventKinds: map[string]bool{}}
	type job struct {
		st   Step
		pred *Prediction
		real *RealResult
		id   int64
	}
	var jobs []*job
	for _, st := range sc.Steps {
		if st.Op != "exec" {
			continue
		}
		mw := NewModelWorld(sc.Pool, sc.T0) // no shared state: each execution is predicted from a fresh world
		mw.NoListeners = noListeners
		p := Predict(mw, sc.Stack, st, false)
		if p.Discard != "" {
			out.Discards[p.Discard]++
			continue
		}
		r.execSeq++
		jobs = append(jobs, &job{st: st, pred: p, id: r.execSeq})
	}
	start := make(chan struct{})
	done := make(chan struct{})
	for _, j := range jobs {
		go func(j *job) {
			<-start
			j.real = r.runReal(j.st, j.id)
			done <- struct{}{}
		}(j)
	}
	close(start)
	for range jobs {
		<-done
	}
	log := r.W.Rec.Snapshot()
	for _, j := range jobs {
		for _, e := range log {
			if e.Exec == j.id {
				j.real.Log = append(j.real.Log, e)
			}
		}
		res := StepResult{Step: j.st, Pred: j.pred, Real: j.real}
		j.real.CacheOps = j.pred.CacheOps // cache traffic is not attributable per execution here
		r.compareExec(j.st, j.pred, j.real, j.id, &res)
		out.Steps = append(out.Steps, res)
		for _, m := range res.Mismatches {
			out.Mismatches = append(out.Mismatches, Mismatch{m.Cat, fmt.Sprintf("concurrent execution %d: %s", j.id, m.Msg)})
		}
		if j.pred.Lenient != "" {
			out.Lenient[j.pred.Lenient]++
		} else {
			out.Execs++
		}
		n := 0
		for k, v := range j.pred.Actions {
			out.Actions[k] += v
			n += v
		}
		if n > out.MaxActions {
			out.MaxActions = n
		}
	}
	// entries that belong to no execution of this run would mean a listener was handed a foreign or missing context
	for _, e := range log {
		if e.Exec == 0 || e.Exec > r.execSeq {
			out.Mismatches = append(out.Mismatches, Mismatch{"events/" + kindOf(&sc, e.Pol), fmt.Sprintf("%s.%s was called with a context that belongs to no execution", kindOf(&sc, e.Pol), e.Name)})
			break
		}
	}
	r.Ended = false
	return out
}
