//go:build verif

package compose

import (
	"context"
	"errors"
	"fmt"

	"github.com/failsafe-go/failsafe-go/bulkhead"
	"github.com/failsafe-go/failsafe-go/circuitbreaker"
	"github.com/failsafe-go/failsafe-go/ratelimiter"
	"github.com/failsafe-go/failsafe-go/retrypolicy"
	"github.com/failsafe-go/failsafe-go/timeout"

	"verif/harness/cbmodel"
	"verif/harness/rlmodel"
)

// The reference model of composition: a big-step, sequential interpreter over explicit state, written from the
// documentation and the property texts. It predicts, for one execution, the caller-visible result, the number of function
// invocations, every listener call with its payload, what the function and fallback functions observe, the cache
// traffic, and the post-state of every stateful instance. It uses only the public error values of failsafe-go.

type MInst struct {
	Spec   Inst
	CB     *cbmodel.Model
	BHFree int
	RL     rlmodel.Model
}

type ModelWorld struct {
	NoListeners bool
	Now         int64
	Cache       map[string]int
	Insts       []*MInst
}

func NewModelWorld(pool []Inst, t0 int64) *ModelWorld {
	mw := &ModelWorld{Now: t0, Cache: map[string]int{}}
	for _, in := range pool {
		mi := &MInst{Spec: in}
		switch in.Kind {
		case "breaker":
			mc := in.CB
			switch mc.Kind {
			case 0:
				mc.FCap = mc.FT
			case 2:
				mc.FCap, mc.FExec = mc.FT, mc.FT
			case 3:
				mc.FT, mc.FCap = 1, 1
			}
			mi.CB = cbmodel.New(mc)
		case "bulkhead":
			mi.BHFree = in.Max
		case "limiter":
			if in.Smooth {
				mi.RL = rlmodel.NewSmooth(in.Unit)
			} else {
				mi.RL = rlmodel.NewBursty(in.Per, in.Unit)
			}
		}
		mw.Insts = append(mw.Insts, mi)
	}
	return mw
}

// pr is the model's PolicyResult.
type pr struct {
	val        int
	err        error
	success    bool
	successAll bool
}

type lastRes struct {
	val int
	err error
}

type retryState struct {
	failed   int
	exceeded bool
}

// Prediction is everything the model says about one execution.
type Prediction struct {
	Val         int
	Err         error
	SuccessAll  bool
	Invocations int
	Attempts    int
	Executions  int
	Retries     int
	Log         []Entry
	CacheOps    []CacheOp
	// Discard != "" means the case is dropped before the real run (and the history ends, the model state being
	// unusable): "divergent" the script does not terminate within the step budget; "fire-short" an always-fires timeout
	// would race with a short-circuit beneath it; "grey" a breaker time-window decision falls in the grey zone (L4);
	// "tainted" a breaker admission the property leaves open (L3); "fire-before-function" (set after the real run) an
	// always-fires Timeout fired before the function beneath it was even entered
	Discard string
	Lenient string // "", "L1", "L5": the statement leaves this execution's continuation open; only weak checks apply
	Actions map[string]int
}

type discard struct{ why string }

type mexec struct {
	mw    *ModelWorld
	stack []int
	step  Step
	isRun bool
	fire  bool
	p     *Prediction

	idx           int
	attempts      int
	retries       int
	executions    int
	steps         int
	rootCancelled bool
	fireDepth     int
	fired         bool
	retrySt       map[int]*retryState
	last          []lastRes
	fireHook      func()
}

func (x *mexec) act(name string) {
	if x.p.Actions == nil {
		x.p.Actions = map[string]int{}
	}
	x.p.Actions[name]++
}

func (x *mexec) cancelledAt(pos int) (bool, pr) {
	if x.fired && x.fireDepth < pos {
		return true, pr{err: timeout.ErrExceeded}
	}
	if x.rootCancelled {
		return true, pr{err: context.Canceled}
	}
	return false, pr{}
}

func (x *mexec) ctxDoneAt(pos int) bool {
	c, _ := x.cancelledAt(pos)
	return c
}

func (x *mexec) top() lastRes { return x.last[len(x.last)-1] }

// emitAttempt logs a listener call whose payload is an ExecutionAttempt.
func (x *mexec) emitAttempt(pol, pos int, name string, lv int, le error) *Entry {
	x.p.Log = append(x.p.Log, Entry{Pol: pol, Name: name, A: x.attempts, E: x.executions, R: x.retries,
		First: x.attempts == 1, Retry: x.attempts > 1, HasLast: true, LV: lv, LE: le, Canceled: x.ctxDoneAt(pos)})
	return &x.p.Log[len(x.p.Log)-1]
}

func (x *mexec) emitInfo(pol, pos int, name string, hasRes bool, res int, err error) {
	x.p.Log = append(x.p.Log, Entry{Pol: pol, Name: name, A: x.attempts, E: x.executions, R: x.retries,
		HasRes: hasRes, Res: res, Err: err, Canceled: x.ctxDoneAt(pos)})
}

func (x *mexec) emitStates(pol int, m *cbmodel.Model, from int) {
	for _, ev := range m.Events[from:] {
		x.act("breaker-transition")
		specific := map[cbmodel.State]string{cbmodel.Open: "OnOpen", cbmodel.HalfOpen: "OnHalfOpen", cbmodel.Closed: "OnClose"}[ev.New]
		x.p.Log = append(x.p.Log, Entry{Pol: pol, Name: specific, Old: ev.Old.String(), New: ev.New.String()})
		x.p.Log = append(x.p.Log, Entry{Pol: pol, Name: "OnStateChanged", Old: ev.Old.String(), New: ev.New.String()})
	}
}

func (x *mexec) run(pos int) pr {
	mw := x.mw
	if pos == len(x.stack) {
		var o Outcome
		if x.idx < len(x.step.Script) {
			o = x.step.Script[x.idx]
		} else {
			o = Outcome{V: Terminal}
		}
		if x.fire {
			o.Beh = "block"
		}
		x.idx++
		x.p.Invocations++
		if x.p.Invocations > 100 {
			panic(discard{"divergent"})
		}
		t := x.top()
		x.emitAttempt(PolFunction, pos, "fn.entry", t.val, t.err)
		switch o.Beh {
		case "block":
			if x.fireDepth < 0 {
				panic(discard{"fire-short"}) // blocking without an enclosing always-fires timeout would hang: generator rule
			}
			if !x.fired {
				x.fired = true
				if x.fireHook != nil {
					x.fireHook()
				}
			}
		case "cancel":
			x.rootCancelled = true
		}
		x.executions++
		v := o.V
		if x.isRun {
			v = 0
		}
		return pr{v, o.Err(), true, true}
	}
	pol := x.stack[pos]
	mi := mw.Insts[pol]
	in := mi.Spec
	switch in.Kind {
	case "retry":
		st := x.retrySt[pos]
		if st == nil {
			st = &retryState{}
			x.retrySt[pos] = st
		}
		for {
			x.steps++
			if x.steps > 300 {
				panic(discard{"divergent"})
			}
			r := x.run(pos + 1)
			if c, cr := x.cancelledAt(pos); c {
				return cr
			}
			if st.exceeded {
				return r
			}
			if !IsFailure(in.Conds, r.val, r.err) {
				x.emitAttempt(pol, pos, "OnSuccess", r.val, r.err)
				return pr{r.val, r.err, true, r.successAll}
			}
			x.emitAttempt(pol, pos, "OnFailure", r.val, r.err)
			st.failed++
			st.exceeded = (in.MaxRetries != -1 && st.failed > in.MaxRetries) || in.MaxDuration == "1ns"
			abort, amb := AnyMatch(in.Abort, r.val, r.err)
			if amb {
				x.p.Lenient = "L5"
				abort = true
			}
			if abort {
				x.act("retry-abort")
				x.emitAttempt(pol, pos, "OnAbort", r.val, r.err)
			}
			if st.exceeded {
				x.act("retry-exceeded")
				if abort {
					if x.p.Lenient == "" {
						x.p.Lenient = "L1"
					}
				} else {
					x.emitAttempt(pol, pos, "OnRetriesExceeded", r.val, r.err)
				}
				if !in.ReturnLast {
					return pr{err: retrypolicy.ExceededError{LastResult: r.val, LastError: r.err}}
				}
				return pr{r.val, r.err, false, false}
			}
			if abort || in.MaxRetries == 0 {
				return pr{r.val, r.err, false, false}
			}
			x.act("retry")
			x.last[len(x.last)-1] = lastRes{r.val, r.err}
			if in.DelayFunc {
				// the policy's delay function is consulted with the failure just recorded as the execution's last result
				x.emitAttempt(pol, pos, "delay.fn", r.val, r.err)
			}
			e := x.emitAttempt(pol, pos, "OnRetryScheduled", r.val, r.err)
			e.HasDelay = true
			if in.CancelInScheduled && !mw.NoListeners && !in.Muted("OnRetryScheduled") {
				x.rootCancelled = true
			}
			if c, cr := x.cancelledAt(pos); c {
				return cr // cancelled before the retry was started: no OnRetry, no new attempt
			}
			x.attempts++
			x.retries++
			x.emitAttempt(pol, pos, "OnRetry", r.val, r.err)
		}
	case "breaker":
		m := mi.CB
		from := len(m.Events)
		admit, checked := m.TryAcquire(mw.Now)
		if !checked {
			panic(discard{"tainted"})
		}
		x.emitStates(pol, m, from)
		if !admit {
			x.act("breaker-reject")
			return pr{err: circuitbreaker.ErrOpen}
		}
		r := x.run(pos + 1)
		from = len(m.Events)
		failed := IsFailure(in.Conds, r.val, r.err)
		delay := in.CB.Delay
		if in.DelayFunc && failed && r.val == BreakerDFVal {
			delay = BreakerDFWait
		}
		if failed {
			x.emitAttempt(pol, pos, "OnFailure", r.val, r.err)
		} else {
			x.emitAttempt(pol, pos, "OnSuccess", r.val, r.err)
		}
		if m.Record(!failed, mw.Now, delay) == cbmodel.GreyZone {
			panic(discard{"grey"})
		}
		x.emitStates(pol, m, from)
		if failed {
			return pr{r.val, r.err, false, false}
		}
		return pr{r.val, r.err, true, r.successAll}
	case "fallback":
		r := x.run(pos + 1)
		if !IsFailure(in.Conds, r.val, r.err) {
			x.emitAttempt(pol, pos, "OnSuccess", r.val, r.err)
			return pr{r.val, r.err, true, r.successAll}
		}
		x.emitAttempt(pol, pos, "OnFailure", r.val, r.err)
		if in.FbCancelInListener && !mw.NoListeners && !in.Muted("OnFailure") {
			x.rootCancelled = true
		}
		if c, cr := x.cancelledAt(pos); c {
			return cr
		}
		x.act("fallback")
		v, e := in.FbVal, ErrByName[in.FbErr]
		switch in.FbKind {
		case "result":
			e = nil
		case "error":
			v = 0
		default:
			x.emitAttempt(pol, pos, "fallback.fn", r.val, r.err)
			if in.FbCancel {
				x.rootCancelled = true
				if c, cr := x.cancelledAt(pos); c {
					return cr // a fallback whose function ran into a cancellation is not applied
				}
			}
		}
		x.emitInfo(pol, pos, "OnFallbackExecuted", true, v, e)
		ok := !IsFailure(in.Conds, v, e)
		return pr{v, e, ok, ok}
	case "cache":
		key := in.Key
		switch {
		case x.step.CtxKey == "int":
		case len(x.step.CtxKey) >= 2 && x.step.CtxKey[:2] == "s:":
			key = x.step.CtxKey[2:]
		}
		if key != "" {
			v, hit := mw.Cache[key]
			x.p.CacheOps = append(x.p.CacheOps, CacheOp{Op: "get", Key: key, Val: v, Hit: hit})
			if hit {
				x.act("cache-hit")
				x.emitInfo(pol, pos, "OnCacheHit", true, v, nil)
				return pr{v, nil, true, true}
			}
		}
		t := x.top()
		e := x.emitAttempt(pol, pos, "OnCacheMiss", t.val, t.err)
		if key == "" {
			e.Name = "OnCacheMiss?" // L2: with no key the miss event may or may not fire
		}
		r := x.run(pos + 1)
		should := len(in.Conds) == 0 && r.err == nil
		for _, c := range in.Conds {
			if c.Match(r.val, r.err) { // CacheIf conditions are registered as exact predicates
				should = true
			}
		}
		if should && key != "" {
			x.act("cache-store")
			mw.Cache[key] = r.val
			x.p.CacheOps = append(x.p.CacheOps, CacheOp{Op: "set", Key: key, Val: r.val})
			x.emitAttempt(pol, pos, "OnResultCached", r.val, r.err)
		}
		return r
	case "bulkhead":
		if mi.BHFree == 0 {
			x.act("bulkhead-full")
			t := x.top()
			x.emitAttempt(pol, pos, "OnFull", t.val, t.err)
			return pr{err: bulkhead.ErrFull}
		}
		mi.BHFree--
		r := x.run(pos + 1)
		mi.BHFree++
		return r
	case "timeout":
		if !in.Fire {
			x.last = append(x.last, x.top())
			r := x.run(pos + 1)
			x.last = x.last[:len(x.last)-1]
			if r.err != nil && errors.Is(r.err, timeout.ErrExceeded) {
				return pr{r.val, r.err, false, false}
			}
			return pr{r.val, r.err, true, r.successAll}
		}
		x.act("timeout-fired")
		x.fireDepth = pos
		x.fired = false
		x.last = append(x.last, x.top())
		invBefore := x.p.Invocations
		x.fireHook = func() {
			// the listener runs while the function is blocked, before anything beneath the timeout continues
			x.emitInfo(pol, pos, "OnTimeoutExceeded", true, 0, timeout.ErrExceeded)
		}
		x.run(pos + 1)
		x.fireHook = nil
		x.last = x.last[:len(x.last)-1]
		if !x.fired || x.p.Invocations == invBefore {
			panic(discard{"fire-short"})
		}
		x.fired = false
		x.fireDepth = -1
		return pr{err: timeout.ErrExceeded}
	case "hedge":
		x.last = append(x.last, x.top())
		r := x.run(pos + 1)
		x.last = x.last[:len(x.last)-1]
		if c, cr := x.cancelledAt(pos); c {
			return cr
		}
		return r
	case "limiter":
		if mi.RL.Acquire(mw.Now, 1, 0) < 0 {
			x.act("limiter-reject")
			t := x.top()
			x.emitAttempt(pol, pos, "OnRateLimitExceeded", t.val, t.err)
			return pr{err: ratelimiter.ErrExceeded}
		}
		return x.run(pos + 1)
	}
	panic("unreachable " + in.Kind)
}

// Predict runs the model for one execution step. It mutates the model world (stateful instances, cache).
func Predict(mw *ModelWorld, stack []int, step Step, fire bool) (p *Prediction) {
	p = &Prediction{}
	x := &mexec{mw: mw, stack: stack, step: step, isRun: step.Entry%4 < 2, fire: fire, p: p, attempts: 1, fireDepth: -1,
		retrySt: map[int]*retryState{}, last: []lastRes{{}}}
	defer func() {
		if r := recover(); r != nil {
			d, ok := r.(discard)
			if !ok {
				panic(r)
			}
			p.Discard = d.why
		}
	}()
	if step.PreCancel {
		x.rootCancelled = true
		x.act("pre-cancelled")
	}
	r := x.run(0)
	p.Val, p.Err, p.SuccessAll = r.val, r.err, r.successAll
	p.Attempts, p.Executions, p.Retries = x.attempts, x.executions, x.retries
	name := "OnFailure"
	if r.successAll {
		name = "OnSuccess"
	}
	x.emitInfo(PolExecutor, 0, name, true, r.val, r.err)
	x.emitInfo(PolExecutor, 0, "OnDone", true, r.val, r.err)
	return p
}

func describeErr(e error) string {
	if e == nil {
		return "nil"
	}
	if ex, ok := e.(retrypolicy.ExceededError); ok {
		return fmt.Sprintf("Exceeded{%v,%s}", ex.LastResult, describeErr(ex.LastError))
	}
	return ErrName(e)
}
