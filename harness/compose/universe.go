//go:build verif

// Package compose is the model-based composition harness shared by the C01, C02, C10, C11, C12, C16 and C17 checks:
// a JSON-serialisable description of policy instances, stacks and histories; builders that turn it into real failsafe-go
// policies with every listener wired into a recorder; a sequential reference model of the documented behaviour; and a
// lock-step runner that compares the two after every step.
package compose

import (
	"errors"
	"fmt"
	"reflect"
)

// ---------------------------------------------------------------------------------------------------------------------
// error universe: every value is comparable and is passed through the library unchanged, so identity comparison works

type TV struct{ N int } // value-receiver error type

func (e TV) Error() string { return fmt.Sprintf("TV%d", e.N) }

type TP struct{ N int } // pointer-receiver error type

func (e *TP) Error() string { return fmt.Sprintf("TP%d", e.N) }

type Marker interface{ Temporary() bool }

type tempErr struct{ s string }

func (e *tempErr) Error() string   { return e.s }
func (e *tempErr) Temporary() bool { return true }

// isErr claims (through its Is method) to be EC.
type isErr struct{}

func (e *isErr) Error() string        { return "isErr" }
func (e *isErr) Is(target error) bool { return target == EC }

// nilUnwrap has an Unwrap method that returns nil.
type nilUnwrap struct{}

func (e *nilUnwrap) Error() string { return "nilUnwrap" }
func (e *nilUnwrap) Unwrap() error { return nil }

// multiErr is a hand-written multi-error (one slot per task, nil for the tasks that succeeded), as errors.Is / errors.As
// accept them: nil slots are skipped.
type multiErr struct{ errs []error }

func (e *multiErr) Error() string   { return "multi" }
func (e *multiErr) Unwrap() []error { return e.errs }

var (
	EA = errors.New("EA")
	EB = errors.New("EB")
	EC = errors.New("EC")
	EU = errors.New("unrelated")

	tp1 = &TP{1}

	ErrByName = map[string]error{
		"":         nil,
		"EA":       EA,
		"EB":       EB,
		"EC":       EC,
		"EU":       EU,
		"wEA":      fmt.Errorf("w: %w", EA),
		"wwEA":     fmt.Errorf("ww: %w", fmt.Errorf("w: %w", EA)),
		"wEB":      fmt.Errorf("w: %w", EB),
		"jEAEB":    errors.Join(EA, EB),
		"jUwEB":    errors.Join(errors.New("x"), fmt.Errorf("w: %w", EB)),
		"TV1":      TV{1},
		"TV2":      TV{2},
		"TP1":      tp1,
		"wTV1":     fmt.Errorf("w: %w", TV{1}),
		"jTP1":     errors.Join(EU, tp1),
		"wjTP1":    fmt.Errorf("w: %w", errors.Join(EC, fmt.Errorf("w: %w", tp1))),
		"temp":     &tempErr{"temp"},
		"wtemp":    fmt.Errorf("w: %w", &tempErr{"temp2"}),
		"isEC":     &isErr{},
		"nilUnwrp": &nilUnwrap{},
		"m0TV1":    &multiErr{[]error{nil, TV{1}}},
		"m0wEA":    &multiErr{[]error{nil, nil, fmt.Errorf("w: %w", EA)}},
	}
	// SimpleErrs is the small universe used where classification richness is not the subject.
	SimpleErrs = []string{"", "", "EA", "EB", "wEA"}
	AllErrs    = []string{"", "EA", "EB", "EC", "EU", "wEA", "wwEA", "wEB", "jEAEB", "jUwEB", "TV1", "TV2", "TP1", "wTV1", "jTP1", "wjTP1", "temp", "wtemp", "isEC", "nilUnwrp", "m0TV1", "m0wEA"}
)

func ErrName(e error) string {
	if e == nil {
		return ""
	}
	for k, v := range ErrByName {
		if v != nil && reflect.TypeOf(v).Comparable() && v == e {
			return k
		}
	}
	return e.Error()
}

// ---------------------------------------------------------------------------------------------------------------------
// outcomes

// Outcome is one scripted invocation of the wrapped function.
type Outcome struct {
	V   int    `json:"v"`
	E   string `json:"e,omitempty"`
	Beh string `json:"beh,omitempty"` // "" return | "block" until cancelled, then return | "cancel" the executor context, then return
}

func (o Outcome) Err() error { return ErrByName[o.E] }

func (o Outcome) String() string {
	s := fmt.Sprintf("(%d,%s)", o.V, o.E)
	if o.Beh != "" {
		s += "/" + o.Beh
	}
	return s
}

// Terminal is what the function returns once its script is exhausted: a value no generated condition matches.
const Terminal = -1

// ---------------------------------------------------------------------------------------------------------------------
// conditions: a named finite family so that the model evaluates exactly what the policy was configured with

type Cond struct {
	K    string   `json:"k"`              // errs | types | result | if
	Errs []string `json:"errs,omitempty"` // errs: sentinels
	Type string   `json:"type,omitempty"` // types: TV &TV TP &TP marker Exceeded
	Val  int      `json:"val,omitempty"`  // result
	Pred string   `json:"pred,omitempty"` // if
}

func (c Cond) String() string {
	switch c.K {
	case "errs":
		return fmt.Sprintf("Errs%v", c.Errs)
	case "types":
		return "Type(" + c.Type + ")"
	case "result":
		return fmt.Sprintf("Res(%d)", c.Val)
	default:
		return "If(" + c.Pred + ")"
	}
}

var Preds = map[string]func(int, error) bool{
	"err!=nil":      func(v int, e error) bool { return e != nil },
	"v>=2":          func(v int, e error) bool { return v >= 2 },
	"isEB":          func(v int, e error) bool { return errors.Is(e, EB) },
	"false":         func(v int, e error) bool { return false },
	"v==1&&nil":     func(v int, e error) bool { return v == 1 && e == nil },
	"true-unless-T": func(v int, e error) bool { return v != Terminal },
	"v==0":          func(v int, e error) bool { return v == 0 },
}

var PredNames = []string{"err!=nil", "v>=2", "isEB", "false", "v==1&&nil", "true-unless-T", "v==0"}

// TypeTarget is the value handed to HandleErrorTypes / AbortOnErrorTypes / CancelOnErrorTypes.
func TypeTarget(name string) any {
	switch name {
	case "TV":
		return TV{}
	case "&TV":
		return &TV{}
	case "TP":
		return TP{}
	case "&TP":
		return &TP{}
	case "marker":
		return (*Marker)(nil)
	}
	panic("bad type target " + name)
}

var TypeNames = []string{"TV", "&TV", "TP", "&TP", "marker"}

// typeMatches is the model's own statement of "the type of the error or of anything it wraps or joins": a walk over the
// Unwrap() error / Unwrap() []error tree looking for a value of the named type.
func typeMatches(err error, name string) bool {
	if err == nil {
		return false
	}
	hit := false
	switch name {
	case "TV", "&TV":
		_, hit = err.(TV)
	case "TP", "&TP":
		_, hit = err.(*TP)
	case "marker":
		_, hit = err.(Marker)
	}
	if hit {
		return true
	}
	switch x := err.(type) {
	case interface{ Unwrap() error }:
		return typeMatches(x.Unwrap(), name)
	case interface{ Unwrap() []error }:
		for _, e := range x.Unwrap() {
			if typeMatches(e, name) {
				return true
			}
		}
	}
	return false
}

// Match says whether the condition matches the outcome, for handle conditions (strict: a result condition never matches
// an outcome that carries an error, as documented).
func (c Cond) Match(v int, e error) bool {
	switch c.K {
	case "errs":
		for _, n := range c.Errs {
			if errors.Is(e, ErrByName[n]) {
				return true
			}
		}
		return false
	case "types":
		return c.Type != "" && typeMatches(e, c.Type)
	case "result":
		return e == nil && v == c.Val
	default:
		return Preds[c.Pred](v, e)
	}
}

// inspectsErrors: does registering this condition replace the default "any error is a failure" rule?
func (c Cond) inspectsErrors() bool { return c.K != "result" }

// IsFailure is the documented classification rule (C12).
func IsFailure(cs []Cond, v int, e error) bool {
	if len(cs) == 0 {
		return e != nil
	}
	checked := false
	for _, c := range cs {
		if c.Match(v, e) {
			return true
		}
		if c.inspectsErrors() {
			checked = true
		}
	}
	return e != nil && !checked
}

// AnyMatch is the rule for abort, cancel and CacheIf conditions. ambiguous reports that the answer hinges on a result
// condition applied to an outcome that carries an error, which the documentation leaves open (DESIGN.md L5).
func AnyMatch(cs []Cond, v int, e error) (match bool, ambiguous bool) {
	for _, c := range cs {
		if c.Match(v, e) {
			return true, false
		}
	}
	for _, c := range cs {
		if c.K == "result" && e != nil && v == c.Val {
			return false, true
		}
	}
	return false, false
}
