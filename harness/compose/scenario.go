//go:build verif

package compose

import (
	"encoding/json"
	"fmt"
	"os"
	"path/filepath"
	"sort"
	"strings"

	"pgregory.net/rapid"

	"verif/harness"
)

// ScenarioResult aggregates a whole history.
type ScenarioResult struct {
	Steps      []StepResult
	Mismatches []Mismatch // with the step index prepended to the message
	Execs      int        // executions compared in full
	Discards   map[string]int
	Lenient    map[string]int
	Actions    map[string]int
	MaxActions int  // most policy actions seen in one execution
	Cancelled  bool // some execution cancelled its own context
	Async      bool
	EventKinds map[string]bool // listener kinds that fired (model side)
}

// RunScenario executes the scenario in lock-step and returns everything that was compared.
func RunScenario(sc Scenario, noListeners bool) *ScenarioResult {
	r := NewRunner(sc, noListeners)
	out := &ScenarioResult{Discards: map[string]int{}, Lenient: map[string]int{}, Actions: map[string]int{}, EventKinds: map[string]bool{}}
	for i := range sc.Steps {
		res := r.Step(i)
		out.Steps = append(out.Steps, res)
		for _, m := range res.Mismatches {
			out.Mismatches = append(out.Mismatches, Mismatch{m.Cat, fmt.Sprintf("step %d %s: %s", i, res.Step.Op, m.Msg)})
		}
		if res.Discard != "" {
			out.Discards[res.Discard]++
		}
		if p := res.Pred; p != nil && res.Discard == "" {
			if p.Lenient != "" {
				out.Lenient[p.Lenient]++
			} else {
				out.Execs++
			}
			n := 0
			for k, v := range p.Actions {
				out.Actions[k] += v
				n += v
			}
			if n > out.MaxActions {
				out.MaxActions = n
			}
			for _, e := range p.Log {
				if e.Pol >= 0 {
					out.EventKinds[sc.Pool[e.Pol].Kind+"."+strings.TrimSuffix(e.Name, "?")] = true
				}
			}
			for _, o := range res.Step.Script {
				if o.Beh == "cancel" {
					out.Cancelled = true
				}
			}
			if res.Step.Entry >= 4 {
				out.Async = true
			}
		}
		if r.Ended {
			break
		}
	}
	for _, m := range r.Finish() {
		out.Mismatches = append(out.Mismatches, Mismatch{m.Cat, "end of history: " + m.Msg})
	}
	return out
}

// First returns the first mismatch whose category is accepted by want.
func (sr *ScenarioResult) First(want func(cat string) bool) *Mismatch {
	for i := range sr.Mismatches {
		if want(sr.Mismatches[i].Cat) {
			return &sr.Mismatches[i]
		}
	}
	return nil
}

func (sr *ScenarioResult) ActionString() string {
	ks := make([]string, 0, len(sr.Actions))
	for k := range sr.Actions {
		ks = append(ks, k)
	}
	sort.Strings(ks)
	return strings.Join(ks, "+")
}

// Check runs a scenario and reports the first mismatch in the wanted categories as a violation of prop.
func Check(t harness.TB, prop, test string, sc Scenario, noListeners bool, want func(cat string) bool) *ScenarioResult {
	t.Helper()
	sr := RunScenario(sc, noListeners)
	if m := sr.First(want); m != nil {
		harness.Violation(t, prop, test, SigOf(m.Cat), sc, "%s\n  stack %s\n  steps %v", m, sc.StackString(), sc.Steps)
	}
	return sr
}

func SigOf(cat string) string { return strings.ReplaceAll(cat, "/", "-") }

// PropCfg is a property over generated scenarios: a generator profile, the mismatch categories the property claims, and
// its non-trivial rule.
type PropCfg struct {
	Prop, Test string
	Opts       func(t *rapid.T) GenOpts
	Want       func(cat string) bool
	Nontrivial func(sc Scenario, sr *ScenarioResult) bool
	Classes    func(sc Scenario, sr *ScenarioResult) []string
}

func (pc PropCfg) Run(st *harness.Stats) func(*rapid.T) {
	return func(t *rapid.T) {
		sc := GenScenario(t, pc.Opts(t))
		noListeners := rapid.IntRange(0, 7).Draw(t, "noListeners") == 0
		sr := Check(t, pc.Prop, pc.Test, sc, noListeners, pc.Want)
		pc.Record(st, sc, sr)
	}
}

func (pc PropCfg) Regress(t harness.TB, st *harness.Stats, dir string) {
	for name, sc := range LoadScenarios(t, dir) {
		sr := Check(t, pc.Prop, "TestRegress", sc, false, pc.Want)
		pc.Record(st, sc, sr)
		st.Sample(name, func() any { return sc.Sample() })
	}
}

// Record classifies a finished scenario for the evidence file.
func (pc PropCfg) Record(st *harness.Stats, sc Scenario, sr *ScenarioResult) {
	for k, v := range sr.Discards {
		st.Count("discarded_"+k, v)
	}
	for k, v := range sr.Lenient {
		st.Count("lenient_"+k, v)
	}
	st.Count("executions_compared", sr.Execs)
	nt := pc.Nontrivial(sc, sr)
	repeated := false
	seen := map[int]bool{}
	kinds := map[string]bool{}
	for _, p := range sc.Stack {
		if seen[p] {
			repeated = true
		}
		seen[p] = true
		kinds[sc.Pool[p].Kind] = true
	}
	classes := []string{fmt.Sprintf("stack-len=%d", len(sc.Stack))}
	for k := range kinds {
		classes = append(classes, "kind="+k)
	}
	if repeated {
		classes = append(classes, "repeated-instance")
	}
	if sr.Async {
		classes = append(classes, "async")
	}
	if sr.Cancelled {
		classes = append(classes, "self-cancel")
	}
	for k := range sr.Actions {
		classes = append(classes, "action="+k)
	}
	if pc.Classes != nil {
		classes = append(classes, pc.Classes(sc, sr)...)
	}
	var scripts []string
	for _, s := range sc.Steps {
		if s.Op == "exec" {
			scripts = append(scripts, fmt.Sprint(s.Script))
		}
	}
	key := sc.KindString() + "|" + sr.ActionString() + "|" + strings.Join(scripts, ";")
	st.Case(key, nt, classes...)
	if nt {
		st.Sample(key, func() any { return sc.Sample() })
	}
}

// Sample renders a scenario for the evidence file.
func (sc Scenario) Sample() any {
	steps := make([]string, len(sc.Steps))
	for i, s := range sc.Steps {
		steps[i] = s.String()
	}
	return map[string]any{"stack": sc.StackString(), "steps": steps}
}

// LoadScenarios reads saved scenarios (plain, or nested in a violation record) for the regression tier.
func LoadScenarios(t harness.TB, dirDefault string) map[string]Scenario {
	dir := os.Getenv("VERIF_REGRESS_DIR")
	if dir == "" {
		dir = dirDefault
	}
	files, _ := filepath.Glob(filepath.Join(dir, "*.json"))
	if p := os.Getenv("VERIF_REPLAY"); p != "" {
		files = []string{p}
	}
	out := map[string]Scenario{}
	for _, f := range files {
		b, err := os.ReadFile(f)
		if err != nil {
			t.Fatalf("%v", err)
		}
		var sc Scenario
		_ = json.Unmarshal(b, &sc)
		if len(sc.Steps) == 0 {
			var vr struct {
				Scenario Scenario `json:"scenario"`
			}
			_ = json.Unmarshal(b, &vr)
			sc = vr.Scenario
		}
		if len(sc.Steps) > 0 {
			out[filepath.Base(f)] = sc
		}
	}
	return out
}
