//go:build verif

package compose

import (
	"fmt"
	"strings"

	"verif/harness/cbmodel"
)

// Inst describes one policy instance. Only the fields of its Kind are used.
type Inst struct {
	Kind string `json:"kind"` // retry breaker fallback cache bulkhead timeout hedge limiter

	Conds []Cond `json:"conds,omitempty"` // handle conditions (retry, breaker, fallback) or CacheIf conditions (cache)
	Abort []Cond `json:"abort,omitempty"` // retry abort conditions / hedge cancel conditions

	// retry
	MaxRetries     int    `json:"max_retries,omitempty"` // -1 unlimited
	UseMaxAttempts bool   `json:"use_max_attempts,omitempty"`
	ReturnLast     bool   `json:"return_last,omitempty"`
	MaxDuration    string `json:"max_duration,omitempty"` // "" | "1ns" (always exceeded after the first failure) | "1h"

	// CancelInScheduled: the OnRetryScheduled listener cancels the execution's context (a cancellation that lands exactly
	// between the decision to retry and the start of the retry)
	CancelInScheduled bool `json:"cancel_in_scheduled,omitempty"`

	// breaker (virtual clock)
	CB        cbmodel.Config `json:"cb,omitempty"`
	DelayFunc bool           `json:"delay_func,omitempty"` // breaker: LastResult()==3 -> 5ns, else no opinion; retry: a recording delay function without an opinion

	// fallback
	FbKind string `json:"fb_kind,omitempty"` // result | error | func
	FbVal  int    `json:"fb_val,omitempty"`
	FbErr  string `json:"fb_err,omitempty"`
	// Plain: built through the package's convenience constructor instead of a builder (retrypolicy.WithDefaults,
	// fallback.WithResult/WithError/WithFunc, cachepolicy.With, bulkhead.With, timeout.With, hedgepolicy.WithDelay,
	// ratelimiter.SmoothWithMaxRate/Bursty); the configuration is the one that constructor documents, no listeners
	Plain bool `json:"plain,omitempty"`
	// Reuse: after Build the builder is used again (retry, fallback, timeout, hedge: the builders whose Build copies the
	// configuration): a different set of listeners is registered on it and a second policy is built and thrown away. The
	// first policy keeps reporting to the listeners it was built with; the later ones must stay silent.
	Reuse bool `json:"reuse,omitempty"`

	// Mute: listeners of this instance that are NOT registered (by name, e.g. "OnStateChanged", "OnOpen", "OnRetry")
	Mute []string `json:"mute,omitempty"`

	// FbCancel: the fallback function (kind func) cancels the execution's context before returning
	FbCancel bool `json:"fb_cancel,omitempty"`
	// FbCancelInListener: the fallback's own OnFailure listener cancels the execution's context: the cancellation lands
	// after the inner failure was classified and before the fallback would be applied, so it is not applied
	FbCancelInListener bool `json:"fb_cancel_in_listener,omitempty"`

	// cache
	Key string `json:"key,omitempty"`
	// EarlierKey: the builder was first given this key and then Key (possibly the empty one): the later call replaces
	EarlierKey string `json:"earlier_key,omitempty"`

	// bulkhead
	Max       int `json:"max,omitempty"`
	MaxWaitMs int `json:"max_wait_ms,omitempty"`

	// timeout
	Fire bool `json:"fire,omitempty"` // false: 1h (never fires); true: 2ms and everything beneath it blocks (always fires)

	// hedge (delay 1h: sequential semantics)
	MaxHedges int `json:"max_hedges,omitempty"`

	// limiter (virtual stopwatch, max wait 0)
	Smooth bool  `json:"smooth,omitempty"`
	Unit   int64 `json:"unit,omitempty"`
	Per    int   `json:"per,omitempty"`
}

func (in Inst) String() string {
	s := in.describe()
	if in.Plain {
		s += "[convenience constructor]"
	} else if len(in.Mute) > 0 {
		s += fmt.Sprintf("[without listeners %v]", in.Mute)
	}
	if in.Reuse {
		s += "[builder reused afterwards]"
	}
	if in.EarlierKey != "" {
		s += fmt.Sprintf("[WithKey(%q) replaced]", in.EarlierKey)
	}
	return s
}

func (in Inst) describe() string {
	switch in.Kind {
	case "retry":
		s := fmt.Sprintf("Retry{max=%d", in.MaxRetries)
		if len(in.Conds) > 0 {
			s += fmt.Sprintf(" h=%v", in.Conds)
		}
		if len(in.Abort) > 0 {
			s += fmt.Sprintf(" a=%v", in.Abort)
		}
		if in.ReturnLast {
			s += " last"
		}
		if in.MaxDuration != "" {
			s += " dur=" + in.MaxDuration
		}
		if in.CancelInScheduled {
			s += " cancel-in-scheduled"
		}
		if in.DelayFunc {
			s += " delay-fn"
		}
		return s + "}"
	case "breaker":
		return fmt.Sprintf("CB{%s h=%v df=%v}", in.CB, in.Conds, in.DelayFunc)
	case "fallback":
		c := ""
		if in.FbCancel {
			c = " cancels"
		}
		if in.FbCancelInListener {
			c += " OnFailure-cancels"
		}
		return fmt.Sprintf("FB{%s->(%d,%s)%s h=%v}", in.FbKind, in.FbVal, in.FbErr, c, in.Conds)
	case "cache":
		return fmt.Sprintf("Cache{key=%q if=%v}", in.Key, in.Conds)
	case "bulkhead":
		return fmt.Sprintf("BH{%d wait=%dms}", in.Max, in.MaxWaitMs)
	case "timeout":
		if in.Fire {
			return "TO{fires}"
		}
		return "TO{never}"
	case "hedge":
		return fmt.Sprintf("Hedge{max=%d 1h c=%v}", in.MaxHedges, in.Abort)
	case "limiter":
		if in.Smooth {
			return fmt.Sprintf("RL{smooth %d}", in.Unit)
		}
		return fmt.Sprintf("RL{bursty %d/%d}", in.Per, in.Unit)
	}
	return "?"
}

// Step is one step of a history.
type Step struct {
	Op string `json:"op"` // exec advance bh-take bh-release cb-op rl-take cache-put cache-del

	// exec
	Entry  int       `json:"entry,omitempty"`   // 0 Run 1 RunWithExecution 2 Get 3 GetWithExecution, +4 = Async
	CtxKey string    `json:"ctx_key,omitempty"` // "" none | "s:<key>" string key | "int" non-string key
	Script []Outcome `json:"script,omitempty"`
	// EarlierCtx: the Executor is first given another context -- "plain": one with an unrelated value, "s:<key>": one that
	// carries a cache key of its own -- and then the execution's context: WithContext configures the context it is given,
	// nothing of the earlier one remains
	EarlierCtx string `json:"earlier_ctx,omitempty"`
	// PreCancel: the caller's context is already cancelled when the execution starts
	PreCancel bool `json:"pre_cancel,omitempty"`
	// TopLevel: the execution goes through the package-level failsafe.Get / GetWithExecution / GetAsync /
	// GetWithExecutionAsync (entries 2, 3, 6, 7) instead of an Executor: no context, no completion listeners
	TopLevel bool `json:"top_level,omitempty"`

	Target int    `json:"target,omitempty"` // pool index for standalone ops
	D      int64  `json:"d,omitempty"`      // advance
	CbOp   string `json:"cb_op,omitempty"`  // success failure open halfopen close acquire
	N      int    `json:"n,omitempty"`      // rl-take permits
	Key    string `json:"key,omitempty"`
	Val    int    `json:"val,omitempty"`
}

func (s Step) String() string {
	switch s.Op {
	case "exec":
		if s.PreCancel {
			return fmt.Sprintf("exec(entry=%d key=%q script=%v ctx-already-cancelled)", s.Entry, s.CtxKey, s.Script)
		}
		if s.TopLevel {
			return fmt.Sprintf("exec(entry=%d package-level script=%v)", s.Entry, s.Script)
		}
		if s.EarlierCtx != "" {
			return fmt.Sprintf("exec(entry=%d key=%q script=%v executor-had-context=%s)", s.Entry, s.CtxKey, s.Script, s.EarlierCtx)
		}
		return fmt.Sprintf("exec(entry=%d key=%q script=%v)", s.Entry, s.CtxKey, s.Script)
	case "advance":
		return fmt.Sprintf("advance(%d)", s.D)
	case "cb-op":
		return fmt.Sprintf("cb[%d].%s", s.Target, s.CbOp)
	case "rl-take":
		return fmt.Sprintf("rl[%d].try(%d)", s.Target, s.N)
	case "cache-put":
		return fmt.Sprintf("cache.put(%q,%d)", s.Key, s.Val)
	case "cache-del":
		return fmt.Sprintf("cache.del(%q)", s.Key)
	default:
		return fmt.Sprintf("%s[%d]", s.Op, s.Target)
	}
}

// Scenario is a complete generated case: a pool of instances, a stack of indexes into it (with repetition), a history.
type Scenario struct {
	Pool  []Inst `json:"pool"`
	Stack []int  `json:"stack"`
	Steps []Step `json:"steps"`
	T0    int64  `json:"t0,omitempty"`
	// ExecMute: completion listeners (OnSuccess, OnFailure, OnDone) the executor does NOT register
	ExecMute []string `json:"exec_mute,omitempty"`
}

func (sc Scenario) execMuted(name string) bool {
	for _, m := range sc.ExecMute {
		if m == name {
			return true
		}
	}
	return false
}

func (sc Scenario) StackString() string {
	parts := make([]string, len(sc.Stack))
	for i, p := range sc.Stack {
		parts[i] = fmt.Sprintf("#%d:%s", p, sc.Pool[p])
	}
	s := "[" + strings.Join(parts, " > ") + "]"
	if len(sc.ExecMute) > 0 {
		s += fmt.Sprintf(" executor without %v", sc.ExecMute)
	}
	return s
}

// KindString is the abstract shape used for distinctness hashing: kinds in stack order.
func (sc Scenario) KindString() string {
	var sb strings.Builder
	for _, p := range sc.Stack {
		in := sc.Pool[p]
		sb.WriteString(in.Kind[:2])
		switch in.Kind {
		case "retry":
			fmt.Fprintf(&sb, "%d", in.MaxRetries)
		case "timeout":
			if in.Fire {
				sb.WriteString("!")
			}
		}
		fmt.Fprintf(&sb, "#%d,", p)
	}
	return sb.String()
}

func (sc Scenario) usesFire() bool {
	for _, p := range sc.Stack {
		if sc.Pool[p].Kind == "timeout" && sc.Pool[p].Fire {
			return true
		}
	}
	return false
}

// Muted reports whether the instance leaves the named listener unregistered.
func (in Inst) Muted(name string) bool {
	for _, m := range in.Mute {
		if m == name {
			return true
		}
	}
	return false
}

// ListenerNames lists the listeners each policy kind offers.
var ListenerNames = map[string][]string{
	"retry":    {"OnSuccess", "OnFailure", "OnRetry", "OnRetriesExceeded", "OnAbort", "OnRetryScheduled"},
	"breaker":  {"OnSuccess", "OnFailure", "OnStateChanged", "OnOpen", "OnHalfOpen", "OnClose"},
	"fallback": {"OnSuccess", "OnFailure", "OnFallbackExecuted"},
	"cache":    {"OnCacheMiss", "OnResultCached", "OnCacheHit"},
	"bulkhead": {"OnFull"},
	"timeout":  {"OnTimeoutExceeded"},
	"hedge":    {"OnHedge"},
	"limiter":  {"OnRateLimitExceeded"},
}
