//go:build verif

package compose

import (
	"pgregory.net/rapid"

	"verif/harness/cbmodel"
)

// GenOpts selects a generator profile. Every random choice goes through rapid.
type GenOpts struct {
	Kinds       []string // instance kinds to draw from (repeat a kind to weight it)
	MaxPool     int
	MaxStack    int
	MinStack    int
	MaxSteps    int
	MaxScript   int
	RichErrors  bool   // full error universe and type conditions (C12) instead of the simple one
	FireOneIn   int    // one history in N may contain an always-fires timeout (0 = never)
	Standalone  bool   // interleave standalone operations on the shared instances
	CancelOneIn int    // one execution in N scripts a cancellation of its own context (0 = never)
	Outermost   string // when set, the stack's first policy is of this kind
	MuteOneIn   int    // one instance in N registers only a random subset of its listeners (0 = all register everything)
	PlainOneIn  int    // one instance in N is built through its package's convenience constructor (0 = never)
	ReuseOneIn  int    // one copying builder in N is used again after Build: other listeners registered, a second policy built (0 = never)
}

var AllKinds = []string{"retry", "retry", "breaker", "fallback", "fallback", "cache", "bulkhead", "timeout", "hedge", "limiter"}

func DefaultOpts() GenOpts {
	return GenOpts{Kinds: AllKinds, MaxPool: 5, MaxStack: 5, MaxSteps: 6, MaxScript: 6, FireOneIn: 10, Standalone: true, CancelOneIn: 8, MuteOneIn: 3, PlainOneIn: 5, ReuseOneIn: 4}
}

func genErrName(t *rapid.T, rich bool, label string) string {
	if rich {
		return rapid.SampledFrom(AllErrs).Draw(t, label)
	}
	return rapid.SampledFrom(SimpleErrs).Draw(t, label)
}

func GenConds(t *rapid.T, label string, rich bool, max int) []Cond {
	n := rapid.IntRange(0, max).Draw(t, label+"N")
	cs := make([]Cond, n)
	for i := range cs {
		kinds := []string{"errs", "result", "if"}
		if rich {
			kinds = append(kinds, "types", "errs")
		}
		c := Cond{K: rapid.SampledFrom(kinds).Draw(t, label+"K")}
		switch c.K {
		case "errs":
			pool := []string{"EA", "EB"}
			if rich {
				pool = []string{"EA", "EB", "EC", "TV1", "TP1", "temp"}
			}
			// several targets in one call is its own code path (one closure per target)
			k := rapid.IntRange(1, 3).Draw(t, label+"ErrsN")
			for j := 0; j < k; j++ {
				c.Errs = append(c.Errs, rapid.SampledFrom(pool).Draw(t, label+"Err"))
			}
		case "types":
			c.Type = rapid.SampledFrom(TypeNames).Draw(t, label+"Type")
		case "result":
			c.Val = rapid.IntRange(0, 3).Draw(t, label+"Val")
		case "if":
			c.Pred = rapid.SampledFrom(PredNames).Draw(t, label+"Pred")
		}
		cs[i] = c
	}
	return cs
}

func genBreakerCfg(t *rapid.T) cbmodel.Config {
	var c cbmodel.Config
	c.Kind = rapid.SampledFrom([]int{0, 1, 1, 1, 2, 3}).Draw(t, "cbKind")
	switch c.Kind {
	case 0:
		c.FT = uint(rapid.IntRange(1, 3).Draw(t, "ft"))
	case 1:
		c.FCap = uint(rapid.IntRange(1, 4).Draw(t, "fcap"))
		c.FT = uint(rapid.IntRange(1, int(c.FCap)).Draw(t, "ft"))
	case 2:
		c.FT = uint(rapid.IntRange(1, 3).Draw(t, "ft"))
		c.Period = int64(rapid.IntRange(1, 5).Draw(t, "p10")) * 10
	case 3:
		c.FRate = uint(rapid.SampledFrom([]int{1, 34, 50, 67, 100}).Draw(t, "frate"))
		c.FExec = uint(rapid.IntRange(1, 4).Draw(t, "fexec"))
		c.Period = int64(rapid.IntRange(1, 5).Draw(t, "p10")) * 10
	}
	if rapid.Bool().Draw(t, "succ") {
		c.SCap = uint(rapid.IntRange(1, 4).Draw(t, "scap"))
		c.ST = uint(rapid.IntRange(1, int(c.SCap)).Draw(t, "st"))
	}
	c.Delay = int64(rapid.SampledFrom([]int{0, 10}).Draw(t, "cbDelay"))
	return c
}

func GenInst(t *rapid.T, o GenOpts, kind string, allowFire bool) Inst {
	in := Inst{Kind: kind}
	switch kind {
	case "retry":
		in.MaxRetries = rapid.SampledFrom([]int{0, 1, 2, 3, 5, -1}).Draw(t, "maxRetries")
		in.UseMaxAttempts = rapid.Bool().Draw(t, "useMaxAttempts")
		in.Conds = GenConds(t, "h", o.RichErrors, 3)
		in.Abort = GenConds(t, "a", o.RichErrors, 2)
		in.ReturnLast = rapid.Bool().Draw(t, "returnLast")
		in.MaxDuration = rapid.SampledFrom([]string{"", "", "", "1ns", "1h"}).Draw(t, "maxDuration")
		in.DelayFunc = rapid.IntRange(0, 3).Draw(t, "retryDelayFunc") == 0
		if o.CancelOneIn > 0 {
			in.CancelInScheduled = rapid.IntRange(1, 2*o.CancelOneIn).Draw(t, "cancelInScheduled") == 1
		}
	case "breaker":
		in.CB = genBreakerCfg(t)
		in.Conds = GenConds(t, "h", o.RichErrors, 3)
		in.DelayFunc = rapid.Bool().Draw(t, "delayFunc")
	case "fallback":
		in.Conds = GenConds(t, "h", o.RichErrors, 3)
		in.FbKind = rapid.SampledFrom([]string{"result", "error", "func", "func"}).Draw(t, "fbKind")
		in.FbVal = rapid.IntRange(0, 3).Draw(t, "fbVal")
		in.FbErr = genErrName(t, o.RichErrors, "fbErr")
		if in.FbKind == "func" && o.CancelOneIn > 0 {
			in.FbCancel = rapid.IntRange(1, o.CancelOneIn).Draw(t, "fbCancel") == 1
		}
		if o.CancelOneIn > 0 && !in.FbCancel {
			in.FbCancelInListener = rapid.IntRange(1, o.CancelOneIn).Draw(t, "fbCancelInListener") == 1
		}
		switch in.FbKind {
		case "result":
			in.FbErr = ""
		case "error":
			in.FbVal = 0
		}
	case "cache":
		in.Key = rapid.SampledFrom([]string{"", "k1", "k1", "k2"}).Draw(t, "cfgKey")
		if rapid.IntRange(0, 2).Draw(t, "keyReplaced") == 0 {
			in.EarlierKey = rapid.SampledFrom([]string{"k1", "k2", "k3"}).Draw(t, "earlierKey")
		}
		in.Conds = GenConds(t, "c", o.RichErrors, 2)
	case "bulkhead":
		in.Max = rapid.IntRange(1, 3).Draw(t, "bhMax")
		in.MaxWaitMs = rapid.SampledFrom([]int{0, 0, 1}).Draw(t, "bhWait")
	case "timeout":
		in.Fire = allowFire && rapid.Bool().Draw(t, "fire")
	case "hedge":
		in.MaxHedges = rapid.IntRange(0, 2).Draw(t, "maxHedges")
		if in.MaxHedges == 0 {
			in.Abort = GenConds(t, "c", o.RichErrors, 2)
		}
	case "limiter":
		in.Smooth = rapid.Bool().Draw(t, "smooth")
		if in.Smooth {
			in.Unit = int64(rapid.SampledFrom([]int{5, 10}).Draw(t, "rlInterval"))
		} else {
			in.Per = rapid.IntRange(1, 3).Draw(t, "rlPer")
			in.Unit = int64(rapid.SampledFrom([]int{10, 20}).Draw(t, "rlPeriod"))
		}
	}
	if o.PlainOneIn > 0 && kind != "breaker" && !(kind == "timeout" && in.Fire) && rapid.IntRange(1, o.PlainOneIn).Draw(t, "plain") == 1 {
		// the configuration the convenience constructor documents (a breaker needs the builder for the virtual clock)
		in.Plain = true
		in.Mute = append([]string(nil), ListenerNames[kind]...)
		switch kind {
		case "retry":
			in.MaxRetries, in.UseMaxAttempts, in.Conds, in.Abort, in.ReturnLast, in.MaxDuration, in.CancelInScheduled, in.DelayFunc = 2, false, nil, nil, false, "", false, false
		case "fallback":
			in.Conds = nil
		case "cache":
			in.Conds, in.Key, in.EarlierKey = nil, "", ""
		case "bulkhead":
			in.MaxWaitMs = 0
		case "hedge":
			in.MaxHedges, in.Abort = 1, nil
		}
	}
	return in
}

// GenScenario draws a complete scenario obeying the input-domain rules of DESIGN.md R2 / section 5.2.
func GenScenario(t *rapid.T, o GenOpts) Scenario {
	var sc Scenario
	fireMode := o.FireOneIn > 0 && rapid.IntRange(1, o.FireOneIn).Draw(t, "fireMode") == 1
	if rapid.Bool().Draw(t, "t0") {
		sc.T0 = int64(rapid.IntRange(0, 1000).Draw(t, "t0v"))
	}
	poolN := rapid.IntRange(1, o.MaxPool).Draw(t, "poolN")
	if poolN == 1 && o.MaxPool > 1 && rapid.Bool().Draw(t, "poolGrow") {
		poolN = 2
	}
	for i := 0; i < poolN; i++ {
		kind := rapid.SampledFrom(o.Kinds).Draw(t, "kind")
		if i == 0 && o.Outermost != "" {
			kind = o.Outermost
		}
		sc.Pool = append(sc.Pool, GenInst(t, o, kind, false))
	}
	n := rapid.IntRange(o.MinStack, o.MaxStack).Draw(t, "stackN")
	if n < 2 && o.MaxStack >= 3 && rapid.Bool().Draw(t, "stackGrow") {
		n = rapid.IntRange(2, o.MaxStack).Draw(t, "stackN2")
	}
	for j := 0; j < n; j++ {
		p := rapid.IntRange(0, len(sc.Pool)-1).Draw(t, "pick")
		if j == 0 && o.Outermost != "" {
			p = 0
		}
		sc.Stack = append(sc.Stack, p)
	}
	usedFire := false
	if fireMode {
		// one always-fires timeout, once, at a drawn position of the stack
		usedFire = true
		for i := range sc.Pool {
			sc.Pool[i].FbCancel = false // one cancellation source per execution: the timeout
			sc.Pool[i].FbCancelInListener = false
			sc.Pool[i].CancelInScheduled = false
		}
		sc.Pool = append(sc.Pool, Inst{Kind: "timeout", Fire: true})
		at := rapid.IntRange(0, len(sc.Stack)).Draw(t, "fireAt")
		if o.Outermost != "" && at == 0 && len(sc.Stack) > 0 {
			at = 1
		}
		st := append([]int{}, sc.Stack[:at]...)
		st = append(st, len(sc.Pool)-1)
		sc.Stack = append(st, sc.Stack[at:]...)
	}
	hasKind := func(kind string) bool {
		for _, p := range sc.Stack {
			if sc.Pool[p].Kind == kind {
				return true
			}
		}
		return false
	}
	hasHedge := hasKind("hedge")
	stackCancels := func() bool {
		for _, p := range sc.Stack {
			if sc.Pool[p].FbCancel || sc.Pool[p].FbCancelInListener || sc.Pool[p].CancelInScheduled {
				return true
			}
		}
		return false
	}
	if hasHedge {
		// A hedge abandons its attempts when the execution is cancelled: what is inside the hedge then finishes
		// asynchronously, which a sequential model cannot follow. Cancellation x hedge is covered by C08/C09; here a stack
		// with a hedge gets no cancellation source (and no always-fires timeout around the hedge, below).
		for i := range sc.Pool {
			sc.Pool[i].FbCancel = false
			sc.Pool[i].FbCancelInListener = false
			sc.Pool[i].CancelInScheduled = false
		}
	}
	if usedFire {
		// beneath an always-fires timeout: no bulkhead / limiter (they branch on cancellation before the function is
		// entered) and no hedge (see above); nowhere: unlimited retries
		after := false
		clean := sc.Stack[:0]
		for _, p := range sc.Stack {
			in := sc.Pool[p]
			if in.Kind == "timeout" && in.Fire {
				after = true
			} else if after && (in.Kind == "bulkhead" || in.Kind == "limiter" || in.Kind == "hedge") {
				continue
			}
			if in.Kind == "retry" && in.MaxRetries == -1 {
				continue
			}
			clean = append(clean, p)
		}
		sc.Stack = clean
	}
	// listeners: some instances register only a subset of theirs (a policy must not depend on a listener being there)
	if o.MuteOneIn > 0 && rapid.IntRange(1, o.MuteOneIn).Draw(t, "muteExec") == 1 {
		for _, name := range []string{"OnSuccess", "OnFailure", "OnDone"} {
			if rapid.Bool().Draw(t, "muteExecListener") {
				sc.ExecMute = append(sc.ExecMute, name)
			}
		}
	}
	if o.MuteOneIn > 0 {
		for i := range sc.Pool {
			if sc.Pool[i].Plain || rapid.IntRange(1, o.MuteOneIn).Draw(t, "muteSome") != 1 {
				continue
			}
			for _, name := range ListenerNames[sc.Pool[i].Kind] {
				if (name == "OnRetryScheduled" && sc.Pool[i].CancelInScheduled) || (name == "OnFailure" && sc.Pool[i].FbCancelInListener) {
					continue // that listener is the scenario's cancellation source
				}
				if rapid.Bool().Draw(t, "mute") {
					sc.Pool[i].Mute = append(sc.Pool[i].Mute, name)
				}
			}
		}
	}
	// builders used as templates: the first policy built must keep the listeners it was built with
	if o.ReuseOneIn > 0 {
		for i := range sc.Pool {
			k := sc.Pool[i].Kind
			if sc.Pool[i].Plain || !(k == "retry" || k == "fallback" || k == "timeout" || k == "hedge") {
				continue
			}
			sc.Pool[i].Reuse = rapid.IntRange(1, o.ReuseOneIn).Draw(t, "reuse") == 1
		}
	}
	targets := func(kind string) []int {
		var out []int
		for i, in := range sc.Pool {
			if in.Kind == kind {
				out = append(out, i)
			}
		}
		return out
	}
	steps := rapid.IntRange(1, o.MaxSteps).Draw(t, "steps")
	for s := 0; s < steps; s++ {
		ops := []string{"exec", "exec", "exec", "exec"}
		if o.Standalone {
			ops = append(ops, "advance")
			if len(targets("bulkhead")) > 0 {
				ops = append(ops, "bh-take", "bh-release")
			}
			if len(targets("breaker")) > 0 {
				ops = append(ops, "cb-op")
			}
			if len(targets("limiter")) > 0 {
				ops = append(ops, "rl-take")
			}
			if len(targets("cache")) > 0 {
				ops = append(ops, "cache-put", "cache-del")
			}
		}
		st := Step{Op: rapid.SampledFrom(ops).Draw(t, "stepOp")}
		switch st.Op {
		case "advance":
			st.D = int64(rapid.SampledFrom([]int{1, 4, 5, 9, 10, 11, 45, 50, 100}).Draw(t, "adv"))
		case "bh-take", "bh-release":
			st.Target = rapid.SampledFrom(targets("bulkhead")).Draw(t, "target")
		case "cb-op":
			st.Target = rapid.SampledFrom(targets("breaker")).Draw(t, "target")
			st.CbOp = rapid.SampledFrom([]string{"success", "failure", "failure", "open", "halfopen", "close", "acquire"}).Draw(t, "cbOp")
		case "rl-take":
			st.Target = rapid.SampledFrom(targets("limiter")).Draw(t, "target")
			st.N = rapid.IntRange(1, 3).Draw(t, "rlN")
		case "cache-put":
			st.Key = rapid.SampledFrom([]string{"k1", "k2", "k3"}).Draw(t, "cacheKey")
			st.Val = rapid.IntRange(0, 3).Draw(t, "cacheVal")
		case "cache-del":
			st.Key = rapid.SampledFrom([]string{"k1", "k2", "k3"}).Draw(t, "cacheKey")
		case "exec":
			st.Entry = rapid.IntRange(0, 7).Draw(t, "entry")
			keys := []string{"", "", "", "s:k1", "s:k3", "int"}
			// an empty string supplied through the context is a string key that takes precedence, and it is no key: the
			// cache is neither read nor written, whatever key is configured (C11: "equal, different, empty")
			keys = append(keys, "s:")
			if len(targets("cache")) > 0 {
				st.CtxKey = rapid.SampledFrom(keys).Draw(t, "ctxKey")
			}
			nOut := rapid.IntRange(0, o.MaxScript).Draw(t, "scriptN")
			cancelMode := !usedFire && !hasHedge && o.CancelOneIn > 0 && rapid.IntRange(1, o.CancelOneIn).Draw(t, "cancelMode") == 1
			// a context that is already done: a bulkhead chooses at random between the permit and the context then, and so
			// does a rate limiter between its zero wait and the cancellation, so only stacks without either
			if cancelMode && !hasKind("bulkhead") && !hasKind("limiter") {
				st.PreCancel = rapid.IntRange(0, 2).Draw(t, "preCancel") == 0
			}
			// the package-level functions: no context to carry a cache key or a cancellation handle
			if !cancelMode && st.CtxKey == "" && st.Entry%4 >= 2 && !stackCancels() && rapid.IntRange(0, 5).Draw(t, "topLevel") == 0 {
				st.TopLevel = true
			}
			if !st.TopLevel && rapid.IntRange(0, 4).Draw(t, "earlierCtx") == 0 {
				st.EarlierCtx = rapid.SampledFrom([]string{"plain", "s:k1", "s:k2", "s:k3"}).Draw(t, "earlierCtxKind")
			}
			for k := 0; k < nOut; k++ {
				oc := Outcome{V: rapid.IntRange(0, 3).Draw(t, "v"), E: genErrName(t, o.RichErrors, "e")}
				if cancelMode && rapid.IntRange(0, 2).Draw(t, "c") == 0 {
					oc.Beh = "cancel"
				}
				st.Script = append(st.Script, oc)
			}
		}
		sc.Steps = append(sc.Steps, st)
	}
	return sc
}
