//go:build verif

package compose

import (
	"context"
	"errors"
	"fmt"
	"sort"
	"sync"
	"time"

	"github.com/failsafe-go/failsafe-go"
	"github.com/failsafe-go/failsafe-go/bulkhead"
	"github.com/failsafe-go/failsafe-go/cachepolicy"
	"github.com/failsafe-go/failsafe-go/circuitbreaker"
	"github.com/failsafe-go/failsafe-go/fallback"
	"github.com/failsafe-go/failsafe-go/hedgepolicy"
	"github.com/failsafe-go/failsafe-go/ratelimiter"
	"github.com/failsafe-go/failsafe-go/retrypolicy"
	"github.com/failsafe-go/failsafe-go/timeout"
)

// ---------------------------------------------------------------------------------------------------------------------
// recorder: a mutex-ordered log of everything user code can observe

const (
	PolExecutor = -1
	PolFunction = -2
)

type execIDKey struct{}

func WithExecID(ctx context.Context, id int64) context.Context {
	return context.WithValue(ctx, execIDKey{}, id)
}

type cancelKey struct{}

// WithCancelHandle stores the execution's own cancel function in its context so that scripted listeners and fallback
// functions can cancel "their" execution (also when several executions share the listeners).
func WithCancelHandle(ctx context.Context, cancel func()) context.Context {
	return context.WithValue(ctx, cancelKey{}, cancel)
}

func cancelOf(ctx context.Context) func() {
	if ctx == nil {
		return nil
	}
	f, _ := ctx.Value(cancelKey{}).(func())
	return f
}

func execID(ctx context.Context) int64 {
	if ctx == nil {
		return 0
	}
	id, _ := ctx.Value(execIDKey{}).(int64)
	return id
}

// Entry is one observation. Model entries use the same type (without times).
type Entry struct {
	Seq  int
	Exec int64
	Pol  int
	Name string

	A, E, R, H int // Attempts, Executions, Retries, Hedges
	First      bool
	Retry      bool
	Hedge      bool

	HasLast bool // payload is an ExecutionAttempt: LastResult/LastError are available
	LV      int
	LE      error

	HasDelay bool
	Delay    time.Duration

	HasRes bool // payload carries Result/Error (done events)
	Res    int
	Err    error

	Canceled bool // the payload's context was already done when the observation was made

	Start, AttemptStart time.Time
	Elapsed             time.Duration
	Mono                time.Time

	Old, New string // breaker state events
}

type Recorder struct {
	mu   sync.Mutex
	log  []Entry
	kept []keptEvent // listener payloads, held on to the way a listener may (to be read again when the execution is over)
}

type keptEvent struct {
	was Entry
	ev  failsafe.ExecutionAttempt[int]
}

// AttemptEvent is Attempt for the payload of an event: the payload is also kept, and Unstable reads it again later. What
// an event reports is what was the case when it was delivered, whoever reads it and whenever.
func (r *Recorder) AttemptEvent(pol int, name string, e failsafe.ExecutionAttempt[int]) Entry {
	en := r.Attempt(pol, name, e)
	r.mu.Lock()
	r.kept = append(r.kept, keptEvent{en, e})
	r.mu.Unlock()
	return en
}

// Unstable re-reads every kept event payload and describes the first one that no longer says what it said on delivery.
func (r *Recorder) Unstable() string {
	r.mu.Lock()
	kept := append([]keptEvent(nil), r.kept...)
	r.mu.Unlock()
	for _, k := range kept {
		now := r.Attempt(k.was.Pol, k.was.Name, k.ev)
		w := k.was
		// (the counters are shared between an execution and its copies by design, so that overlapping attempts see totals:
		// Attempts, Retries, Hedges and what derives from them keep counting; what was copied by value must stay)
		// (and LastError reports the context's error once the context is done, when there was no error before)
		sameErr := SameErr(now.LE, w.LE) || (w.LE == nil && now.Canceled)
		if now.LV != w.LV || !sameErr || !now.AttemptStart.Equal(w.AttemptStart) || !now.Start.Equal(w.Start) {
			return fmt.Sprintf("%s (policy %d) said attempts=%d executions=%d retries=%d hedges=%d first=%v retry=%v hedge=%v last=(%d,%v) attemptStart=%v when delivered, and attempts=%d executions=%d retries=%d hedges=%d first=%v retry=%v hedge=%v last=(%d,%v) attemptStart=%v when read again after the execution",
				w.Name, w.Pol, w.A, w.E, w.R, w.H, w.First, w.Retry, w.Hedge, w.LV, w.LE, w.AttemptStart.UnixNano(), now.A, now.E, now.R, now.H, now.First, now.Retry, now.Hedge, now.LV, now.LE, now.AttemptStart.UnixNano())
		}
	}
	return ""
}

func (r *Recorder) add(e Entry) {
	r.mu.Lock()
	e.Seq = len(r.log)
	e.Mono = time.Now()
	r.log = append(r.log, e)
	r.mu.Unlock()
}

func (r *Recorder) Reset() {
	r.mu.Lock()
	r.log = nil
	r.kept = nil
	r.mu.Unlock()
}

func (r *Recorder) Snapshot() []Entry {
	r.mu.Lock()
	defer r.mu.Unlock()
	return append([]Entry(nil), r.log...)
}

func (r *Recorder) Attempt(pol int, name string, e failsafe.ExecutionAttempt[int]) Entry {
	en := Entry{Pol: pol, Name: name, Exec: execID(e.Context()),
		A: e.Attempts(), E: e.Executions(), R: e.Retries(), H: e.Hedges(),
		First: e.IsFirstAttempt(), Retry: e.IsRetry(), Hedge: e.IsHedge(),
		HasLast: true, LV: e.LastResult(), LE: e.LastError(),
		Canceled: e.Context().Err() != nil,
		Start:    e.StartTime(), AttemptStart: e.AttemptStartTime(), Elapsed: e.ElapsedTime()}
	return en
}

func (r *Recorder) Info(pol int, name string, e failsafe.ExecutionInfo) Entry {
	return Entry{Pol: pol, Name: name, Exec: execID(e.Context()),
		A: e.Attempts(), E: e.Executions(), R: e.Retries(), H: e.Hedges(),
		Canceled: e.Context().Err() != nil,
		Start:    e.StartTime(), Elapsed: e.ElapsedTime()}
}

// ---------------------------------------------------------------------------------------------------------------------
// instrumented cache

type CacheOp struct {
	Op  string // get set
	Key string
	Val int
	Hit bool
}

type MapCache struct {
	mu  sync.Mutex
	M   map[string]int
	Ops []CacheOp
}

func NewMapCache() *MapCache { return &MapCache{M: map[string]int{}} }

func (c *MapCache) Get(k string) (int, bool) {
	c.mu.Lock()
	defer c.mu.Unlock()
	v, ok := c.M[k]
	c.Ops = append(c.Ops, CacheOp{Op: "get", Key: k, Val: v, Hit: ok})
	return v, ok
}

func (c *MapCache) Set(k string, v int) {
	c.mu.Lock()
	defer c.mu.Unlock()
	c.M[k] = v
	c.Ops = append(c.Ops, CacheOp{Op: "set", Key: k, Val: v})
}

func (c *MapCache) Content() map[string]int {
	c.mu.Lock()
	defer c.mu.Unlock()
	m := make(map[string]int, len(c.M))
	for k, v := range c.M {
		m[k] = v
	}
	return m
}

func (c *MapCache) TakeOps() []CacheOp {
	c.mu.Lock()
	defer c.mu.Unlock()
	o := c.Ops
	c.Ops = nil
	return o
}

func (c *MapCache) direct(put bool, k string, v int) {
	c.mu.Lock()
	defer c.mu.Unlock()
	if put {
		c.M[k] = v
	} else {
		delete(c.M, k)
	}
}

func sortedKeys(m map[string]int) []string {
	ks := make([]string, 0, len(m))
	for k := range m {
		ks = append(ks, k)
	}
	sort.Strings(ks)
	return ks
}

// ---------------------------------------------------------------------------------------------------------------------
// building real policies from specs

type handleBuilder[S any] interface {
	HandleErrors(errs ...error) S
	HandleErrorTypes(errs ...any) S
	HandleResult(result int) S
	HandleIf(predicate func(int, error) bool) S
}

func applyHandle[S any](b handleBuilder[S], cs []Cond) {
	for _, c := range cs {
		switch c.K {
		case "errs":
			es := make([]error, len(c.Errs))
			for i, n := range c.Errs {
				es[i] = ErrByName[n]
			}
			b.HandleErrors(es...)
			Scribble(es)
		case "types":
			if c.Type == "" {
				b.HandleErrorTypes() // a registration call with an empty argument list
			} else {
				b.HandleErrorTypes(TypeTarget(c.Type))
			}
		case "result":
			b.HandleResult(c.Val)
		case "if":
			b.HandleIf(Preds[c.Pred])
		}
	}
}

// Scribble overwrites a slice that was handed to a variadic registration call (HandleErrors(es...)): the caller's slice is
// the caller's, and what was registered is what it held at the time of the call.
func Scribble(es []error) {
	for i := range es {
		es[i] = errScribble
	}
}

var errScribble = errors.New("written into the caller's slice after the registration call")

type Built struct {
	Idx  int
	Spec Inst
	Pol  failsafe.Policy[int]
	CB   circuitbreaker.CircuitBreaker[int]
	BH   bulkhead.Bulkhead[int]
	RL   ratelimiter.RateLimiter[int]
}

// World is the real side of a scenario: built instances sharing a virtual clock, a cache and a recorder.
type World struct {
	Now   int64 // virtual nanoseconds: breaker clock and limiter stopwatch
	Rec   *Recorder
	Cache *MapCache
	Insts []*Built
	// FallbackHook, when set, runs inside every scripted fallback function (used by checks that need to act there)
	FallbackHook func(idx int, exec failsafe.Execution[int])
	// Listeners can be switched off (nil listeners are a different code path in several executors)
	NoListeners bool
}

const (
	FireLimit     = 2 * time.Millisecond
	BreakerDFVal  = 3
	BreakerDFWait = 5
)

func BuildWorld(pool []Inst, t0 int64, noListeners bool) *World {
	w := &World{Now: t0, Rec: &Recorder{}, Cache: NewMapCache(), NoListeners: noListeners}
	for i, in := range pool {
		w.Insts = append(w.Insts, w.build(i, in))
	}
	return w
}

func (w *World) build(i int, in Inst) *Built {
	b := &Built{Idx: i, Spec: in}
	rec := w.Rec
	L := !w.NoListeners
	on := func(name string) bool { return L && !in.Muted(name) }
	att := func(name string) func(failsafe.ExecutionEvent[int]) {
		return func(e failsafe.ExecutionEvent[int]) { rec.add(rec.AttemptEvent(i, name, e.ExecutionAttempt)) }
	}
	if in.Plain {
		switch in.Kind {
		case "retry":
			b.Pol = retrypolicy.WithDefaults[int]()
			return b
		case "cache":
			b.Pol = cachepolicy.With[int](w.Cache)
			return b
		case "bulkhead":
			b.BH = bulkhead.With[int](uint(in.Max))
			b.Pol = b.BH
			return b
		case "timeout":
			b.Pol = timeout.With[int](time.Hour)
			return b
		case "hedge":
			b.Pol = hedgepolicy.WithDelay[int](time.Hour)
			return b
		case "limiter":
			if in.Smooth {
				b.RL = ratelimiter.SmoothWithMaxRate[int](time.Duration(in.Unit))
			} else {
				b.RL = ratelimiter.Bursty[int](uint(in.Per), time.Duration(in.Unit))
			}
			ratelimiter.VerifSetStopwatch[int](b.RL, func() time.Duration { return time.Duration(w.Now) })
			b.Pol = b.RL
			return b
		}
	}
	switch in.Kind {
	case "retry":
		rb := retrypolicy.Builder[int]()
		if in.UseMaxAttempts {
			if in.MaxRetries == -1 {
				rb.WithMaxAttempts(-1)
			} else {
				rb.WithMaxAttempts(in.MaxRetries + 1)
			}
		} else {
			rb.WithMaxRetries(in.MaxRetries)
		}
		applyHandle[retrypolicy.RetryPolicyBuilder[int]](rb, in.Conds)
		for _, c := range in.Abort {
			switch c.K {
			case "errs":
				es := make([]error, len(c.Errs))
				for k, n := range c.Errs {
					es[k] = ErrByName[n]
				}
				rb.AbortOnErrors(es...)
				Scribble(es)
			case "types":
				rb.AbortOnErrorTypes(TypeTarget(c.Type))
			case "result":
				rb.AbortOnResult(c.Val)
			case "if":
				rb.AbortIf(Preds[c.Pred])
			}
		}
		if in.ReturnLast {
			rb.ReturnLastFailure()
		}
		switch in.MaxDuration {
		case "1ns":
			rb.WithMaxDuration(time.Nanosecond)
		case "1h":
			rb.WithMaxDuration(time.Hour)
		}
		if in.DelayFunc {
			rb.WithDelayFunc(func(e failsafe.ExecutionAttempt[int]) time.Duration {
				rec.add(rec.Attempt(i, "delay.fn", e))
				return -1 // no opinion: the configured (zero) delay applies
			})
		}
		if on("OnSuccess") {
			rb.OnSuccess(att("OnSuccess"))
		}
		if on("OnFailure") {
			rb.OnFailure(att("OnFailure"))
		}
		if on("OnRetry") {
			rb.OnRetry(att("OnRetry"))
		}
		if on("OnRetriesExceeded") {
			rb.OnRetriesExceeded(att("OnRetriesExceeded"))
		}
		if on("OnAbort") {
			rb.OnAbort(att("OnAbort"))
		}
		if on("OnRetryScheduled") {
			rb.OnRetryScheduled(func(e failsafe.ExecutionScheduledEvent[int]) {
				en := rec.AttemptEvent(i, "OnRetryScheduled", e.ExecutionAttempt)
				en.HasDelay, en.Delay = true, e.Delay
				rec.add(en)
				if f := cancelOf(e.Context()); in.CancelInScheduled && f != nil {
					f()
				}
			})
		}
		b.Pol = rb.Build()
		if in.Reuse {
			rb.OnRetry(att("LATER.OnRetry")).OnRetriesExceeded(att("LATER.OnRetriesExceeded")).OnAbort(att("LATER.OnAbort")).
				OnRetryScheduled(func(e failsafe.ExecutionScheduledEvent[int]) {
					rec.add(rec.Attempt(i, "LATER.OnRetryScheduled", e.ExecutionAttempt))
				}).Build()
		}
	case "breaker":
		c := in.CB
		cb := circuitbreaker.Builder[int]()
		switch c.Kind {
		case 0:
			cb.WithFailureThreshold(c.FT)
		case 1:
			cb.WithFailureThresholdRatio(c.FT, c.FCap)
		case 2:
			cb.WithFailureThresholdPeriod(c.FT, time.Duration(c.Period))
		case 3:
			cb.WithFailureRateThreshold(c.FRate, c.FExec, time.Duration(c.Period))
		}
		if c.ST != 0 {
			cb.WithSuccessThresholdRatio(c.ST, c.SCap)
		}
		cb.WithDelay(time.Duration(c.Delay))
		if in.DelayFunc {
			cb.WithDelayFunc(func(e failsafe.ExecutionAttempt[int]) time.Duration {
				if e.LastResult() == BreakerDFVal {
					return BreakerDFWait
				}
				return -1
			})
		}
		applyHandle[circuitbreaker.CircuitBreakerBuilder[int]](cb, in.Conds)
		if on("OnSuccess") {
			cb.OnSuccess(att("OnSuccess"))
		}
		if on("OnFailure") {
			cb.OnFailure(att("OnFailure"))
		}
		state := func(name string) func(circuitbreaker.StateChangedEvent) {
			return func(e circuitbreaker.StateChangedEvent) {
				rec.add(Entry{Pol: i, Name: name, Exec: execID(e.Context()), Old: e.OldState.String(), New: e.NewState.String()})
			}
		}
		if on("OnStateChanged") {
			cb.OnStateChanged(state("OnStateChanged"))
		}
		if on("OnOpen") {
			cb.OnOpen(state("OnOpen"))
		}
		if on("OnHalfOpen") {
			cb.OnHalfOpen(state("OnHalfOpen"))
		}
		if on("OnClose") {
			cb.OnClose(state("OnClose"))
		}
		circuitbreaker.VerifWithClock[int](cb, func() int64 { return w.Now })
		b.CB = cb.Build()
		b.Pol = b.CB
	case "fallback":
		v, e := in.FbVal, ErrByName[in.FbErr]
		fbFn := func(exec failsafe.Execution[int]) (int, error) {
			en := rec.Attempt(i, "fallback.fn", exec)
			en.Canceled = exec.IsCanceled()
			rec.add(en)
			if w.FallbackHook != nil {
				w.FallbackHook(i, exec)
			}
			if f := cancelOf(exec.Context()); in.FbCancel && f != nil {
				f()
			}
			return v, e
		}
		if in.Plain {
			switch in.FbKind {
			case "result":
				b.Pol = fallback.WithResult[int](v)
			case "error":
				b.Pol = fallback.WithError[int](e)
			default:
				b.Pol = fallback.WithFunc(fbFn)
			}
			return b
		}
		var fb fallback.FallbackBuilder[int]
		switch in.FbKind {
		case "result":
			fb = fallback.BuilderWithResult[int](v)
		case "error":
			fb = fallback.BuilderWithError[int](e)
		default:
			fb = fallback.BuilderWithFunc(fbFn)
		}
		applyHandle[fallback.FallbackBuilder[int]](fb, in.Conds)
		if on("OnSuccess") {
			fb.OnSuccess(att("OnSuccess"))
		}
		if on("OnFailure") {
			fb.OnFailure(func(e failsafe.ExecutionEvent[int]) {
				rec.add(rec.AttemptEvent(i, "OnFailure", e.ExecutionAttempt))
				if f := cancelOf(e.Context()); in.FbCancelInListener && f != nil {
					f()
				}
			})
		}
		if on("OnFallbackExecuted") {
			fb.OnFallbackExecuted(func(e failsafe.ExecutionDoneEvent[int]) {
				en := rec.Info(i, "OnFallbackExecuted", e.ExecutionInfo)
				en.HasRes, en.Res, en.Err = true, e.Result, e.Error
				rec.add(en)
			})
		}
		b.Pol = fb.Build()
		if in.Reuse {
			fb.OnFallbackExecuted(func(e failsafe.ExecutionDoneEvent[int]) {
				rec.add(rec.Info(i, "LATER.OnFallbackExecuted", e.ExecutionInfo))
			}).Build()
		}
	case "cache":
		cb := cachepolicy.Builder[int](w.Cache)
		if in.EarlierKey != "" {
			cb.WithKey(in.EarlierKey)
		}
		cb.WithKey(in.Key)
		for _, c := range in.Conds {
			c := c
			cb.CacheIf(func(v int, e error) bool { return c.Match(v, e) })
		}
		if on("OnCacheMiss") {
			cb.OnCacheMiss(att("OnCacheMiss"))
		}
		if on("OnResultCached") {
			cb.OnResultCached(att("OnResultCached"))
		}
		if on("OnCacheHit") {
			cb.OnCacheHit(func(e failsafe.ExecutionDoneEvent[int]) {
				en := rec.Info(i, "OnCacheHit", e.ExecutionInfo)
				en.HasRes, en.Res, en.Err = true, e.Result, e.Error
				rec.add(en)
			})
		}
		b.Pol = cb.Build()
	case "bulkhead":
		bb := bulkhead.Builder[int](uint(in.Max)).WithMaxWaitTime(time.Duration(in.MaxWaitMs) * time.Millisecond)
		if on("OnFull") {
			bb.OnFull(att("OnFull"))
		}
		b.BH = bb.Build()
		b.Pol = b.BH
	case "timeout":
		limit := time.Hour
		if in.Fire {
			limit = FireLimit
		}
		tb := timeout.Builder[int](limit)
		if on("OnTimeoutExceeded") {
			tb.OnTimeoutExceeded(func(e failsafe.ExecutionDoneEvent[int]) {
				en := rec.Info(i, "OnTimeoutExceeded", e.ExecutionInfo)
				en.HasRes, en.Res, en.Err = true, e.Result, e.Error
				rec.add(en)
			})
		}
		b.Pol = tb.Build()
		if in.Reuse {
			tb.OnTimeoutExceeded(func(e failsafe.ExecutionDoneEvent[int]) {
				rec.add(rec.Info(i, "LATER.OnTimeoutExceeded", e.ExecutionInfo))
			}).Build()
		}
	case "hedge":
		hb := hedgepolicy.BuilderWithDelay[int](time.Hour).WithMaxHedges(in.MaxHedges)
		for _, c := range in.Abort {
			switch c.K {
			case "errs":
				es := make([]error, len(c.Errs))
				for k, n := range c.Errs {
					es[k] = ErrByName[n]
				}
				hb.CancelOnErrors(es...)
				Scribble(es)
			case "types":
				hb.CancelOnErrorTypes(TypeTarget(c.Type))
			case "result":
				hb.CancelOnResult(c.Val)
			case "if":
				hb.CancelIf(Preds[c.Pred])
			}
		}
		if on("OnHedge") {
			hb.OnHedge(att("OnHedge"))
		}
		b.Pol = hb.Build()
		if in.Reuse {
			hb.OnHedge(att("LATER.OnHedge")).Build()
		}
	case "limiter":
		var rb ratelimiter.RateLimiterBuilder[int]
		if in.Smooth {
			rb = ratelimiter.SmoothBuilderWithMaxRate[int](time.Duration(in.Unit))
		} else {
			rb = ratelimiter.BurstyBuilder[int](uint(in.Per), time.Duration(in.Unit))
		}
		if on("OnRateLimitExceeded") {
			rb.OnRateLimitExceeded(att("OnRateLimitExceeded"))
		}
		b.RL = rb.Build()
		ratelimiter.VerifSetStopwatch[int](b.RL, func() time.Duration { return time.Duration(w.Now) })
		b.Pol = b.RL
	default:
		panic("bad kind " + in.Kind)
	}
	return b
}
