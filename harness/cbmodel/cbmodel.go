// Package cbmodel is a naive reference circuit breaker written from the documentation and the text of properties
// C03/C04: plain slices of results recounted on every query, no ring buffer, no time buckets. It shares no code with
// failsafe-go and is used by the C01, C03 and C04 checks.
package cbmodel

import (
	"fmt"
	"math"
)

type State int

const (
	Closed State = iota
	Open
	HalfOpen
)

func (s State) String() string { return [...]string{"closed", "open", "half-open"}[s] }

// Config mirrors the builder calls: Kind 0 WithFailureThreshold(FT), 1 WithFailureThresholdRatio(FT,FCap),
// 2 WithFailureThresholdPeriod(FT,Period), 3 WithFailureRateThreshold(FRate,FExec,Period); success threshold optional.
type Config struct {
	Kind   int   `json:"kind"`
	FT     uint  `json:"ft,omitempty"`
	FCap   uint  `json:"fcap,omitempty"`
	FRate  uint  `json:"frate,omitempty"`
	FExec  uint  `json:"fexec,omitempty"`
	Period int64 `json:"period,omitempty"`
	ST     uint  `json:"st,omitempty"`
	SCap   uint  `json:"scap,omitempty"`
	Delay  int64 `json:"delay"`
}

func (c Config) String() string {
	s := ""
	switch c.Kind {
	case 0:
		s = fmt.Sprintf("count(%d)", c.FT)
	case 1:
		s = fmt.Sprintf("ratio(%d/%d)", c.FT, c.FCap)
	case 2:
		s = fmt.Sprintf("period-count(%d in %d)", c.FT, c.Period)
	case 3:
		s = fmt.Sprintf("period-rate(%d%% of >=%d in %d)", c.FRate, c.FExec, c.Period)
	}
	if c.ST != 0 {
		s += fmt.Sprintf(" success(%d/%d)", c.ST, c.SCap)
	}
	return s + fmt.Sprintf(" delay=%d", c.Delay)
}

type entry struct {
	t  int64
	ok bool
}

type Counts struct{ N, F uint }

func (c Counts) S() uint        { return c.N - c.F }
func (c Counts) FailRate() uint { return Rate(c.F, c.N) }
func (c Counts) SuccRate() uint { return Rate(c.N-c.F, c.N) }

// Rate is the percentage the Metrics interface documents (a rounded uint).
func Rate(a, n uint) uint {
	if n == 0 {
		return 0
	}
	return uint(math.Round(float64(a) / float64(n) * 100.0))
}

type Event struct {
	Old, New State
	// Metrics of the old state at the transition: exact when Exact, else bounded by Lo/Hi (time window grey zone) or
	// unchecked when Tainted.
	Lo, Hi  Counts
	Exact   bool
	Tainted bool
}

type Model struct {
	C     Config
	state State

	ring  []bool  // closed, count based: last capacity results
	timed []entry // closed, time based: all results of this closed epoch with timestamps

	hring       []bool
	hcap        uint
	permits     int
	outstanding int  // permits handed out in this half-open epoch and not yet returned
	Tainted     bool // half-open: a result arrived without a permit (L3); open: a result arrived while open

	openStart, openDelay int64
	atOpenLo, atOpenHi   Counts // metrics of the state that was left when the breaker opened
	lastRecord           int64  // closed, time based: instant of the most recent record (the window slides on records)

	Events []Event

	// informational
	GreyDecisions  int
	ExactRuleAgree int
	ExactRuleTotal int
	ThresholdTrans int
}

func New(c Config) *Model { return &Model{C: c, state: Closed} }

func (m *Model) State() State { return m.state }

func (m *Model) closedCap() uint {
	if m.C.FExec != 0 {
		return m.C.FExec
	}
	return m.C.FCap
}

func (m *Model) halfCap() uint {
	if m.C.SCap != 0 {
		return m.C.SCap
	}
	if m.C.FExec != 0 {
		return m.C.FExec
	}
	return m.C.FCap
}

func count(r []bool) Counts {
	var c Counts
	for _, ok := range r {
		c.N++
		if !ok {
			c.F++
		}
	}
	return c
}

// windowOptions returns every count the property's envelope allows for the time window at instant now: results of age
// <= 0.9*period always count, results of age > period never, and of the results in between any newest-first prefix may.
func (m *Model) windowOptions(now int64) []Counts {
	p := m.C.Period
	var sure Counts
	var grey []entry // oldest first
	for _, e := range m.timed {
		age := now - e.t
		switch {
		case age*10 <= 9*p:
			sure.N++
			if !e.ok {
				sure.F++
			}
		case age <= p:
			grey = append(grey, e)
		}
	}
	opts := []Counts{sure}
	c := sure
	for i := len(grey) - 1; i >= 0; i-- {
		c.N++
		if !grey[i].ok {
			c.F++
		}
		opts = append(opts, c)
	}
	return opts
}

// exactWindow is the slice rule the implementation happens to use (10 slices aligned at clock 0); informational only.
func (m *Model) exactWindow(now int64) Counts {
	b := m.C.Period / 10
	var c Counts
	for _, e := range m.timed {
		if now/b-e.t/b <= 9 {
			c.N++
			if !e.ok {
				c.F++
			}
		}
	}
	return c
}

func (m *Model) closedOpens(c Counts) bool {
	if c.N < m.C.FExec {
		return false
	}
	if m.C.FRate != 0 {
		return c.FailRate() >= m.C.FRate
	}
	return c.F >= m.C.FT
}

func (m *Model) transition(to State, now int64, delay int64, lo, hi Counts, exact bool) {
	if m.state == to {
		return
	}
	ev := Event{Old: m.state, New: to, Lo: lo, Hi: hi, Exact: exact, Tainted: m.Tainted}
	m.Events = append(m.Events, ev)
	switch to {
	case Closed:
		m.ring, m.timed = nil, nil
	case Open:
		m.openStart, m.openDelay = now, delay
		m.atOpenLo, m.atOpenHi = lo, hi
	case HalfOpen:
		m.hring = nil
		m.hcap = m.halfCap()
		m.permits = int(m.hcap)
		m.outstanding = 0
	}
	m.Tainted = false
	m.state = to
}

// currentCounts is the metrics of the current state as far as the model can know them.
func (m *Model) currentCounts(now int64) (lo, hi Counts, exact bool) {
	switch m.state {
	case Closed:
		if m.C.Period != 0 {
			if len(m.timed) == 0 {
				return Counts{}, Counts{}, true
			}
			// the window slides when a result is recorded; a read at a later instant may still see the window as of
			// the last record, or anything younger
			o := m.windowOptions(now)
			then := m.windowOptions(m.lastRecord)
			lo, hi = o[0], then[len(then)-1]
			return lo, hi, lo == hi
		}
		c := count(m.ring)
		return c, c, true
	case HalfOpen:
		c := count(m.hring)
		return c, c, true
	default:
		return m.atOpenLo, m.atOpenHi, m.atOpenLo == m.atOpenHi && !m.Tainted
	}
}

// Metrics returns what Metrics() must report now. For a time-based closed state the window only slides when a result is
// recorded, so the caller should consult it right after a Record.
func (m *Model) Metrics(now int64) (lo, hi Counts, exact bool) { return m.currentCounts(now) }

// Manual applies Open()/HalfOpen()/Close().
func (m *Model) Manual(to State, now int64) {
	lo, hi, exact := m.currentCounts(now)
	m.transition(to, now, m.C.Delay, lo, hi, exact)
}

// TryAcquire returns the admission decision; checked is false when the property leaves it open (tainted half-open epoch).
func (m *Model) TryAcquire(now int64) (admit bool, checked bool) {
	switch m.state {
	case Closed:
		return true, true
	case Open:
		if now-m.openStart >= m.openDelay {
			lo, hi, exact := m.currentCounts(now)
			m.transition(HalfOpen, now, 0, lo, hi, exact)
			return m.TryAcquire(now)
		}
		return false, true
	default:
		if m.Tainted {
			return m.permits > 0, false
		}
		if m.permits > 0 {
			m.permits--
			m.outstanding++
			return true, true
		}
		return false, true
	}
}

// ObservedAcquire tells the model what an unchecked TryAcquire actually did.
func (m *Model) ObservedAcquire(admitted bool) {
	if admitted {
		m.outstanding++
	}
}

type Ambiguity int

const (
	Decided Ambiguity = iota
	GreyZone
)

// Record feeds one result. delay is the delay that applies if this result opens the breaker. When the time window's grey
// zone makes the open decision ambiguous the model does not move and returns GreyZone; the caller then reports what the
// implementation did through Resolve.
func (m *Model) Record(ok bool, now int64, delay int64) Ambiguity {
	switch m.state {
	case Closed:
		if m.C.Period != 0 {
			m.timed = append(m.timed, entry{now, ok})
			m.lastRecord = now
			opts := m.windowOptions(now)
			first := m.closedOpens(opts[0])
			same := true
			for _, o := range opts[1:] {
				if m.closedOpens(o) != first {
					same = false
				}
			}
			m.ExactRuleTotal++
			ex := m.closedOpens(m.exactWindow(now))
			if !same {
				m.GreyDecisions++
				return GreyZone
			}
			if ex == first {
				m.ExactRuleAgree++
			}
			if first {
				m.ThresholdTrans++
				m.transition(Open, now, delay, opts[0], opts[len(opts)-1], len(opts) == 1)
			}
			return Decided
		}
		m.ring = append(m.ring, ok)
		if uint(len(m.ring)) > m.closedCap() {
			m.ring = m.ring[1:]
		}
		c := count(m.ring)
		if c.F >= m.C.FT {
			m.ThresholdTrans++
			m.transition(Open, now, delay, c, c, true)
		}
	case Open:
		m.Tainted = true // late result: ignored for transitions, metrics implementation-defined until the next transition
	case HalfOpen:
		if m.outstanding > 0 {
			m.outstanding--
		} else {
			m.Tainted = true
		}
		m.hring = append(m.hring, ok)
		if uint(len(m.hring)) > m.hcap {
			m.hring = m.hring[1:]
		}
		c := count(m.hring)
		var succEx, failEx bool
		switch {
		case m.C.ST != 0:
			succEx = c.S() >= m.C.ST
			failEx = c.F > m.C.SCap-m.C.ST
		case m.C.FRate != 0:
			thr := c.N >= m.C.FExec
			failEx = thr && c.FailRate() >= m.C.FRate
			succEx = thr && c.SuccRate() > 100-m.C.FRate
		default:
			failEx = c.F >= m.C.FT
			succEx = c.S() > m.C.FCap-m.C.FT
		}
		m.permits++
		if succEx {
			m.ThresholdTrans++
			m.transition(Closed, now, 0, c, c, true)
		} else if failEx {
			m.ThresholdTrans++
			m.transition(Open, now, delay, c, c, true)
		}
	}
	return Decided
}

// Resolve completes a GreyZone record with the implementation's observed decision.
func (m *Model) Resolve(opened bool, now int64, delay int64) {
	if opened {
		opts := m.windowOptions(now)
		m.transition(Open, now, delay, opts[0], opts[len(opts)-1], false)
	}
}

func (m *Model) Remaining(now int64) int64 {
	if m.state != Open {
		return 0
	}
	r := m.openDelay - (now - m.openStart)
	if r < 0 {
		r = 0
	}
	return r
}

// FreePermits is the number of trial permits available in an untainted half-open epoch.
func (m *Model) FreePermits() (int, bool) {
	if m.state != HalfOpen || m.Tainted {
		return 0, false
	}
	return m.permits, true
}

func (m *Model) OpenStart() int64 { return m.openStart }
func (m *Model) OpenDelay() int64 { return m.openDelay }
